"""CRC32 (IEEE 802.3) and CRC64 (ECMA-182) from their mathematical definitions over GF(2)[x].
Polynomials are Python ints in normal bit order (bit k = coefficient of x^k)."""

P32 = 0x104C11DB7
P64 = 0x142F0E1EBA9EA3693


def reflect(v, n):
    r = 0
    for i in range(n):
        if v >> i & 1:
            r |= 1 << (n - 1 - i)
    return r


def deg(p):
    return p.bit_length() - 1


def pmod(a, p):
    dp = deg(p)
    while a and deg(a) >= dp:
        a ^= p << (deg(a) - dp)
    return a


def pdiv(a, p):
    dp = deg(p)
    q = 0
    while a and deg(a) >= dp:
        s = deg(a) - dp
        q |= 1 << s
        a ^= p << s
    return q


def table0(P, n):
    """Byte table of the reflected CRC: T[b] = (b * x^n) mod P, everything bit-reflected."""
    t = []
    for b in range(256):
        v = reflect(b, 8) << n          # b(x) * x^n  with b reflected
        t.append(reflect(pmod(v, P), n))
    return t


def slice_tables(P, n, count):
    t = [table0(P, n)]
    mask = (1 << n) - 1
    for s in range(1, count):
        prev = t[-1]
        t.append([((prev[b] >> 8) ^ t[0][prev[b] & 0xFF]) & mask for b in range(256)])
    return t


def fold_const(P, n, bits):
    """Reflected representation of x^(bits + n - 1) mod P (n = degree of P)."""
    return reflect(pmod(1 << (bits + n - 1), P), n)


def mu_hi(P, n):
    """((reflected low n coefficients of floor(x^(2n') / P)) << 1 | 1) as used with CLMUL:
    for CRC64 n' = 64; CRC32 is handled as the degree-64 polynomial P(x) * x^32."""
    if n == 32:
        q = pdiv(1 << 96, P)            # floor(x^128 / (P * x^32))
    else:
        q = pdiv(1 << 128, P)
    low = q & ((1 << 64) - 1)           # drop the implied x^64 term
    return ((reflect(low, 64) << 1) | 1) & ((1 << 64) - 1)


def clmul_constants(n):
    P = P32 if n == 32 else P64
    rev = reflect(P & ((1 << n) - 1), n)            # reversed polynomial without the top term
    return {
        "fold512": (fold_const(P, n, 4 * 128 - 64), fold_const(P, n, 4 * 128)),
        "fold128": (fold_const(P, n, 128 - 64), fold_const(P, n, 128)),
        "mu_p": (mu_hi(P, n), (rev << 1) & ((1 << 65) - 1)),
    }
