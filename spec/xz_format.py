"""Layout facts of the .xz container, transcribed from doc/xz-file-format.txt (sections 2-4),
and of the .lzma header from doc/lzma-file-format.txt."""

HEADER_MAGIC = [0xFD, 0x37, 0x7A, 0x58, 0x5A, 0x00]
FOOTER_MAGIC = [0x59, 0x5A]

STREAM_HEADER = {          # 2.1.1
    "size": 12,
    "magic": (0, 6),                 # offset, length
    "flags": (6, 2),
    "crc32_at": 8, "crc32_over": (6, 2),
}
STREAM_FOOTER = {          # 2.1.2
    "size": 12,
    "crc32_at": 0, "crc32_over": (4, 6),
    "backward_size_at": 4,           # stored = real / 4 - 1 ; real = (stored + 1) * 4
    "flags": (8, 2),
    "magic": (10, 2),
}
STREAM_FLAGS = {"byte0": 0x00, "check_mask": 0x0F, "reserved_mask": 0xF0}

BLOCK_HEADER = {           # 3.1
    "size_byte": "real = (stored + 1) * 4, 8..1024",
    "flag_compressed": 0x40, "flag_uncompressed": 0x80, "filters_mask": 0x03, "reserved_mask": 0x3C,
    "order": ["size", "flags", "compressed_size", "uncompressed_size", "filter_flags", "padding", "crc32"],
}
CHECK_SIZES = [0, 4, 4, 4, 8, 8, 8, 16, 16, 16, 32, 32, 32, 64, 64, 64]
INDEX = {"indicator": 0x00, "order": ["indicator", "count", "records", "padding", "crc32"]}

LZMA_ALONE = {"props": (0, 1), "dict_size": (1, 4), "uncompressed_size": (5, 8), "unknown_size": 0xFF}

# worst-case header + check reserved by the buffer encoders (block_buffer_encoder.c HEADERS_BOUND):
# Block Header max for one LZMA2 filter chain + largest Check
