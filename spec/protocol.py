"""The lzma_code() calling protocol as documented in src/liblzma/api/lzma/base.h
(lzma_action, lzma_ret, lzma_code), written as a transition function."""

ISEQ = ("ISEQ_RUN", "ISEQ_SYNC_FLUSH", "ISEQ_FULL_FLUSH", "ISEQ_FINISH", "ISEQ_FULL_BARRIER",
        "ISEQ_END", "ISEQ_ERROR")
ACTIONS = ("LZMA_RUN", "LZMA_SYNC_FLUSH", "LZMA_FULL_FLUSH", "LZMA_FINISH", "LZMA_FULL_BARRIER")
ACTION_STATE = {"LZMA_RUN": "ISEQ_RUN", "LZMA_SYNC_FLUSH": "ISEQ_SYNC_FLUSH",
                "LZMA_FULL_FLUSH": "ISEQ_FULL_FLUSH", "LZMA_FINISH": "ISEQ_FINISH",
                "LZMA_FULL_BARRIER": "ISEQ_FULL_BARRIER"}
# codes after which coding may continue
NONFATAL = ("LZMA_NO_CHECK", "LZMA_UNSUPPORTED_CHECK", "LZMA_GET_CHECK", "LZMA_MEMLIMIT_ERROR")


def before_call(seq, action, supported, avail_in_changed):
    """-> ('return', code) or ('call', new_seq)."""
    if action not in ACTIONS or not supported:
        return ("return", "LZMA_PROG_ERROR")
    if seq == "ISEQ_RUN":
        return ("call", ACTION_STATE[action])
    if seq in ("ISEQ_SYNC_FLUSH", "ISEQ_FULL_FLUSH", "ISEQ_FINISH", "ISEQ_FULL_BARRIER"):
        # the same action until LZMA_STREAM_END, and no new input
        if ACTION_STATE[action] != seq or avail_in_changed:
            return ("return", "LZMA_PROG_ERROR")
        return ("call", seq)
    if seq == "ISEQ_END":
        return ("return", "LZMA_STREAM_END")
    return ("return", "LZMA_PROG_ERROR")


def after_call(seq, coder_ret, progress, allow_buf_error):
    """-> (returned code, new seq, new allow_buf_error)."""
    if coder_ret == "LZMA_OK":
        if not progress:
            if allow_buf_error:
                return ("LZMA_BUF_ERROR", seq, True)
            return ("LZMA_OK", seq, True)
        return ("LZMA_OK", seq, False)
    if coder_ret == "LZMA_RET_INTERNAL1":          # LZMA_TIMED_OUT
        return ("LZMA_OK", seq, False)
    if coder_ret == "LZMA_SEEK_NEEDED":
        return ("LZMA_SEEK_NEEDED", "ISEQ_RUN" if seq == "ISEQ_FINISH" else seq, False)
    if coder_ret == "LZMA_STREAM_END":
        if seq in ("ISEQ_SYNC_FLUSH", "ISEQ_FULL_FLUSH", "ISEQ_FULL_BARRIER"):
            return ("LZMA_STREAM_END", "ISEQ_RUN", False)
        return ("LZMA_STREAM_END", "ISEQ_END", False)
    if coder_ret in NONFATAL:
        return (coder_ret, seq, False)
    return (coder_ret, "ISEQ_ERROR", allow_buf_error)


# supported actions per public initialiser (from the API documentation of each function)
ALL5 = {"LZMA_RUN", "LZMA_SYNC_FLUSH", "LZMA_FULL_FLUSH", "LZMA_FULL_BARRIER", "LZMA_FINISH"}
RF = {"LZMA_RUN", "LZMA_FINISH"}
SUPPORTED = {
    "lzma_stream_encoder": ALL5,
    "lzma_stream_encoder_mt": ALL5 - {"LZMA_SYNC_FLUSH"},
    "lzma_alone_encoder": RF,
    "lzma_raw_encoder": RF | {"LZMA_SYNC_FLUSH"},
    "lzma_block_encoder": RF | {"LZMA_SYNC_FLUSH"},
    "lzma_index_encoder": RF,
    "lzma_microlzma_encoder": {"LZMA_FINISH"},
    "lzma_stream_decoder": RF, "lzma_stream_decoder_mt": RF, "lzma_auto_decoder": RF,
    "lzma_alone_decoder": RF, "lzma_lzip_decoder": RF, "lzma_raw_decoder": RF,
    "lzma_block_decoder": RF, "lzma_index_decoder": RF, "lzma_file_info_decoder": RF,
    "lzma_microlzma_decoder": RF,
}
