"""LZMA2 chunk control byte semantics (written from the format description, not from
lzma2_decoder.c):

  0x00          end marker
  0x01          uncompressed chunk, dictionary reset
  0x02          uncompressed chunk, no reset
  0x03..0x7F    invalid
  0x80..0xFF    LZMA chunk; bits 5..6 select what is reset:
                  0 nothing, 1 state, 2 state + new properties,
                  3 state + new properties + dictionary
                bits 0..4 are bits 16..20 of (uncompressed size - 1)

Stream rules: the first chunk must reset the dictionary (unless a preset dictionary is
in use); the first LZMA chunk after a dictionary reset must carry new properties.
"""


def classify(c):
    if c == 0x00:
        return ("end",)
    if c == 0x01:
        return ("uncompressed", True)
    if c == 0x02:
        return ("uncompressed", False)
    if c < 0x80:
        return ("invalid",)
    return ("lzma", (c >> 5) & 3)


def expected(c, need_props, need_dict_reset):
    """Outcome of reading control byte c in decoder state (need_props, need_dict_reset):
    dict with keys: result in {'end','error','ok'}; for 'ok': dict_reset, state_reset_now,
    props_follow, lzma, need_props_after, need_dict_reset_after, size_bits."""
    k = classify(c)
    if k[0] == "end":
        return {"result": "end"}
    if k[0] == "invalid":
        return {"result": "error"}
    if k[0] == "uncompressed":
        resets_dict = k[1]
        if need_dict_reset and not resets_dict:
            return {"result": "error"}
        return {"result": "ok", "lzma": False, "dict_reset": resets_dict or False,
                "state_reset_now": False, "props_follow": False,
                "need_props_after": need_props or resets_dict,
                "need_dict_reset_after": False}
    level = k[1]
    resets_dict = level == 3
    new_props = level >= 2
    if need_dict_reset and not resets_dict:
        return {"result": "error"}
    np = need_props or resets_dict
    if np and not new_props:
        return {"result": "error"}
    return {"result": "ok", "lzma": True, "dict_reset": resets_dict,
            # with new properties the state reset happens when the properties byte is read
            "state_reset_now": level == 1, "props_follow": new_props,
            "need_props_after": False if new_props else np,
            "need_dict_reset_after": False,
            "size_bits": (c & 0x1F) << 16}


def dict_size_from_props(b):
    """LZMA2 dictionary size byte (0..40); None if invalid."""
    if b > 40:
        return None
    if b == 40:
        return 0xFFFFFFFF
    return (2 | (b & 1)) << (b // 2 + 11)


def lclppb(byte):
    """(lc, lp, pb) or None if the properties byte is invalid (LZMA2: lc + lp <= 4)."""
    if byte > (4 * 5 + 4) * 9 + 8:
        return None
    pb = byte // 45
    byte -= pb * 45
    lp = byte // 9
    lc = byte - lp * 9
    if lc + lp > 4:
        return None
    return (lc, lp, pb)
