"""lzip (.lz) format facts, written from the lzip manual (file format section), not
from lzip_decoder.c."""

MAGIC = [0x4C, 0x5A, 0x49, 0x50]          # "LZIP"
VERSIONS = {0, 1}
LC, LP, PB = 3, 0, 2
FOOTER_SIZE = {0: 12, 1: 20}               # CRC32(4) + data size(8) [+ member size(8)]
DICT_MIN, DICT_MAX = 4096, 512 << 20


def dict_size(ds):
    """Dictionary size for the coded byte, or None when the byte is invalid.
    bits 4-0: base-2 log of the base size (12..29); bits 7-5: number of 1/16 wedges of
    the base size to subtract (0..7).  Valid sizes are 4 KiB .. 512 MiB."""
    b2log = ds & 0x1F
    frac = ds >> 5
    if b2log < 12 or b2log > 29:
        return None
    size = (1 << b2log) - frac * (1 << (b2log - 4))
    if size < DICT_MIN or size > DICT_MAX:
        return None
    if b2log == 12 and frac > 0:
        return None
    return size
