"""SHA-256 constants and functions from FIPS 180-4."""


def _primes(n):
    out, c = [], 2
    while len(out) < n:
        if all(c % p for p in out):
            out.append(c)
        c += 1
    return out


def _iroot(x, k):
    lo, hi = 0, 1
    while hi ** k <= x:
        hi *= 2
    while lo < hi - 1:
        mid = (lo + hi) // 2
        if mid ** k <= x:
            lo = mid
        else:
            hi = mid
    return lo


def K():
    # first 32 bits of the fractional parts of the cube roots of the first 64 primes
    return [_iroot(p << 96, 3) & 0xFFFFFFFF for p in _primes(64)]


def H0():
    # first 32 bits of the fractional parts of the square roots of the first 8 primes
    return [_iroot(p << 64, 2) & 0xFFFFFFFF for p in _primes(8)]


def rotr(x, n):
    return ((x >> n) | (x << (32 - n))) & 0xFFFFFFFF


def Sigma0(x): return rotr(x, 2) ^ rotr(x, 13) ^ rotr(x, 22)
def Sigma1(x): return rotr(x, 6) ^ rotr(x, 11) ^ rotr(x, 25)
def sigma0(x): return rotr(x, 7) ^ rotr(x, 18) ^ (x >> 3)
def sigma1(x): return rotr(x, 17) ^ rotr(x, 19) ^ (x >> 10)
def Ch(x, y, z): return (x & y) ^ (~x & z)
def Maj(x, y, z): return (x & y) ^ (x & z) ^ (y & z)
