"""Branch/call/jump filter facts per architecture (from the xz file format specification section
5.3.2 "Branch/Call/Jump Filters for Executables" and the instruction encodings of each ISA)."""

# alignment of the start offset / stride, look-ahead bytes the filter may need (unfiltered_max),
# pc bias added to the instruction address
ARCH = {
    "x86":      {"alignment": 1,  "window": 5,  "id": 0x04},
    "powerpc":  {"alignment": 4,  "window": 4,  "id": 0x05},
    "ia64":     {"alignment": 16, "window": 16, "id": 0x06},
    "arm":      {"alignment": 4,  "window": 4,  "id": 0x07},
    "armthumb": {"alignment": 2,  "window": 4,  "id": 0x08},
    "sparc":    {"alignment": 4,  "window": 4,  "id": 0x09},
    "arm64":    {"alignment": 4,  "window": 4,  "id": 0x0A},
    "riscv":    {"alignment": 2,  "window": 8,  "id": 0x0B},
}


def arm(b):               # b = 4 bytes little endian: BL with condition "always"
    return b[3] == 0xEB


def armthumb(b):          # BL pair: 11110xxx xxxxxxxx 11111xxx xxxxxxxx (little-endian halfwords)
    return (b[1] & 0xF8) == 0xF0 and (b[3] & 0xF8) == 0xF8


def powerpc(b):           # big endian: opcode 18 (b), AA = 0, LK = 1
    return (b[0] >> 2) == 0x12 and (b[3] & 3) == 1


def sparc(b):             # call with the displacement's top bits all 0 or all 1
    return (b[0] == 0x40 and (b[1] & 0xC0) == 0x00) or (b[0] == 0x7F and (b[1] & 0xC0) == 0xC0)


# instruction bits each reference predicate depends on: ("B", byte, bit)
SUPPORT = {
    "arm": [("B", 3, j) for j in range(8)],
    "armthumb": [("B", 1, j) for j in range(3, 8)] + [("B", 3, j) for j in range(3, 8)],
    "powerpc": [("B", 0, j) for j in range(2, 8)] + [("B", 3, j) for j in range(0, 2)],
    "sparc": [("B", 0, j) for j in range(8)] + [("B", 1, j) for j in range(6, 8)],
}

X86_OPCODES = {0xE8, 0xE9}            # call rel32, jmp rel32
X86_MSBYTE = {0x00, 0xFF}             # plausible most significant byte of the displacement
X86_ALLOWED_MASK = {0, 1, 2, 4}       # kMaskToAllowedStatus = {1,1,1,0,1,0,0,0} of the reference implementation
X86_MASK_TO_BIT_NUMBER = [0, 1, 2, 2, 3]
# prevMask bookkeeping of the reference x86 filter: aged with (m & 0x77) << 1 per byte, reset on a long gap and after a
# conversion, low bit set for a rejected candidate, 0x10 when its MS byte looked plausible
X86_MASK_UPDATES = [("&=", 0x77), ("<<=", 1), ("=", 0), ("=", 0), ("|=", 1), ("|=", 0x10)]

IA64_BRANCH_TABLE = [0, 0, 0, 0, 0, 0, 0, 0, 0, 0, 0, 0, 0, 0, 0, 0,
                     4, 4, 6, 6, 0, 0, 7, 7, 4, 4, 0, 0, 4, 4, 0, 0]


def ia64_slot(inst):
    """41-bit instruction slot (normalised): branch unit opcode 5 (br.call / IP-relative branch), btype 0."""
    return ((inst >> 37) & 0xF) == 0x5 and ((inst >> 9) & 0x7) == 0


def arm64_bl(instr):
    return (instr >> 26) == 0x25


def arm64_adrp(instr):
    return (instr & 0x9F000000) == 0x90000000


PC_BIAS = {"arm": 8, "armthumb": 4, "powerpc": 0, "sparc": 0, "x86": 5}


# ----------------------------------------------------------------------------------------------------------------
# Bit routing of the reference transforms.  B(k, j) = bit j of instruction byte k (as laid out in the file),
# D(j) = bit j of the converted address (src +/- pc).  `gather` is the 32-bit value to which the position is added,
# `scatter` gives every byte the filter stores.  Bits are listed least significant first.

def B(k, j):
    return ("B", k, j)


def D(j):
    return ("D", j)


def byte(k, lo=0, hi=8):
    return [B(k, j) for j in range(lo, hi)]


def drange(lo, hi):
    return [D(j) for j in range(lo, hi)]


def pad(bits, n=32):
    return bits + [0] * (n - len(bits))


def word_le(first=0):
    return byte(first) + byte(first + 1) + byte(first + 2) + byte(first + 3)


ROUTING = {
    # ARM BL: 24-bit word offset in the low three bytes, little endian, counted in 4-byte units
    "arm": {"scale": 2,
            "gather": pad([0, 0] + byte(0) + byte(1) + byte(2)),
            "scatter": {0: drange(2, 10), 1: drange(10, 18), 2: drange(18, 26)}},
    # Thumb BL pair: first halfword carries offset[21:11], second offset[10:0], in 2-byte units
    "armthumb": {"scale": 1,
                 "gather": pad([0] + byte(2) + byte(3, 0, 3) + byte(0) + byte(1, 0, 3)),
                 "scatter": {1: drange(20, 23) + [0, 1, 1, 1, 1], 0: drange(12, 20),
                             3: drange(9, 12) + [1, 1, 1, 1, 1], 2: drange(1, 9)}},
    # PowerPC b/bl: big endian, LI field bits 2..25, AA/LK kept
    "powerpc": {"scale": 2,
                "gather": pad([0, 0] + byte(3, 2, 8) + byte(2) + byte(1) + byte(0, 0, 2)),
                "scatter": {0: drange(24, 26) + [0, 1, 0, 0, 1, 0], 1: drange(16, 24), 2: drange(8, 16),
                            3: byte(3, 0, 2) + drange(2, 8)}},
    # SPARC call: big endian 30-bit word displacement; only 23 bits are kept and sign-extended
    "sparc": {"scale": 2,
              "gather": pad([0, 0] + byte(3) + byte(2) + byte(1) + byte(0, 0, 6)),
              "scatter": {3: drange(2, 10), 2: drange(10, 18), 1: drange(18, 24) + [D(24), D(24)],
                          0: [D(24)] * 6 + [1, 0]}},
    # x86 call/jmp rel32: little endian displacement in bytes 1..4; byte 4 becomes 0x00/0xFF from bit 24
    "x86": {"scale": 0,
            "gather": word_le(1),
            "scatter": {1: drange(0, 8), 2: drange(8, 16), 3: drange(16, 24), 4: [D(24)] * 8}},
    # ARM64 BL: imm26 in 4-byte units (pc >> 2)
    "arm64-bl": {"pc_shift": 2,
                 "gather": word_le(0),
                 "scatter": {0: drange(0, 8), 1: drange(8, 16), 2: drange(16, 24),
                             3: drange(24, 26) + [1, 0, 1, 0, 0, 1]}},
    # ARM64 ADRP: immlo = bits 29..30, immhi = bits 5..23, in 4 KiB units (pc >> 12); 18 bits kept + sign
    "arm64-adrp": {"pc_shift": 12,
                   "gather": pad([B(3, 5), B(3, 6)] + byte(0, 5, 8) + byte(1) + byte(2)),
                   "scatter": {0: byte(0, 0, 5) + drange(2, 5), 1: drange(5, 13),
                               2: drange(13, 18) + [D(17)] * 3,
                               3: [0, 0, 0, 0, B(3, 4), D(0), D(1), B(3, 7)]}},
    # RISC-V JAL (J-type immediate) -> big-endian-like 20-bit absolute address, in 2-byte units
    "riscv-jal-enc": {"scale": 1,
                      "gather": pad([0] + byte(2, 5, 8) + byte(3, 0, 7) + [B(2, 4)] + byte(1, 4, 8) + byte(2, 0, 4)
                                    + [B(3, 7)]),
                      "scatter": {1: byte(1, 0, 4) + drange(17, 21), 2: drange(9, 17), 3: drange(1, 9)}},
    "riscv-jal-dec": {"scale": 1,
                      "gather": pad([0] + byte(3) + byte(2) + byte(1, 4, 8)),
                      "scatter": {1: byte(1, 0, 4) + drange(12, 16),
                                  2: drange(16, 20) + [D(11)] + drange(1, 4),
                                  3: drange(4, 11) + [D(20)]}},
}


def _compose(scatter, gather, fixed):
    """gather applied to the bytes produced by scatter: every D(j) that is stored must come back at bit j."""
    out = []
    for g in gather:
        if isinstance(g, tuple) and g[0] == "B" and g[1] in scatter:
            out.append(scatter[g[1]][g[2]])
        else:
            out.append(g)
    return out


def self_check():
    """The reference tables are themselves inverse: gather(scatter(D)) returns D on every stored bit."""
    problems = []
    for name, r in ROUTING.items():
        sc = r["scatter"]
        ga = r["gather"]
        if name.startswith("riscv-jal"):
            other = ROUTING["riscv-jal-dec" if name.endswith("enc") else "riscv-jal-enc"]
            ga = other["gather"]
        back = _compose(sc, ga, None)
        for j, x in enumerate(back):
            if isinstance(x, tuple) and x[0] == "D" and x[1] != j:
                # sign replication: a stored copy of the top kept bit may come back at higher positions
                stored = sorted({y[1] for v in sc.values() for y in v if isinstance(y, tuple) and y[0] == "D"})
                if not (x[1] == stored[-1] and j > x[1]):
                    problems.append("%s: bit %d of the re-gathered value is D%d" % (name, j, x[1]))
    return problems
