"""Compile database for /repo, regenerated on every run.

Source of truth: /repo/_build/build.ninja (`ninja -t compdb`, does not build).
Fallback when it is missing: `cmake -G Ninja` configure-only into a scratch
directory that is removed afterwards.
"""
import json, os, shlex, shutil, subprocess, tempfile

REPO = os.environ.get("XZ_REPO", "/repo")

DROP_PREFIX = ("-W", "-M")
DROP_EXACT = {"-c"}
DROP_WITH_ARG = {"-MT", "-MF", "-MQ", "-o"}


class AnalysisBroken(Exception):
    pass


def _ninja_compdb(build_dir):
    out = subprocess.run(["ninja", "-C", build_dir, "-t", "compdb"],
                         capture_output=True, text=True)
    if out.returncode != 0:
        raise AnalysisBroken("ninja -t compdb failed: " + out.stderr[-400:])
    return json.loads(out.stdout)


def _configure_scratch():
    d = tempfile.mkdtemp(prefix="xzverif-cfg-")
    r = subprocess.run(["cmake", "-G", "Ninja", "-S", REPO, "-B", d],
                       capture_output=True, text=True)
    if r.returncode != 0:
        shutil.rmtree(d, ignore_errors=True)
        raise AnalysisBroken("cmake configure failed: " + r.stderr[-400:])
    return d


def target_of(output):
    # CMakeFiles/liblzma.dir/src/... -> liblzma
    parts = output.split("/")
    for p in parts:
        if p.endswith(".dir"):
            return p[:-4]
    return "?"


def load(repo=None):
    """Return list of {file, target, args} for every C compile command."""
    repo = repo or REPO
    build = os.path.join(repo, "_build")
    scratch = None
    try:
        if os.path.exists(os.path.join(build, "build.ninja")):
            raw = _ninja_compdb(build)
        else:
            scratch = _configure_scratch()
            raw = _ninja_compdb(scratch)
    finally:
        if scratch:
            shutil.rmtree(scratch, ignore_errors=True)
    entries = []
    seen = set()
    for e in raw:
        f = e["file"]
        if not f.endswith(".c"):
            continue
        argv = shlex.split(e["command"])
        args = []
        i = 1
        while i < len(argv):
            a = argv[i]
            if a in DROP_WITH_ARG:
                i += 2
                continue
            if a in DROP_EXACT or a == f:
                i += 1
                continue
            if a.startswith(DROP_PREFIX) and not a.startswith("-Wno-error"):
                i += 1
                continue
            if a == "-Wno-error":
                i += 1
                continue
            args.append(a)
            i += 1
        tgt = target_of(e.get("output", ""))
        key = (f, tgt, tuple(args))
        if key in seen:
            continue
        seen.add(key)
        if not any(a.startswith("-std=") for a in args):
            args.append("-std=gnu11")
        args += ["-w", "-Wno-everything"]
        # if the file path is given relative to a scratch build dir, re-anchor
        if not os.path.isabs(f):
            f = os.path.normpath(os.path.join(e["directory"], f))
        entries.append({"file": f, "target": tgt, "args": args,
                        "dir": repo})
    if not entries:
        raise AnalysisBroken("empty compile database")
    return entries


if __name__ == "__main__":
    es = load()
    print(len(es), "entries;", len({e['file'] for e in es}), "files")
