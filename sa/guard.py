"""E-GUARD: validation obligations as edge cuts on the E-FD product graph.

An obligation holds iff, after deleting the *passing* edges of all branches that
discharge it (plus allowed bypass edges), no destination (success exit) is
reachable from the sources in the resume-aware product graph.
"""
from collections import deque

from . import ex, cfg


# ---------------------------------------------------------------- patterns
def expand_locals(fn, n, depth=0, _cache=None):
    """Resolve single-definition locals to their defining expression (view only)."""
    n = ex.strip(n)
    if n is None or depth > 3:
        return n
    if n.get("k") == "var" and n.get("s") == "l":
        d = single_def(fn, n.get("id"))
        if d is not None:
            return expand_locals(fn, d, depth + 1)
    return n


def single_def(fn, vid):
    cache = getattr(fn, "_sdef", None)
    if cache is None:
        cache = {}
        counts = {}
        for b, i, e in fn.iter_elems():
            for (l, r, op, node) in ex.writes(e):
                ls = ex.strip(l)
                if ls is not None and ls.get("k") == "var" and ls.get("s") == "l":
                    counts.setdefault(ls.get("id"), []).append((op, r))
            for x in ex.walk(e, into_refs=False):
                if x.get("k") == "un" and x["op"] == "&":
                    t = ex.strip(x["e"])
                    if t is not None and t.get("k") == "var":
                        counts.setdefault(t.get("id"), []).append(("&", None))
        for vid_, ws in counts.items():
            if len(ws) == 1 and ws[0][0] == "=" and ws[0][1] is not None:
                cache[vid_] = ws[0][1]
        fn._sdef = cache
    return cache.get(vid)


def pat_match(fn, n, pat):
    """Does expression n (after local expansion) contain a node matching pat?

    pat: 'call:NAME' 'field:NAME' 'var:NAME' 'idx:NAME' (index into NAME / field NAME)
         'const:N' 'enum:NAME' 'deref:NAME' 'any'; alternatives with '|';
         conjunction with '&' (all parts must be contained)."""
    if pat == "any":
        return True
    if "&" in pat:
        return all(pat_match(fn, n, p) for p in pat.split("&"))
    if "|" in pat:
        return any(pat_match(fn, n, p) for p in pat.split("|"))
    kind, _, name = pat.partition(":")
    seen = set()
    noexpand = kind.startswith("d_")       # d_field:, d_var: ... = no expansion of locals
    if noexpand:
        kind = kind[2:]

    def nodes(x, depth=0):
        for y in ex.walk(x):
            yield y
            if noexpand:
                continue
            if y.get("k") == "var" and y.get("s") == "l" and depth < 3:
                d = single_def(fn, y.get("id"))
                if d is not None and id(d) not in seen:
                    seen.add(id(d))
                    for z in nodes(d, depth + 1):
                        yield z

    for x in nodes(n):
        k = x.get("k")
        if kind == "call" and k == "call" and x.get("fn") == name:
            return True
        if kind == "field" and k == "mem" and x["f"] == name:
            return True
        if kind == "var" and k == "var" and x["n"] == name:
            return True
        if kind == "enum" and k == "enum" and x["n"] == name:
            return True
        if kind == "const" and k in ("const", "enum") and str(x["v"]) == name:
            return True
        if kind == "idx" and k == "idx":
            b = ex.strip(x["b"])
            if b is not None and ((b.get("k") == "var" and b["n"] == name) or
                                  (b.get("k") == "mem" and b["f"] == name)):
                return True
        if kind == "deref" and k == "un" and x["op"] == "*":
            b = ex.strip(x["e"])
            if b is not None and b.get("k") == "var" and b["n"] == name:
                return True
    return False


class Guard:
    """A branch that discharges an obligation."""

    def __init__(self, bid, pass_label, line, text):
        self.bid = bid
        self.pass_label = pass_label      # 'T' or 'F'
        self.line = line
        self.text = text

    @property
    def fail_label(self):
        return "F" if self.pass_label == "T" else "T"


def _branch_blocks(fn):
    for b in fn.blocks.values():
        t = b.term
        if t and "cond" in t and t["kind"] != "SwitchStmt" and len(b.succs) == 2:
            yield b


def _norm_cond(c):
    """Strip negations: return (expr, negated)."""
    neg = False
    c = ex.strip(c)
    while c is not None and c.get("k") == "un" and c["op"] == "!":
        neg = not neg
        c = ex.strip(c["e"])
    return c, neg


def find_cmp(fn, a, b, ops=("==", "!="), rel_pass=None):
    """Branches whose condition compares something matching `a` with something
    matching `b`.  For equality ops the passing edge is the one on which the two
    sides are equal.  For relational ops `rel_pass` gives the passing truth
    ('T'/'F') explicitly.
    Also recognises memcmp(x, y, n) [!= 0] with x~a, y~b."""
    out = []
    for blk in _branch_blocks(fn):
        c, neg = _norm_cond(blk.term["cond"])
        if c is None:
            continue
        # memcmp form
        mc = None
        if c.get("k") == "call" and c.get("fn") == "memcmp":
            mc, eq_when_true = c, False          # truthy => differ
        elif c.get("k") == "bin" and c["op"] in ("==", "!="):
            l, r = ex.strip(c["l"]), ex.strip(c["r"])
            if l.get("k") == "call" and l.get("fn") == "memcmp" and ex.is_const(r, 0):
                mc, eq_when_true = l, (c["op"] == "==")
            elif r.get("k") == "call" and r.get("fn") == "memcmp" and ex.is_const(l, 0):
                mc, eq_when_true = r, (c["op"] == "==")
        if mc is not None and ("==" in ops or "!=" in ops):
            x, y = mc["args"][0], mc["args"][1]
            if (pat_match(fn, x, a) and pat_match(fn, y, b)) or \
               (pat_match(fn, x, b) and pat_match(fn, y, a)):
                eq_true = eq_when_true != neg
                out.append(Guard(blk.id, "T" if eq_true else "F", blk.term["ln"], ex.show(c)))
            continue
        if c.get("k") != "bin" or c["op"] not in ops:
            continue
        l, r = c["l"], c["r"]
        fwd = pat_match(fn, l, a) and pat_match(fn, r, b)
        rev = pat_match(fn, l, b) and pat_match(fn, r, a)
        if not (fwd or rev):
            continue
        op = c["op"]
        if op in ("==", "!=") and rel_pass is None:
            eq_true = (op == "==") != neg
            out.append(Guard(blk.id, "T" if eq_true else "F", blk.term["ln"], ex.show(c)))
        else:
            if rel_pass is None:
                continue
            # rel_pass is given for the orientation a OP b
            p = rel_pass
            if rev and not fwd:
                # condition is written b OP' a; caller supplies ops accordingly
                pass
            if neg:
                p = "F" if p == "T" else "T"
            out.append(Guard(blk.id, p, blk.term["ln"], ex.show(c)))
    return out


def find_test(fn, pat, pass_label, ops=None):
    """Branches whose condition contains `pat`; passing edge given explicitly
    (relative to the condition as written without leading negations)."""
    out = []
    for blk in _branch_blocks(fn):
        c, neg = _norm_cond(blk.term["cond"])
        if c is None:
            continue
        if ops is not None:
            if c.get("k") != "bin" or c["op"] not in ops:
                continue
        if pat_match(fn, c, pat):
            p = pass_label
            if neg:
                p = "F" if p == "T" else "T"
            out.append(Guard(blk.id, p, blk.term["ln"], ex.show(c)))
    return out


def find_res(fn, callname, pass_codes, prog):
    """Branches that test the result of a call to `callname`:
       v = call(...); if (v != PASS) return ...;   (also return_if_error)
       if (call(...) != PASS) / if (call(...)) for boolean "true = error" helpers.
    pass_codes: enumerator names meaning success (e.g. LZMA_OK / LZMA_STREAM_END)
                or the string 'false' for boolean helpers returning true on error."""
    out = []
    sites = 0
    def is_target(c):
        return c is not None and c.get("k") == "call" and (
            c.get("fn") == callname or
            (callname.startswith("slot:") and _is_slot_call(c, callname[5:])))

    for b, i, e in fn.iter_elems():
        # variable receiving the result
        var = None
        for (l, r, op, node) in ex.writes(e):
            if r is not None and op == "=" and is_target(ex.strip(r)):
                ls = ex.strip(l)
                if ls is not None and ls.get("k") == "var":
                    var = ls["n"]
        if var is None:
            continue
        sites += 1
        # forward search for the first test of `var`
        seen = set()
        dq = deque([(b.id, i + 1)])
        while dq:
            bid, start = dq.popleft()
            if (bid, start > 0) in seen:
                continue
            seen.add((bid, start > 0))
            blk = fn.blocks[bid]
            killed = False
            for j in range(start, len(blk.elems)):
                ee = blk.elems[j]
                if ee is None:
                    continue
                for (l, r, op, node) in ex.writes(ee):
                    ls = ex.strip(l)
                    if ls is not None and ls.get("k") == "var" and ls["n"] == var:
                        killed = True
                if killed:
                    break
            if killed:
                continue
            t = blk.term
            if t and "cond" in t and len(blk.succs) == 2 and t["kind"] != "SwitchStmt":
                c, neg = _norm_cond(t["cond"])
                if c is not None and c.get("k") == "bin" and c["op"] in ("==", "!="):
                    l, r = ex.strip(c["l"]), ex.strip(c["r"])
                    other = None
                    if l.get("k") == "var" and l["n"] == var:
                        other = r
                    elif r.get("k") == "var" and r["n"] == var:
                        other = l
                    if other is not None and other.get("k") == "enum" and other["n"] in pass_codes:
                        eq_true = (c["op"] == "==") != neg
                        out.append(Guard(blk.id, "T" if eq_true else "F", t["ln"],
                                         "%s = %s(...); %s" % (var, callname, ex.show(c))))
                        continue
                    if other is not None and other.get("k") == "enum":
                        # test against some other code: keep searching on both edges
                        pass
            for s in cfg.succs(fn, bid):
                dq.append((s, 0))
    # direct forms
    for blk in _branch_blocks(fn):
        c, neg = _norm_cond(blk.term["cond"])
        if c is None:
            continue
        if c.get("k") == "call" and (c.get("fn") == callname) and "false" in pass_codes:
            out.append(Guard(blk.id, "T" if neg else "F", blk.term["ln"], ex.show(c)))
        elif c.get("k") == "bin" and c["op"] in ("==", "!="):
            l, r = ex.strip(c["l"]), ex.strip(c["r"])
            for x, y in ((l, r), (r, l)):
                if x.get("k") == "call" and x.get("fn") == callname and y.get("k") == "enum" \
                        and y["n"] in pass_codes:
                    eq_true = (c["op"] == "==") != neg
                    out.append(Guard(blk.id, "T" if eq_true else "F", blk.term["ln"], ex.show(c)))
    return out, sites


def _is_slot_call(c, field):
    cal = ex.strip(c.get("callee"))
    if cal is not None and cal.get("k") == "un" and cal["op"] == "*":
        cal = ex.strip(cal["e"])
    fk = ex.field_key(cal)
    return fk is not None and fk[1] == field


# ---------------------------------------------------------------- cut check
def cut_reach(g, src_nodes, cut_edges, dst_pred, cut_blocks=(), follow_resume=True):
    """Search the product graph from src_nodes without traversing cut edges
    ((block id, label) pairs) or expanding cut blocks; return a witness path to
    the first node for which dst_pred(node, block) holds, else None."""
    cut_edges = set(cut_edges)
    cut_blocks = set(cut_blocks)
    parent = {}
    dq = deque()
    for n in src_nodes:
        if n in g.nodes and n not in parent:
            parent[n] = None
            dq.append(n)
    while dq:
        n = dq.popleft()
        bid = n[0]
        hit = dst_pred(n)
        if hit:
            path = [n]
            while parent[path[-1]] is not None:
                path.append(parent[path[-1]][0])
            path.reverse()
            return path, hit
        if bid in cut_blocks:
            continue
        for (dst, label) in g.succ.get(n, ()):
            if label == "resume" and not follow_resume:
                continue
            if (bid, label) in cut_edges:
                continue
            if dst not in parent:
                parent[dst] = (n, label)
                dq.append(dst)
    return None, None


def returns_after(g, node, label):
    """Value sets of '$ret' at exit nodes reachable from taking edge `label` out of
    `node` (no resume edges)."""
    out = []
    seen = set()
    dq = deque(d for (d, l) in g.succ.get(node, ()) if l == label)
    while dq:
        n = dq.popleft()
        if n in seen:
            continue
        seen.add(n)
        if n[0] == g.fn.exit:
            out.append(n)
            continue
        for (d, l) in g.succ.get(n, ()):
            if l != "resume":
                dq.append(d)
    return out
