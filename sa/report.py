"""Obligation bookkeeping, evidence files, VIOLATION / KNOWN-FINDING output."""
import json, os, re, sys, time

from .compdb import AnalysisBroken
from .facts import relpath

VERIF = os.path.dirname(os.path.dirname(os.path.abspath(__file__)))
EVDIR = os.environ.get("VERIF_EVIDENCE_DIR") or os.path.join(VERIF, "evidence")

TRUSTED_BASE = [
    "clang 14 front end and clang::CFG builder (parse of /repo with the real build's -D/-I flags)",
    "tools/xzfacts.cc (fact extractor)",
    "sa/*.py engines and the frozen instance tables in rules/*.py",
    "spec/*.py transcriptions of the format documents / standards",
]

COMMON_ASSUMPTIONS = [
    "the compile database of /repo/_build (or a fresh cmake configure) describes the shipped build",
    "type-based aliasing: two access paths alias iff they name the same (record, field)",
    "indirect calls resolve through function-pointer slots (every function ever assigned to the same record field)",
    "no code of /repo is executed; the verdict is a necessary-condition check of the named clauses only",
]


class Check:
    def __init__(self, pid, tier="quick"):
        self.pid = pid
        self.tier = tier
        self.t0 = time.time()
        self.obls = []          # dicts
        self.rules = {}         # rule -> {instances:set, obligations:int, discharged:int, text}
        self.units = 0
        self.functions = set()
        self.configs = []
        self.explanation = ""
        self.not_decided = ""
        self.exhaustive = None
        self.extra = {}
        self.notes = []
        self.skipped = []
        self.known = self._load_known()
        self.seed = int(os.environ.get("VERIF_SEED", "0") or 0)

    def _load_known(self):
        p = os.path.join(VERIF, "known_findings.json")
        try:
            with open(p) as fh:
                d = json.load(fh)
        except FileNotFoundError:
            return []
        return [e for e in d.get("findings", []) if e.get("property") == self.pid]

    # ------------------------------------------------------------------
    def rule(self, rid, text):
        self.rules.setdefault(rid, {"instances": set(), "obligations": 0,
                                    "discharged": 0, "text": text})

    def use_program(self, prog):
        if not hasattr(self, "progs"):
            self.progs = []
        if prog not in self.progs:
            self.progs.append(prog)
        self.units += getattr(prog, "n_units", 0)
        if prog.config not in self.configs:
            self.configs.append(prog.config)

    def saw_function(self, f):
        self.functions.add((f.name, relpath(f.file)))

    def ob(self, rule, instance, ok, where="", msg="", key=None, detail=None):
        """Record one obligation. `key` is the line-free identity."""
        if rule not in self.rules:
            self.rule(rule, "")
        r = self.rules[rule]
        r["instances"].add(instance)
        r["obligations"] += 1
        if ok:
            r["discharged"] += 1
        k = key or "%s:%s" % (rule, instance)
        if self.configs and self.configs[-1] != "default" and getattr(self, "cur_config", "default") != "default":
            pass
        o = {"rule": rule, "instance": instance, "ok": bool(ok), "where": where,
             "msg": msg, "key": k, "config": getattr(self, "cur_config", "default")}
        if detail:
            o["detail"] = detail
        self.obls.append(o)
        return ok

    def floor(self, rule, n, what="instances"):
        r = self.rules.get(rule)
        have = 0
        if r:
            have = len(r["instances"]) if what == "instances" else r["obligations"]
        if have < n:
            raise AnalysisBroken(
                "rule %s matched %d %s, below the hand-confirmed floor %d "
                "(anchors moved or extractor lost them)" % (rule, have, what, n))

    def skip(self, what):
        self.skipped.append(what)

    def note(self, s):
        self.notes.append(s)

    # ------------------------------------------------------------------
    def _unknown_helper(self, where):
        """The rules are intraprocedural.  If the function that contains a reported site is itself unknown to the snapshot of
        function names the rules were written against (rules/known_functions.json), or calls a function of its own file that
        is, the rule cannot tell a deleted construct from one that was moved into the new helper: the report is downgraded
        to "undecided" (exit 2), never shown as a violation.  Returns the helper's name or None."""
        try:
            snap = json.load(open(os.path.join(VERIF, "rules", "known_functions.json")))
        except (OSError, ValueError):
            return None
        m = re.match(r"(\S+?):(\d+)$", where or "")
        if not m:
            return None
        file, line = m.group(1), int(m.group(2))
        known = set(snap.get(file, ()))
        if not known:
            return None
        encl, local = None, {}
        for prog in getattr(self, "progs", []):
            for fs in prog.functions.values():
                for f in fs:
                    if f.blocks and relpath(f.file) == file:
                        local[f.name] = f
                        if f.line <= line <= max(f.endline, f.line):
                            encl = f
        if encl is None:
            return None
        if encl.name not in known:
            return encl.name
        from . import ex as _ex
        for b, i, e in encl.iter_elems():
            for c in _ex.calls(e, into_refs=False):
                nm = c.get("fn")
                if nm and nm in local and nm not in known:
                    return nm
        return None

    def finish(self):
        viol = [o for o in self.obls if not o["ok"]]
        undecided = []
        kept = []
        for o in viol:
            h = self._unknown_helper(o.get("where"))
            if h is not None:
                undecided.append((o, h))
            else:
                kept.append(o)
        viol = kept
        known_keys = {e["key"]: e for e in self.known if e.get("status") == "known"}
        reported = []
        seen = set()
        vdir = os.path.join(EVDIR, "violations")
        new = 0
        for o in viol:
            ident = (o["key"], o["config"])
            if ident in seen:
                continue
            seen.add(ident)
            if o["key"] in known_keys:
                print("KNOWN-FINDING: property=%s %s (%s: %s)" % (
                    self.pid, o["key"], o["where"], o["msg"]))
                continue
            new += 1
            os.makedirs(vdir, exist_ok=True)
            path = os.path.join(vdir, "%s-%d.json" % (self.pid, new))
            rep = {"property": self.pid, "rule": o["rule"], "instance": o["instance"],
                   "key": o["key"], "config": o["config"], "where": o["where"],
                   "message": o["msg"], "detail": o.get("detail")}
            with open(path, "w") as fh:
                json.dump(rep, fh, indent=1)
            print("%s: [%s/%s] %s" % (o["where"], o["rule"], o["instance"], o["msg"]))
            print("VIOLATION property=%s replay=%s" % (self.pid, path))
            reported.append(o)
        n_ob = len(self.obls)
        n_ok = sum(1 for o in self.obls if o["ok"])
        distinct = len({(o["rule"], o["instance"]) for o in self.obls})
        samples = []
        per_rule_seen = {}
        for o in self.obls:
            c = per_rule_seen.get(o["rule"], 0)
            if c < 3:
                per_rule_seen[o["rule"]] = c + 1
                samples.append({"rule": o["rule"], "instance": o["instance"],
                                "where": o["where"], "verdict": "discharged" if o["ok"] else "VIOLATED",
                                "what": o["msg"]})
        for o in viol:
            samples.append({"rule": o["rule"], "instance": o["instance"], "where": o["where"],
                            "verdict": "VIOLATED", "what": o["msg"], "key": o["key"]})
        cov = {
            "explanation": self.explanation + (" NOT DECIDED: " + self.not_decided if self.not_decided else ""),
            "obligations": n_ob,
            "discharged": n_ok,
            "evaluations": n_ob,
            "distinct_nontrivial": distinct,
            "rule": "one obligation = (frozen rule instance x code site/exit) evaluated on the CFG/AST facts of the current tree; "
                    "distinct_nontrivial counts distinct (rule, instance) pairs that matched at least one site",
            "samples": samples[:60],
            "rules": {k: {"text": v["text"], "instances": len(v["instances"]),
                          "obligations": v["obligations"], "discharged": v["discharged"]}
                      for k, v in sorted(self.rules.items())},
            "units": self.units,
            "functions": len(self.functions),
            "configs": self.configs,
            "checker_cmd": "bin/check %s --tier %s" % (self.pid, self.tier),
            "trusted_base": TRUSTED_BASE,
            "known_findings_listed": sorted(known_keys),
            "skipped": self.skipped,
            "notes": self.notes,
        }
        if self.exhaustive is not None:
            cov["exhaustive"] = self.exhaustive
        cov.update(self.extra)
        ev = {
            "property_id": self.pid,
            "tier": self.tier,
            "seed": self.seed,
            "level": "other",
            "coverage": cov,
            "assumptions": COMMON_ASSUMPTIONS,
            "wall_s": round(time.time() - self.t0, 2),
            "violations": len(reported),
        }
        os.makedirs(EVDIR, exist_ok=True)
        with open(os.path.join(EVDIR, "%s.json" % self.pid), "w") as fh:
            json.dump(ev, fh, indent=1)
        print("%s %s: %d obligations, %d discharged, %d rule instances, %d units, %d functions, %.1fs" % (
            self.pid, self.tier, n_ob, n_ok, distinct, self.units, len(self.functions),
            time.time() - self.t0))
        for rid, r in sorted(self.rules.items()):
            print("  %-14s instances=%-3d obligations=%-4d discharged=%d" % (
                rid, len(r["instances"]), r["obligations"], r["discharged"]))
        if undecided and not reported:
            seen_u = set()
            for o, h in undecided:
                if (o["key"], h) in seen_u:
                    continue
                seen_u.add((o["key"], h))
                print("UNDECIDED property=%s %s (%s): the function now calls/is `%s`, which did not exist when the rule was "
                      "written; the rule is intraprocedural and cannot tell a removed construct from one moved there" % (
                          self.pid, o["key"], o["where"], h))
            print("ANALYSIS-BROKEN property=%s: %d report(s) undecided because of unknown helper function(s) %s "
                  "(update the rule, or rules/known_functions.json once the helper is understood)" % (
                      self.pid, len(seen_u), sorted({h for o, h in undecided})))
            return 2
        return 1 if reported else 0
