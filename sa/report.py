"""Obligation bookkeeping, evidence files, VIOLATION / KNOWN-FINDING output."""
import json, os, sys, time

from .compdb import AnalysisBroken
from .facts import relpath

VERIF = os.path.dirname(os.path.dirname(os.path.abspath(__file__)))
EVDIR = os.environ.get("VERIF_EVIDENCE_DIR") or os.path.join(VERIF, "evidence")

TRUSTED_BASE = [
    "clang 14 front end and clang::CFG builder (parse of /repo with the real build's -D/-I flags)",
    "tools/xzfacts.cc (fact extractor)",
    "sa/*.py engines and the frozen instance tables in rules/*.py",
    "spec/*.py transcriptions of the format documents / standards",
]

COMMON_ASSUMPTIONS = [
    "the compile database of /repo/_build (or a fresh cmake configure) describes the shipped build",
    "type-based aliasing: two access paths alias iff they name the same (record, field)",
    "indirect calls resolve through function-pointer slots (every function ever assigned to the same record field)",
    "no code of /repo is executed; the verdict is a necessary-condition check of the named clauses only",
]


class Check:
    def __init__(self, pid, tier="quick"):
        self.pid = pid
        self.tier = tier
        self.t0 = time.time()
        self.obls = []          # dicts
        self.rules = {}         # rule -> {instances:set, obligations:int, discharged:int, text}
        self.units = 0
        self.functions = set()
        self.configs = []
        self.explanation = ""
        self.not_decided = ""
        self.exhaustive = None
        self.extra = {}
        self.notes = []
        self.skipped = []
        self.known = self._load_known()
        self.seed = int(os.environ.get("VERIF_SEED", "0") or 0)

    def _load_known(self):
        p = os.path.join(VERIF, "known_findings.json")
        try:
            with open(p) as fh:
                d = json.load(fh)
        except FileNotFoundError:
            return []
        return [e for e in d.get("findings", []) if e.get("property") == self.pid]

    # ------------------------------------------------------------------
    def rule(self, rid, text):
        self.rules.setdefault(rid, {"instances": set(), "obligations": 0,
                                    "discharged": 0, "text": text})

    def use_program(self, prog):
        self.units += getattr(prog, "n_units", 0)
        if prog.config not in self.configs:
            self.configs.append(prog.config)

    def saw_function(self, f):
        self.functions.add((f.name, relpath(f.file)))

    def ob(self, rule, instance, ok, where="", msg="", key=None, detail=None):
        """Record one obligation. `key` is the line-free identity."""
        if rule not in self.rules:
            self.rule(rule, "")
        r = self.rules[rule]
        r["instances"].add(instance)
        r["obligations"] += 1
        if ok:
            r["discharged"] += 1
        k = key or "%s:%s" % (rule, instance)
        if self.configs and self.configs[-1] != "default" and getattr(self, "cur_config", "default") != "default":
            pass
        o = {"rule": rule, "instance": instance, "ok": bool(ok), "where": where,
             "msg": msg, "key": k, "config": getattr(self, "cur_config", "default")}
        if detail:
            o["detail"] = detail
        self.obls.append(o)
        return ok

    def floor(self, rule, n, what="instances"):
        r = self.rules.get(rule)
        have = 0
        if r:
            have = len(r["instances"]) if what == "instances" else r["obligations"]
        if have < n:
            raise AnalysisBroken(
                "rule %s matched %d %s, below the hand-confirmed floor %d "
                "(anchors moved or extractor lost them)" % (rule, have, what, n))

    def skip(self, what):
        self.skipped.append(what)

    def note(self, s):
        self.notes.append(s)

    # ------------------------------------------------------------------
    def finish(self):
        viol = [o for o in self.obls if not o["ok"]]
        known_keys = {e["key"]: e for e in self.known if e.get("status") == "known"}
        reported = []
        seen = set()
        vdir = os.path.join(EVDIR, "violations")
        new = 0
        for o in viol:
            ident = (o["key"], o["config"])
            if ident in seen:
                continue
            seen.add(ident)
            if o["key"] in known_keys:
                print("KNOWN-FINDING: property=%s %s (%s: %s)" % (
                    self.pid, o["key"], o["where"], o["msg"]))
                continue
            new += 1
            os.makedirs(vdir, exist_ok=True)
            path = os.path.join(vdir, "%s-%d.json" % (self.pid, new))
            rep = {"property": self.pid, "rule": o["rule"], "instance": o["instance"],
                   "key": o["key"], "config": o["config"], "where": o["where"],
                   "message": o["msg"], "detail": o.get("detail")}
            with open(path, "w") as fh:
                json.dump(rep, fh, indent=1)
            print("%s: [%s/%s] %s" % (o["where"], o["rule"], o["instance"], o["msg"]))
            print("VIOLATION property=%s replay=%s" % (self.pid, path))
            reported.append(o)
        n_ob = len(self.obls)
        n_ok = sum(1 for o in self.obls if o["ok"])
        distinct = len({(o["rule"], o["instance"]) for o in self.obls})
        samples = []
        per_rule_seen = {}
        for o in self.obls:
            c = per_rule_seen.get(o["rule"], 0)
            if c < 3:
                per_rule_seen[o["rule"]] = c + 1
                samples.append({"rule": o["rule"], "instance": o["instance"],
                                "where": o["where"], "verdict": "discharged" if o["ok"] else "VIOLATED",
                                "what": o["msg"]})
        for o in viol:
            samples.append({"rule": o["rule"], "instance": o["instance"], "where": o["where"],
                            "verdict": "VIOLATED", "what": o["msg"], "key": o["key"]})
        cov = {
            "explanation": self.explanation + (" NOT DECIDED: " + self.not_decided if self.not_decided else ""),
            "obligations": n_ob,
            "discharged": n_ok,
            "evaluations": n_ob,
            "distinct_nontrivial": distinct,
            "rule": "one obligation = (frozen rule instance x code site/exit) evaluated on the CFG/AST facts of the current tree; "
                    "distinct_nontrivial counts distinct (rule, instance) pairs that matched at least one site",
            "samples": samples[:60],
            "rules": {k: {"text": v["text"], "instances": len(v["instances"]),
                          "obligations": v["obligations"], "discharged": v["discharged"]}
                      for k, v in sorted(self.rules.items())},
            "units": self.units,
            "functions": len(self.functions),
            "configs": self.configs,
            "checker_cmd": "bin/check %s --tier %s" % (self.pid, self.tier),
            "trusted_base": TRUSTED_BASE,
            "known_findings_listed": sorted(known_keys),
            "skipped": self.skipped,
            "notes": self.notes,
        }
        if self.exhaustive is not None:
            cov["exhaustive"] = self.exhaustive
        cov.update(self.extra)
        ev = {
            "property_id": self.pid,
            "tier": self.tier,
            "seed": self.seed,
            "level": "other",
            "coverage": cov,
            "assumptions": COMMON_ASSUMPTIONS,
            "wall_s": round(time.time() - self.t0, 2),
            "violations": len(reported),
        }
        os.makedirs(EVDIR, exist_ok=True)
        with open(os.path.join(EVDIR, "%s.json" % self.pid), "w") as fh:
            json.dump(ev, fh, indent=1)
        print("%s %s: %d obligations, %d discharged, %d rule instances, %d units, %d functions, %.1fs" % (
            self.pid, self.tier, n_ob, n_ok, distinct, self.units, len(self.functions),
            time.time() - self.t0))
        for rid, r in sorted(self.rules.items()):
            print("  %-14s instances=%-3d obligations=%-4d discharged=%d" % (
                rid, len(r["instances"]), r["obligations"], r["discharged"]))
        return 1 if reported else 0
