"""E-LOCK: must-lockset dataflow on the E-FD product graph (the mythread_sync macro's
loop variables are tracked as finite-domain keys, which makes the lock region exact),
protected-field accesses, lock order, wait loops, signal-after-write."""
from collections import deque

from . import ex, fd, cfg
from .compdb import AnalysisBroken

LOCK = "mythread_mutex_lock"
UNLOCK = "mythread_mutex_unlock"
WAITS = ("mythread_cond_wait", "mythread_cond_timedwait")
SIGNAL = "mythread_cond_signal"


class LockGraph:
    def __init__(self, prog, fn, cg, role_of, entry_held=(), extra_keys=(), inits=None):
        """role_of(mutex lvalue expression) -> role string or None.
        inits: list of {label: values} dicts for the initial states (default: one TOP state)."""
        self.prog, self.fn, self.role_of = prog, fn, role_of
        names = sorted({v["n"] for v in fn.vars
                        if v["n"].startswith("mythread_i_") or v["n"].startswith("mythread_j_")})
        keys = list(extra_keys) + [fd.Key("var", n, domain=(0, 1), label=n) for n in names]
        if any(v["n"] == "ret" and "lzma_ret" in v["ty"] for v in fn.vars):
            keys.append(fd.Key("var", "ret", domain=prog.enum("lzma_ret").values(), label="ret"))
        self.g = fd.FD(prog, fn, keys, cg=cg)
        if inits:
            sts = []
            for d in inits:
                st = self.g.top_state()
                for lab, vals in d.items():
                    st = self.g.state_with(st, lab, vals)
                sts.append(st)
        else:
            sts = [self.g.top_state()]
        self.g.run(sts)
        self.entry_held = frozenset(entry_held)
        self.order = []       # (held role, acquired role, line)
        self._solve()

    def _mutex_arg(self, c, idx=0):
        if len(c["args"]) <= idx:
            return None
        a = ex.strip(c["args"][idx])
        if a is not None and a.get("k") == "un" and a["op"] == "&":
            return self.role_of(a["e"])
        return self.role_of(a)

    def elem_transfer(self, e, held, record=False):
        held = set(held)
        if e is None:
            return held
        for c in ex.calls(e, into_refs=False):
            nm = c.get("fn")
            if nm == LOCK:
                r = self._mutex_arg(c)
                if r:
                    if record:
                        for h in held:
                            self.order.append((h, r, ex.line(c)))
                    held.add(r)
            elif nm == UNLOCK:
                r = self._mutex_arg(c)
                if r:
                    held.discard(r)
        return held

    def _solve(self):
        g = self.g
        TOP = None
        self.in_ = {n: TOP for n in g.nodes}
        for n in g.nodes:
            if n[0] == self.fn.entry:
                self.in_[n] = self.entry_held
        work = deque(n for n in g.nodes if n[0] == self.fn.entry)
        inq = set(work)
        self.out_ = {}
        while work:
            n = work.popleft()
            inq.discard(n)
            held = self.in_[n]
            if held is None:
                continue
            cur = set(held)
            for e in self.fn.blocks[n[0]].elems:
                cur = self.elem_transfer(e, cur)
            cur = frozenset(cur)
            self.out_[n] = cur
            for (d, label) in g.succ.get(n, ()):
                old = self.in_.get(d)
                new = cur if old is None else (old & cur)
                if new != old:
                    self.in_[d] = new
                    if d not in inq:
                        inq.add(d)
                        work.append(d)
        # lock order (recorded once the fixpoint is known)
        for n in g.nodes:
            held = self.in_.get(n)
            if held is None:
                continue
            cur = set(held)
            for e in self.fn.blocks[n[0]].elems:
                cur = self.elem_transfer(e, cur, record=True)

    def sites(self):
        """Yield (block, idx, elem, held set before elem) for every reachable element,
        held = intersection over the product nodes of that block."""
        per_block = {}
        for n in self.g.nodes:
            held = self.in_.get(n)
            if held is None:
                continue
            per_block.setdefault(n[0], []).append(held)
        for bid, helds in per_block.items():
            blk = self.fn.blocks[bid]
            curs = [set(h) for h in helds]
            for i, e in enumerate(blk.elems):
                if e is not None:
                    inter = set.intersection(*curs) if curs else set()
                    yield blk, i, e, frozenset(inter)
                curs = [self.elem_transfer(e, c) for c in curs]
            if blk.term and "cond" in blk.term:
                inter = set.intersection(*curs) if curs else set()
                yield blk, len(blk.elems), blk.term["cond"], frozenset(inter)

    def node_sites(self):
        """Yield (node, block, idx, elem, held before elem) per product node."""
        for n in self.g.nodes:
            held = self.in_.get(n)
            if held is None:
                continue
            blk = self.fn.blocks[n[0]]
            cur = set(held)
            for i, e in enumerate(blk.elems):
                if e is not None:
                    yield n, blk, i, e, frozenset(cur)
                cur = self.elem_transfer(e, cur)
            if blk.term and "cond" in blk.term:
                yield n, blk, len(blk.elems), blk.term["cond"], frozenset(cur)

    def exit_held(self):
        out = []
        for n in self.g.nodes:
            if n[0] == self.fn.exit and self.in_.get(n) is not None:
                out.append(self.in_[n])
        return out


def accesses(e):
    """Yield (mem node, is_write, is_rmw) for field accesses in element e (own nodes only)."""
    wr = {}
    for (l, r, op, node) in ex.writes(e):
        ls = ex.strip(l)
        # strip array indexing on the written lvalue
        while ls is not None and ls.get("k") == "idx":
            ls = ex.strip(ls["b"])
        if ls is not None and ls.get("k") == "mem":
            wr[id(ls)] = op
    for x in ex.walk(e, into_refs=False):
        if x.get("k") == "mem":
            op = wr.get(id(x))
            if op is None:
                yield x, False, False
            else:
                yield x, True, op != "="


def wait_sites(fn):
    """[(block, idx, call, cond role arg, mutex role arg)]"""
    out = []
    for b, i, e in fn.iter_elems():
        for c in ex.calls(e, into_refs=False):
            if c.get("fn") in WAITS:
                out.append((b, i, c))
    return out


def in_loop(fn, bid):
    """Is block bid on a CFG cycle?"""
    return bid in cfg.reachable(fn, cfg.succs(fn, bid))
