"""E-CALLGRAPH: resolved callees (direct + function-pointer slots), effect summaries."""
from . import ex


# Records that are accessed through a common-prefix base record (checked by C04-CAST: the
# derived records begin with exactly the fields of the base).
SLOT_FAMILY = {"lzma_filter_decoder": "lzma_filter_coder", "lzma_filter_encoder": "lzma_filter_coder"}


class CallGraph:
    def __init__(self, prog, target=None):
        self.prog = prog
        self.fns = [f for f in prog.all_functions()
                    if target is None or f.target == target]
        self.by_name = {}
        for f in self.fns:
            self.by_name.setdefault(f.name, []).append(f)
        self.slots = {}        # (rec, field) -> set(function names)
        self.argfns = {}       # (callee name, arg index) -> set(function names)
        self.direct = {}       # fn key -> set(callee names)
        self.indirect = {}     # fn key -> set((rec, field)) slot calls
        self.fieldw = {}       # fn key -> set((rec, field)) direct writes
        self.copies = set()    # (dst fk, src fk) function-pointer field copies
        self._collect()
        self._propagate_slots()
        self._closure()

    # ------------------------------------------------------------------
    def _fnref(self, n):
        n = ex.strip(n)
        if n is None:
            return None
        if n.get("k") == "un" and n["op"] == "&":
            n = ex.strip(n["e"])
        if n is not None and n.get("k") == "var" and n.get("s") == "f":
            return n["n"]
        return None

    def _collect_init(self, n, recname=None):
        """Function references inside initialiser lists -> slots by field name."""
        n = ex.strip(n)
        if n is None:
            return
        if n.get("k") == "cl":
            self._collect_init(n["e"])
            return
        if n.get("k") == "init":
            fields = n.get("fields")
            rec = n.get("rec") or self._ty_rec(n.get("ty", ""))
            for i, e in enumerate(n["e"]):
                fr = self._fnref(e)
                if fr and fields and i < len(fields):
                    self.slots.setdefault((rec, fields[i]), set()).add(fr)
                    self.slots.setdefault(("*", fields[i]), set()).add(fr)
                    fam = SLOT_FAMILY.get(rec.split("@")[0])
                    if fam:
                        self.slots.setdefault((fam, fields[i]), set()).add(fr)
                else:
                    self._collect_init(e)

    def _ty_rec(self, ty):
        t = ty.replace("const ", "").replace("struct ", "").strip()
        return t

    def _collect(self):
        for g in self.prog.globals.values():
            for d in g:
                if d.get("init") is not None:
                    self._collect_init(d["init"])
        for f in self.fns:
            d = set()
            ind = set()
            fw = set()
            for b, i, e in f.iter_elems():
                for x in ex.walk(e, into_refs=False):
                    k = x.get("k")
                    if k == "call":
                        if x.get("fn"):
                            d.add(x["fn"])
                            for ai, a in enumerate(x["args"]):
                                fr = self._fnref(a)
                                if fr:
                                    self.argfns.setdefault((x["fn"], ai), set()).add(fr)
                        else:
                            c = ex.strip(x["callee"])
                            if c is not None and c.get("k") == "un" and c["op"] == "*":
                                c = ex.strip(c["e"])
                            fk = ex.field_key(c)
                            if fk:
                                ind.add(fk)
                            elif c is not None and c.get("k") == "var":
                                ind.add(("param", f.name, c["n"]))
                    elif k == "asg":
                        fk = ex.field_key(x["l"])
                        if fk:
                            fw.add(fk)
                            fr = self._fnref(x["r"])
                            if fr:
                                self.slots.setdefault(fk, set()).add(fr)
                                self.slots.setdefault(("*", fk[1]), set()).add(fr)
                            else:
                                sk = ex.field_key(x["r"])
                                if sk:
                                    self.copies.add((fk, sk))
                        else:
                            l = ex.strip(x["l"])
                            if l is not None and l.get("k") == "idx":
                                fk2 = ex.field_key(l["b"])
                                if fk2:
                                    fw.add(fk2)
                    elif k == "un" and x["op"] in ex.ASSIGN_UN:
                        fk = ex.field_key(x["e"])
                        if fk:
                            fw.add(fk)
                    elif k in ("init", "cl"):
                        self._collect_init(x)
            self.direct[f.key] = d
            self.indirect[f.key] = ind
            self.fieldw[f.key] = fw

    def _propagate_slots(self):
        changed = True
        while changed:
            changed = False
            for (dst, src) in self.copies:
                s = self.slots.get(src)
                if not s:
                    continue
                d = self.slots.setdefault(dst, set())
                if not s <= d:
                    d |= s
                    changed = True

    def slot_targets(self, fk):
        """Functions that may be called through slot fk=(rec, field)."""
        if fk and fk[0] == "param":
            # function-pointer parameter: arguments seen at call sites
            fname, pname = fk[1], fk[2]
            out = set()
            for f in self.by_name.get(fname, []):
                for idx, p in enumerate(f.params):
                    if p["n"] == pname:
                        out |= self.argfns.get((fname, idx), set())
            return out
        t = self.slots.get(fk)
        if t is None:
            t = self.slots.get(("*", fk[1]), set())
        return t

    # ---- typestate of lzma_next_coder objects: which init function filled the slot ----------
    def _code_of_init(self, name, seen=None):
        """`code` functions that init function `name` can store into the lzma_next_coder it
        receives as its first parameter (directly or by passing it on)."""
        cache = self.__dict__.setdefault("_coi", {})
        if name in cache:
            return cache[name]
        seen = seen or set()
        if name in seen:
            return set()
        seen = seen | {name}
        out = set()
        for f in self.by_name.get(name, []):
            if not f.params:
                continue
            p0 = f.params[0]["n"]
            for b, i, e in f.iter_elems():
                for (l, r, op, node) in ex.writes(e):
                    ls = ex.strip(l)
                    if ls is not None and ls.get("k") == "mem" and ls["f"] == "code" and \
                            ls.get("rec") == "lzma_next_coder_s":
                        bs = ex.strip(ls["b"])
                        if bs is not None and bs.get("k") == "var" and bs["n"] == p0:
                            fr = self._fnref(r)
                            if fr:
                                out.add(fr)
                for c in ex.calls(e, into_refs=False):
                    if not c["args"]:
                        continue
                    a0 = ex.strip(c["args"][0])
                    if a0 is None or a0.get("k") != "var" or a0["n"] != p0:
                        continue
                    if c.get("fn"):
                        out |= self._code_of_init(c["fn"], seen)
                    else:
                        cal = ex.strip(c.get("callee"))
                        fk = ex.field_key(cal)
                        if fk and fk[1] == "init":
                            for t in self.slot_targets(fk):
                                out |= self._code_of_init(t, seen)
        if len(seen) == 1:
            cache[name] = out
        return out

    def narrow_code_targets(self, fn, call):
        """For a call `OBJ.code(...)` / `OBJ->code(...)` on an lzma_next_coder object: the code
        functions of the init functions that were given &OBJ; None if unknown."""
        from .resume import lvpath
        cal = ex.strip(call.get("callee"))
        if cal is not None and cal.get("k") == "un" and cal["op"] == "*":
            cal = ex.strip(cal["e"])
        if cal is None or cal.get("k") != "mem" or cal["f"] != "code" or cal.get("rec") != "lzma_next_coder_s":
            return None
        obj = ex.strip(cal["b"])
        okey = None
        if obj is not None and obj.get("k") == "mem":
            okey = ("field", obj.get("rec"), obj["f"])
        elif obj is not None and obj.get("k") == "var" and obj.get("s") == "l":
            okey = ("local", fn.key, obj["n"])
        if okey is None:
            return None
        idx = self.__dict__.setdefault("_initsites", None)
        if idx is None:
            idx = {}
            for f in self.fns:
                for b, i, e in f.iter_elems():
                    for c in ex.calls(e, into_refs=False):
                        if not c["args"]:
                            continue
                        a0 = ex.strip(c["args"][0])
                        if a0 is None or a0.get("k") != "un" or a0["op"] != "&":
                            continue
                        t = ex.strip(a0["e"])
                        if t is None:
                            continue
                        if t.get("k") == "mem":
                            k = ("field", t.get("rec"), t["f"])
                        elif t.get("k") == "var" and t.get("s") == "l":
                            k = ("local", f.key, t["n"])
                        else:
                            continue
                        idx.setdefault(k, []).append(c)
            self._initsites = idx
        out = set()
        found = False
        for c in idx.get(okey, ()):
            nm = c.get("fn")
            if nm:
                cs = self._code_of_init(nm)
                if cs:
                    found = True
                    out |= cs
            else:
                cal2 = ex.strip(c.get("callee"))
                fk = ex.field_key(cal2)
                if fk and fk[1] == "init":
                    for t in self.slot_targets(fk):
                        cs = self._code_of_init(t)
                        if cs:
                            found = True
                            out |= cs
        return out if found else None

    def callees(self, f):
        """Names of functions f may call (direct + slots)."""
        out = set(self.direct.get(f.key, ()))
        for fk in self.indirect.get(f.key, ()):
            out |= self.slot_targets(fk)
        return out

    def _closure(self):
        # transitive may-write-field sets and reachability, by name
        self.name_callees = {}
        for f in self.fns:
            self.name_callees.setdefault(f.name, set()).update(self.callees(f))
        self.name_fw = {}
        for f in self.fns:
            self.name_fw.setdefault(f.name, set()).update(self.fieldw[f.key])
        changed = True
        self.trans_fw = {n: set(s) for n, s in self.name_fw.items()}
        while changed:
            changed = False
            for n, cs in self.name_callees.items():
                cur = self.trans_fw[n]
                before = len(cur)
                for c in cs:
                    s = self.trans_fw.get(c)
                    if s:
                        cur |= s
                if len(cur) != before:
                    changed = True

    def may_write(self, fname):
        return self.trans_fw.get(fname, set())

    def may_write_direct(self, fname):
        """Fields written by fname or by functions it reaches through *direct* calls only.
        (A call through a coder slot operates on a child coder object, never on the
        caller's own record: coder objects form an ownership tree.)"""
        if not hasattr(self, "_dfw"):
            self._dfw = {}
        if fname in self._dfw:
            return self._dfw[fname]
        seen = set()
        out = set()
        st = [fname]
        while st:
            n = st.pop()
            if n in seen:
                continue
            seen.add(n)
            out |= self.name_fw.get(n, set())
            for f in self.by_name.get(n, []):
                st.extend(self.direct.get(f.key, ()))
        self._dfw[fname] = out
        return out

    def reach(self, roots):
        seen = set()
        st = list(roots)
        while st:
            n = st.pop()
            if n in seen:
                continue
            seen.add(n)
            st.extend(self.name_callees.get(n, ()))
        return seen

    def callers_of(self, name):
        return sorted(n for n, cs in self.name_callees.items() if name in cs)
