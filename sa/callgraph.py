"""E-CALLGRAPH: resolved callees (direct + function-pointer slots), effect summaries."""
from . import ex


class CallGraph:
    def __init__(self, prog, target=None):
        self.prog = prog
        self.fns = [f for f in prog.all_functions()
                    if target is None or f.target == target]
        self.by_name = {}
        for f in self.fns:
            self.by_name.setdefault(f.name, []).append(f)
        self.slots = {}        # (rec, field) -> set(function names)
        self.argfns = {}       # (callee name, arg index) -> set(function names)
        self.direct = {}       # fn key -> set(callee names)
        self.indirect = {}     # fn key -> set((rec, field)) slot calls
        self.fieldw = {}       # fn key -> set((rec, field)) direct writes
        self.copies = set()    # (dst fk, src fk) function-pointer field copies
        self._collect()
        self._propagate_slots()
        self._closure()

    # ------------------------------------------------------------------
    def _fnref(self, n):
        n = ex.strip(n)
        if n is None:
            return None
        if n.get("k") == "un" and n["op"] == "&":
            n = ex.strip(n["e"])
        if n is not None and n.get("k") == "var" and n.get("s") == "f":
            return n["n"]
        return None

    def _collect_init(self, n, recname=None):
        """Function references inside initialiser lists -> slots by field name."""
        n = ex.strip(n)
        if n is None:
            return
        if n.get("k") == "cl":
            self._collect_init(n["e"])
            return
        if n.get("k") == "init":
            fields = n.get("fields")
            ty = n.get("ty", "")
            for i, e in enumerate(n["e"]):
                fr = self._fnref(e)
                if fr and fields and i < len(fields):
                    self.slots.setdefault((self._ty_rec(ty), fields[i]), set()).add(fr)
                    self.slots.setdefault(("*", fields[i]), set()).add(fr)
                else:
                    self._collect_init(e)

    def _ty_rec(self, ty):
        t = ty.replace("const ", "").replace("struct ", "").strip()
        return t

    def _collect(self):
        for g in self.prog.globals.values():
            for d in g:
                if d.get("init") is not None:
                    self._collect_init(d["init"])
        for f in self.fns:
            d = set()
            ind = set()
            fw = set()
            for b, i, e in f.iter_elems():
                for x in ex.walk(e, into_refs=False):
                    k = x.get("k")
                    if k == "call":
                        if x.get("fn"):
                            d.add(x["fn"])
                            for ai, a in enumerate(x["args"]):
                                fr = self._fnref(a)
                                if fr:
                                    self.argfns.setdefault((x["fn"], ai), set()).add(fr)
                        else:
                            c = ex.strip(x["callee"])
                            if c is not None and c.get("k") == "un" and c["op"] == "*":
                                c = ex.strip(c["e"])
                            fk = ex.field_key(c)
                            if fk:
                                ind.add(fk)
                            elif c is not None and c.get("k") == "var":
                                ind.add(("param", f.name, c["n"]))
                    elif k == "asg":
                        fk = ex.field_key(x["l"])
                        if fk:
                            fw.add(fk)
                            fr = self._fnref(x["r"])
                            if fr:
                                self.slots.setdefault(fk, set()).add(fr)
                                self.slots.setdefault(("*", fk[1]), set()).add(fr)
                            else:
                                sk = ex.field_key(x["r"])
                                if sk:
                                    self.copies.add((fk, sk))
                        else:
                            l = ex.strip(x["l"])
                            if l is not None and l.get("k") == "idx":
                                fk2 = ex.field_key(l["b"])
                                if fk2:
                                    fw.add(fk2)
                    elif k == "un" and x["op"] in ex.ASSIGN_UN:
                        fk = ex.field_key(x["e"])
                        if fk:
                            fw.add(fk)
                    elif k in ("init", "cl"):
                        self._collect_init(x)
            self.direct[f.key] = d
            self.indirect[f.key] = ind
            self.fieldw[f.key] = fw

    def _propagate_slots(self):
        changed = True
        while changed:
            changed = False
            for (dst, src) in self.copies:
                s = self.slots.get(src)
                if not s:
                    continue
                d = self.slots.setdefault(dst, set())
                if not s <= d:
                    d |= s
                    changed = True

    def slot_targets(self, fk):
        """Functions that may be called through slot fk=(rec, field)."""
        if fk and fk[0] == "param":
            # function-pointer parameter: arguments seen at call sites
            fname, pname = fk[1], fk[2]
            out = set()
            for f in self.by_name.get(fname, []):
                for idx, p in enumerate(f.params):
                    if p["n"] == pname:
                        out |= self.argfns.get((fname, idx), set())
            return out
        t = self.slots.get(fk)
        if t is None:
            t = self.slots.get(("*", fk[1]), set())
        return t

    def callees(self, f):
        """Names of functions f may call (direct + slots)."""
        out = set(self.direct.get(f.key, ()))
        for fk in self.indirect.get(f.key, ()):
            out |= self.slot_targets(fk)
        return out

    def _closure(self):
        # transitive may-write-field sets and reachability, by name
        self.name_callees = {}
        for f in self.fns:
            self.name_callees.setdefault(f.name, set()).update(self.callees(f))
        self.name_fw = {}
        for f in self.fns:
            self.name_fw.setdefault(f.name, set()).update(self.fieldw[f.key])
        changed = True
        self.trans_fw = {n: set(s) for n, s in self.name_fw.items()}
        while changed:
            changed = False
            for n, cs in self.name_callees.items():
                cur = self.trans_fw[n]
                before = len(cur)
                for c in cs:
                    s = self.trans_fw.get(c)
                    if s:
                        cur |= s
                if len(cur) != before:
                    changed = True

    def may_write(self, fname):
        return self.trans_fw.get(fname, set())

    def may_write_direct(self, fname):
        """Fields written by fname or by functions it reaches through *direct* calls only.
        (A call through a coder slot operates on a child coder object, never on the
        caller's own record: coder objects form an ownership tree.)"""
        if not hasattr(self, "_dfw"):
            self._dfw = {}
        if fname in self._dfw:
            return self._dfw[fname]
        seen = set()
        out = set()
        st = [fname]
        while st:
            n = st.pop()
            if n in seen:
                continue
            seen.add(n)
            out |= self.name_fw.get(n, set())
            for f in self.by_name.get(n, []):
                st.extend(self.direct.get(f.key, ()))
        self._dfw[fname] = out
        return out

    def reach(self, roots):
        seen = set()
        st = list(roots)
        while st:
            n = st.pop()
            if n in seen:
                continue
            seen.add(n)
            st.extend(self.name_callees.get(n, ()))
        return seen

    def callers_of(self, name):
        return sorted(n for n, cs in self.name_callees.items() if name in cs)
