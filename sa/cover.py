"""E-COVER (field coverage of copy/init/update functions) and the strong-guarantee
effect rule (no caller-visible write on a path that ends in an error return)."""
from . import ex, cfg
from .resume import lvpath


def _base_var(n):
    r = ex.lvalue_root(n)
    return r["n"] if r is not None else None


def field_of(n, var):
    """If n is `var->f...` or `var.f...` return the first field name after var."""
    p = lvpath(n)
    if not p or p[0] != ("var", var):
        return None
    for st in p[1:]:
        if st[0] == "field":
            return st[1]
    return None


def reads_field(n, var, field):
    for x in ex.walk(n):
        if x.get("k") == "mem" and field_of(x, var) == field:
            return True
    return False


def copy_coverage(prog, fn, dest, src, record):
    """{field: how} for every field of `record` that fn copies from src to dest:
    direct assignment, or src->f passed to a callee that stores that parameter into
    the same field of the object it returns/initialises."""
    rec = prog.record(record)
    fields = [f["n"] for f in rec["fields"]]
    out = {}
    for b, i, e in fn.iter_elems():
        for (l, r, op, node) in ex.writes(e):
            f = field_of(l, dest)
            if f in fields and r is not None and reads_field(r, src, f):
                out.setdefault(f, "assigned at line %d" % ex.line(node))
        for c in ex.calls(e, into_refs=False):
            if not c.get("fn"):
                continue
            for g in prog.functions.get(c["fn"], []):
                for ai, a in enumerate(c["args"]):
                    for f in fields:
                        if f in out or not reads_field(a, src, f):
                            continue
                        if ai >= len(g.params):
                            continue
                        pn = g.params[ai]["n"]
                        # callee stores the parameter into field f (or a sub-field)
                        for b2, i2, e2 in g.iter_elems():
                            for (l2, r2, op2, n2) in ex.writes(e2):
                                p = lvpath(l2)
                                if p and any(st == ("field", f) for st in p) and r2 is not None \
                                        and ex.reads_var(r2, pn):
                                    out.setdefault(f, "via %s(arg %d) line %d" % (g.name, ai, ex.line(n2)))
    return out, fields


def written_fields(prog, fn, var, record, depth=1):
    """Fields of record written through `var` in fn (any store form), including
    through callees that receive `&var->f` / `var` (depth-1)."""
    rec = prog.record(record)
    fields = [f["n"] for f in rec["fields"]]
    out = {}
    for b, i, e in fn.iter_elems():
        for (l, r, op, node) in ex.writes(e):
            f = field_of(l, var)
            if f in fields:
                out.setdefault(f, ex.line(node))
        for c in ex.calls(e, into_refs=False):
            for a in c["args"]:
                a2 = ex.strip(a)
                if a2 is not None and a2.get("k") == "un" and a2["op"] == "&":
                    f = field_of(a2["e"], var)
                    if f in fields:
                        out.setdefault(f, ex.line(c))
            if c.get("fn") in ("memset", "memcpy", "memzero"):
                a0 = ex.strip(c["args"][0]) if c["args"] else None
                if a0 is not None:
                    f = field_of(a0, var)
                    if f in fields:
                        out.setdefault(f, ex.line(c))
    return out, fields


# ---------------------------------------------------------------------------
def strong_guarantee(prog, fn, graph, visible_roots, fresh_calls=("lzma_alloc", "lzma_alloc_zero"),
                     ok_values=(0,), effects=None, canonical=None):
    """Check: on every path ending in an error return, no store through a pointer
    derived from `visible_roots` (parameter names) has happened, except stores that are
    undone (X = saved copy of X) before the return.

    graph: an fd.FD (after run()) of fn whose states track the returned value.
    effects: {callee name: set(arg indices)} of callees that modify what those
    arguments point to.
    Returns list of (return line, write line, lvalue text)."""
    # derived pointers (flow-insensitive): locals assigned from expressions that read a
    # visible root or another derived local, unless assigned from a fresh allocation
    derived = set(visible_roots)
    fresh = set()
    changed = True
    while changed:
        changed = False
        for b, i, e in fn.iter_elems():
            for (l, r, op, node) in ex.writes(e):
                ls = ex.strip(l)
                if ls is None or ls.get("k") != "var" or r is None:
                    continue
                rs = ex.strip(r)
                if rs is not None and rs.get("k") == "call" and rs.get("fn") in fresh_calls:
                    if ls["n"] not in fresh:
                        fresh.add(ls["n"])
                    continue
                vty = None
                for v in fn.vars:
                    if v["n"] == ls["n"]:
                        vty = v["ty"]
                if vty is None or "*" not in vty:
                    continue
                if any(x.get("k") == "var" and x["n"] in derived for x in ex.walk(r)):
                    if ls["n"] not in derived:
                        derived.add(ls["n"])
                        changed = True
    derived -= fresh - set(visible_roots)

    # saved copies: local v single-assigned from persistent lvalue P
    from .guard import single_def
    saved = {}
    for v in fn.vars:
        if v.get("param"):
            continue
        d = single_def(fn, v["id"])
        if d is not None:
            p = lvpath(d)
            if p and len(p) > 1:
                saved[v["n"]] = p

    def visible_store(l):
        p = lvpath(l)
        if not p or len(p) < 2:
            return None
        if p[0][0] == "var" and p[0][1] in derived and any(s[0] in ("deref", "idx") for s in p[1:]):
            return p
        return None

    from . import fd as _fd

    def transfer(blk, i, e, states, cur):
        cur = set(cur)
        for (l, r, op, node) in ex.writes(e):
            p = visible_store(l)
            if p is None:
                continue
            rs = ex.strip(r) if r is not None else None
            if op == "=" and rs is not None and rs.get("k") == "var" and saved.get(rs["n"]) == p:
                cur = {x for x in cur if x[0] != p}       # restored
                continue
            if op == "=" and canonical and canonical.get(_pshow(p)) == ex.show(r):
                cur = {x for x in cur if x[0] != p}       # restored to its invariant value
                continue
            if not any(x[0] == p for x in cur):
                cur.add((p, ex.line(node)))
        for c in ex.calls(e, into_refs=False):
            if effects and c.get("fn") in effects:
                for ai, a in enumerate(c["args"]):
                    if ai in effects[c["fn"]] and any(
                            x.get("k") == "var" and x["n"] in derived for x in ex.walk(a)):
                        cur.add(((("var", c["fn"] + "()"),), ex.line(c)))
        return frozenset(cur)

    def check(blk, i, e, states, cur):
        if e.get("k") != "ret" or not cur:
            return ()
        err = False
        for s in states:
            v = graph.aeval(e.get("e"), s) if e.get("e") is not None else None
            if v is None:
                err = True
            elif any(x not in ok_values for x in v):
                err = True
        if not err:
            return ()
        return [(ex.line(e), ln, _pshow(p)) for (p, ln) in sorted(cur, key=lambda z: z[1])]

    return _fd.setflow(graph, transfer, check)


def _pshow(p):
    s = ""
    for st in p:
        if st[0] == "var":
            s = st[1]
        elif st[0] == "deref":
            s = "(*%s)" % s
        elif st[0] == "field":
            s += "." + st[1]
        elif st[0] == "idx":
            s += "[]"
    return s
