"""Resume-aware product graphs of the coder state machines."""
from . import ex, fd, resume
from .compdb import AnalysisBroken

NO_RETURN_YET = -999
NONFATAL = ("LZMA_OK", "LZMA_STREAM_END", "LZMA_NO_CHECK", "LZMA_UNSUPPORTED_CHECK",
            "LZMA_GET_CHECK", "LZMA_MEMLIMIT_ERROR", "LZMA_SEEK_NEEDED", "LZMA_RET_INTERNAL1")


class Machine:
    def __init__(self, prog, fn, cg, rs, extra_keys=(), init=None, seq_init=None,
                 resume_edges=True, split=32, must_assign=None, call_values=None):
        """init: dict label -> iterable of values for the initial entry states
        seq_init: iterable of enumerator names (default: all)"""
        self.prog, self.fn = prog, fn
        R = resume.Resume(prog, fn)
        sw = R.find_switch()
        if not sw:
            raise AnalysisBroken("%s: no state switch on a persisted field" % fn.name)
        self.swb = sw[0]
        names = []
        for s in self.swb.succs:
            if s is not None:
                lb = fn.blocks[s].label
                if lb and lb.get("n"):
                    names.append(lb["n"])
        if not names:
            raise AnalysisBroken("%s: state switch without enumerator labels" % fn.name)
        self.enum = prog.enum_with(names[0], fn.file)
        self.names = {v: k for k, v in self.enum.items()}
        seqnode = ex.strip(self.swb.term["cond"])
        if seqnode is None or seqnode.get("k") != "mem":
            raise AnalysisBroken("%s: state switch is not on a record field" % fn.name)
        self.rets = prog.enum("lzma_ret")
        self.retnames = {v: k for k, v in self.rets.items()}
        kseq = fd.Key("field", seqnode["f"], rec=seqnode.get("rec"),
                      domain=self.enum.values(), label="seq")
        keys = [kseq,
                fd.Key("var", "ret", domain=self.rets.values(), label="ret"),
                fd.Key("var", "ret_", domain=self.rets.values(), label="ret_"),
                fd.Key("retval", "$ret", domain=list(self.rets.values()) + [NO_RETURN_YET],
                       label="$ret")]
        keys += list(extra_keys)
        self.keys = keys
        cv = call_values or (lambda c, s: rs.call_set(c, fn))
        self.g = fd.FD(prog, fn, keys, cg=cg, call_values=cv, split=split,
                       must_assign=must_assign)
        g = self.g
        g.value_hook = lambda n: rs._value(fn, n)
        nonfatal = {self.rets[n] for n in NONFATAL if n in self.rets}
        field_idx = [i for i, k in enumerate(keys) if k.kind == "field"]

        def resume_cb(s):
            rv = g.get(s, "$ret")
            if rv is None or not (set(rv) & nonfatal):
                return ()
            ns = list(g.top_state())
            for i in field_idx:
                ns[i] = s[i]
            ns = tuple(ns)
            return [g.state_with(ns, "$ret", [NO_RETURN_YET])]

        seqvals = [self.enum[n] for n in seq_init] if seq_init else sorted(self.enum.values())
        inits = []
        for v in seqvals:
            st = g.make_state(seq=[v], **{"$ret": [NO_RETURN_YET]})
            if init:
                for lab, vals in init.items():
                    st = g.state_with(st, lab, vals)
            inits.append(st)
        self.inits = inits
        g.run(inits, resume=resume_cb if resume_edges else None)

    def entry_nodes(self, seq_names=None):
        out = []
        if seq_names is None:
            return [(self.fn.entry, s) for s in self.inits]
        vals = {self.enum[n] for n in seq_names}
        for node in self.g.nodes:
            if node[0] != self.fn.entry:
                continue
            sv = self.g.get(node[1], "seq")
            if sv and set(sv) <= vals:
                out.append(node)
        return out

    def exit_pred(self, code_names):
        vals = {self.rets[n] for n in code_names}
        g = self.g

        def pred(node):
            if node[0] != self.fn.exit:
                return None
            rv = g.get(node[1], "$ret")
            if rv is None:
                return "return *"
            hit = set(rv) & vals
            if hit:
                return "return " + ",".join(self.retnames[v] for v in sorted(hit))
            return None
        return pred

    def seq_name(self, s):
        v = self.g.get(s, "seq")
        if v is None:
            return "*"
        return ",".join(self.names.get(x, str(x)) for x in sorted(v))

    def describe_path(self, path, limit=14):
        from . import cfg as _cfg
        out = []
        last = None
        for n in path:
            lo, hi = _cfg.block_lines(self.fn, n[0])
            tag = "%s@%s" % (self.seq_name(n[1]), lo if lo else "B%d" % n[0])
            if tag != last:
                out.append(tag)
                last = tag
        if len(out) > limit:
            out = out[:limit // 2] + ["..."] + out[-limit // 2:]
        return " -> ".join(out)
