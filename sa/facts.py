"""Parallel extraction with build/xzfacts and the in-memory program model."""
import json, os, shutil, subprocess, sys, tempfile, time
from concurrent.futures import ThreadPoolExecutor

from . import compdb
from .compdb import AnalysisBroken

VERIF = os.path.dirname(os.path.dirname(os.path.abspath(__file__)))
XZFACTS = os.path.join(VERIF, "build", "xzfacts")


def _norm_int(o):
    return o


class Block:
    __slots__ = ("id", "elems", "term", "succs", "label", "preds", "fn", "unreach")

    def __init__(self, fn, jb):
        self.fn = fn
        self.id = jb["id"]
        self.elems = jb["elems"]
        self.term = jb.get("term")
        self.succs = jb["succs"]
        self.label = jb.get("label")
        self.unreach = jb.get("unreach", [])
        self.preds = []

    def __repr__(self):
        return "B%d" % self.id


class Function:
    def __init__(self, jf, tu):
        self.j = jf
        self.tu = tu
        self.name = jf["name"]
        self.file = jf["file"]
        self.line = jf["line"]
        self.endline = jf.get("endline", jf["line"])
        self.static = jf["static"]
        self.ret = jf["ret"]
        self.vars = jf["vars"]
        self.params = [v for v in self.vars if v.get("param")]
        self.blocks = {}
        cfg = jf.get("cfg")
        self.entry = self.exit = None
        if cfg:
            for jb in cfg["blocks"]:
                b = Block(self, jb)
                self.blocks[b.id] = b
            self.entry = cfg["entry"]
            self.exit = cfg["exit"]
            # a failed assertion aborts: its block is a dead end, not a path to the function exit
            for b in self.blocks.values():
                if any(isinstance(e, dict) and e.get("k") == "call" and e.get("fn") == "__assert_fail"
                       for e in b.elems):
                    b.succs = []
            for b in self.blocks.values():
                for s in b.succs:
                    if s is not None:
                        self.blocks[s].preds.append(b.id)
            self._resolve()
            self._canon()

    def _canon(self):
        """Spelling normalisation, so that rules see one form of equivalent expressions (the form this code base uses):
        `x = x op y` -> `x op= y`;  `*(a + i)` -> `a[i]`.  The rewritten node keeps a "canon" marker."""
        from . import ex as _ex
        COMM = ("+", "|", "&", "^", "*")
        OPS = ("+", "-", "|", "&", "^", "<<", ">>", "*")

        def unparen(n):
            n = _ex.deref(n)
            while isinstance(n, dict) and n.get("k") == "paren":
                n = _ex.deref(n.get("e"))
            return n

        def pure(n):
            return not any(x.get("k") == "call" or (x.get("k") == "un" and ("++" in x.get("op", "") or "--" in x.get("op", "")))
                           or x.get("k") == "asg" for x in _ex.walk(n))

        def visit(n):
            if isinstance(n, list):
                for x in n:
                    visit(x)
                return
            if not isinstance(n, dict):
                return
            for k, v in list(n.items()):
                if k != "tgt" and isinstance(v, (dict, list)):
                    visit(v)
            kk = n.get("k")
            if kk == "asg" and n.get("op") == "=" and n.get("r") is not None:
                r = unparen(n["r"])
                if isinstance(r, dict) and r.get("k") == "bin" and r.get("op") in OPS and pure(n["l"]):
                    if _ex.same(n["l"], r["l"]):
                        n["op"], n["r"], n["canon"] = r["op"] + "=", r["r"], "x=x op y"
            if n.get("k") == "asg" and n.get("op") in ("+=", "-=") and _ex.const_val(n.get("r")) == 1 and pure(n["l"]):
                # `x += 1` / `x = x + 1` -> `++x` (same value as an expression)
                l, ln, op = n["l"], n.get("ln"), n["op"]
                n.clear()
                n.update({"k": "un", "op": "pre++" if op == "+=" else "pre--", "e": l, "canon": "x op= 1"})
                if ln is not None:
                    n["ln"] = ln
            elif kk == "un" and n.get("op") == "*":
                e = unparen(n.get("e"))
                if isinstance(e, dict) and e.get("k") == "bin" and e.get("op") == "+":
                    l, r = e["l"], e["r"]
                    if _ex.const_val(l) is not None and _ex.const_val(r) is None:
                        l, r = r, l
                    ln = n.get("ln")
                    n.clear()
                    n.update({"k": "idx", "b": l, "i": r, "canon": "*(a+i)"})
                    if ln is not None:
                        n["ln"] = ln
        for b in self.blocks.values():
            visit(b.elems)
            if b.term and "cond" in b.term:
                visit(b.term["cond"])

    @property
    def key(self):
        return (self.file, self.line, self.name)

    @property
    def where(self):
        return "%s:%d" % (relpath(self.file), self.line)

    def _resolve(self):
        blocks = self.blocks

        def fix(n):
            if isinstance(n, dict):
                if n.get("k") == "eref":
                    try:
                        n["tgt"] = blocks[n["b"]].elems[n["i"]]
                    except (KeyError, IndexError):
                        n["tgt"] = None
                    return
                for k, v in n.items():
                    if k == "tgt":
                        continue
                    if isinstance(v, (dict, list)):
                        fix(v)
            elif isinstance(n, list):
                for x in n:
                    fix(x)

        for b in blocks.values():
            for e in b.elems:
                fix(e)
            if b.term and "cond" in b.term:
                fix(b.term["cond"])

    def var(self, vid):
        return self.vars[vid]

    def iter_elems(self):
        for b in self.blocks.values():
            for i, e in enumerate(b.elems):
                if e is not None:
                    yield b, i, e

    def __repr__(self):
        return "<fn %s %s>" % (self.name, self.where)


def relpath(p):
    r = compdb.REPO.rstrip("/") + "/"
    return p[len(r):] if p.startswith(r) else p


class Program:
    def __init__(self):
        self.tus = []          # raw TU dicts with 'target', 'main'
        self.functions = {}    # name -> [Function] (distinct definitions)
        self.records = {}      # name -> record dict
        self.enums = {}        # name -> {enumerator: value}
        self.enum_of = {}      # enumerator -> (enum name, value)
        self.enums_by_file = {}
        self.globals = {}      # name -> [global dicts] (definitions preferred)
        self._fkeys = set()
        self.files = set()
        self.config = "default"

    def add_tu(self, tu, target):
        tu["target"] = target
        self.tus.append(tu)
        self.files.add(tu.get("main"))
        for r in tu["records"]:
            self.records.setdefault(r["name"], r)
        for e in tu["enums"]:
            d = {n: v for n, v in e["enumerators"]}
            self.enums.setdefault(e["name"], d)
            self.enums_by_file.setdefault((e["name"], e["file"]), d)
            for n, v in e["enumerators"]:
                lst = self.enum_of.setdefault(n, [])
                ent = (e["name"], v, e["file"])
                if ent not in lst:
                    lst.append(ent)
        gseen = set()
        for g in tu["globals"]:
            g["tu"] = tu.get("main")
            g["target"] = target
            lst = self.globals.setdefault(g["name"], [])
            k = (g["file"], g["line"])
            if not any((x["file"], x["line"]) == k and x["target"] == target
                       and x.get("tu") == g["tu"] for x in lst):
                lst.append(g)
        for jf in tu["functions"]:
            k = (jf["file"], jf["line"], jf["name"], target if jf["file"] == tu.get("main") else "")
            if k in self._fkeys:
                continue
            self._fkeys.add(k)
            f = Function(jf, tu)
            f.target = target
            self.functions.setdefault(f.name, []).append(f)

    # ---- lookup helpers
    def fn(self, name, file=None, target=None, required=True):
        c = self.functions.get(name, [])
        if file:
            c = [f for f in c if f.file.endswith(file)]
        if target:
            c2 = [f for f in c if f.target == target]
            if c2:
                c = c2
        if not c:
            if required:
                raise AnalysisBroken("anchor vanished: function %s%s" %
                                     (name, (" in " + file) if file else ""))
            return None
        return c[0]

    def resolve(self, caller, name):
        """Definitions a direct call to `name` from `caller` can bind to (static in the
        same file first)."""
        c = self.functions.get(name, [])
        same = [f for f in c if f.file == caller.file]
        if same:
            return same
        return [f for f in c if not f.static or f.file.endswith(".h")]

    def fns_in(self, file):
        out = []
        for l in self.functions.values():
            for f in l:
                if f.file.endswith(file):
                    out.append(f)
        return sorted(out, key=lambda f: f.line)

    def all_functions(self, target=None):
        for l in self.functions.values():
            for f in l:
                if target is None or f.target == target:
                    yield f

    def record(self, name, required=True):
        r = self.records.get(name)
        if r is None and required:
            raise AnalysisBroken("anchor vanished: record %s" % name)
        return r

    def glob(self, name, file=None, required=True):
        c = [g for g in self.globals.get(name, []) if g.get("init") is not None]
        if file:
            c = [g for g in c if g["file"].endswith(file)]
        if not c:
            if required:
                raise AnalysisBroken("anchor vanished: global %s" % name)
            return None
        return c[0]

    def enum_with(self, enumerator, file=None, required=True):
        """The enum (dict) that declares `enumerator`, preferring one declared in `file`."""
        c = self.enum_of.get(enumerator, [])
        if file:
            c2 = [x for x in c if x[2] == file]
            if c2:
                c = c2
        if not c:
            if required:
                raise AnalysisBroken("anchor vanished: enumerator %s" % enumerator)
            return None
        return self.enums_by_file.get((c[0][0], c[0][2])) or self.enums[c[0][0]]

    def enum(self, name, required=True):
        e = self.enums.get(name)
        if e is None and required:
            raise AnalysisBroken("anchor vanished: enum %s" % name)
        return e


def _run_one(job):
    out, src, args = job
    env = None
    ov = os.environ.get("XZ_VERIF_OVERRIDE")
    if ov:
        env = dict(os.environ)
        env["XZFACTS_REMAP"] = ov
    r = subprocess.run([XZFACTS, out, src, "--"] + args,
                       capture_output=True, text=True, env=env)
    return (src, r.returncode, r.stderr[-1000:])


def extract(targets=None, extra_flags=None, files=None, config="default",
            repo=None, jobs=16, file_overrides=None):
    """Extract facts for the current tree.

    targets: iterable of target names (liblzma, xz, xzdec, lzmadec, lzmainfo,
             test_*); None = all non-test targets.
    extra_flags: list of flags appended (alternate configuration).
    files: restrict to sources whose path ends with one of these.
    file_overrides: {original path: replacement path} (mutant self-test).
    """
    if not os.path.exists(XZFACTS):
        raise AnalysisBroken("build/xzfacts missing: run MANIFEST.setup_cmd")
    # selftest only: XZ_VERIF_OVERRIDE=orig=replacement makes xzfacts read the replacement's
    # content in place of the original file (works for headers too); see _run_one
    entries = compdb.load(repo)
    if targets is None:
        targets = {"liblzma", "xz", "xzdec", "lzmadec", "lzmainfo"}
    sel = [e for e in entries if e["target"] in targets]
    if files:
        sel = [e for e in sel if any(e["file"].endswith(x) or (x.endswith("/") and x in e["file"])
                                     for x in files)]
    if not sel:
        raise AnalysisBroken("no translation units selected")
    tmp = tempfile.mkdtemp(prefix="xzverif-facts-")
    prog = Program()
    prog.config = config
    try:
        jobsl = []
        for i, e in enumerate(sel):
            src = e["file"]
            if file_overrides and src in file_overrides:
                src = file_overrides[src]
                args = list(e["args"]) + ["-I" + os.path.dirname(e["file"])]
            else:
                args = list(e["args"])
            if extra_flags:
                args += list(extra_flags)
            jobsl.append((os.path.join(tmp, "%d.json" % i), src, args))
        with ThreadPoolExecutor(max_workers=jobs) as ex:
            res = list(ex.map(_run_one, jobsl))
        bad = [r for r in res if r[1] != 0]
        if bad:
            raise AnalysisBroken("extraction failed for %s: %s" %
                                 (bad[0][0], bad[0][2]))
        for (out, src, args), e in zip(jobsl, sel):
            if not os.path.exists(out):
                raise AnalysisBroken("no facts for " + src)
            with open(out) as fh:
                tu = json.load(fh)
            if file_overrides:
                inv = {v: k for k, v in file_overrides.items()}
                if tu.get("main") in inv:
                    real = inv[tu["main"]]
                    for coll in ("records", "enums", "globals", "functions"):
                        for x in tu[coll]:
                            if x.get("file") == tu["main"]:
                                x["file"] = real
                    tu["main"] = real
            prog.add_tu(tu, e["target"])
    finally:
        shutil.rmtree(tmp, ignore_errors=True)
    prog.n_units = len(sel)
    return prog
