"""E-CFG: graph algorithms on a Function's clang::CFG."""
from collections import deque

from . import ex


def succs(fn, bid):
    return [s for s in fn.blocks[bid].succs if s is not None]


def reachable(fn, starts, stop=None, forward=True):
    """Blocks reachable from `starts` (inclusive). `stop`: blocks not expanded."""
    stop = set(stop or ())
    seen = set()
    dq = deque(starts)
    while dq:
        b = dq.popleft()
        if b in seen:
            continue
        seen.add(b)
        if b in stop:
            continue
        nxt = succs(fn, b) if forward else fn.blocks[b].preds
        for s in nxt:
            if s not in seen:
                dq.append(s)
    return seen


def live_blocks(fn):
    return reachable(fn, [fn.entry])


def dominators(fn, forward=True):
    """dict block -> set of dominators (post-dominators if not forward)."""
    blocks = live_blocks(fn)
    root = fn.entry if forward else fn.exit
    if root not in blocks:
        blocks = set(blocks) | {root}
    dom = {b: set(blocks) for b in blocks}
    dom[root] = {root}
    changed = True
    order = sorted(blocks, reverse=forward)  # clang numbers entry highest
    while changed:
        changed = False
        for b in order:
            if b == root:
                continue
            ps = (fn.blocks[b].preds if forward else succs(fn, b))
            ps = [p for p in ps if p in blocks]
            if ps:
                new = set.intersection(*(dom[p] for p in ps)) | {b}
            else:
                # backward: a dead end (abort) never reaches the exit -- it constrains nothing
                new = {b} if forward else set(blocks)
            if new != dom[b]:
                dom[b] = new
                changed = True
    return dom


def switch_blocks(fn):
    out = []
    for b in fn.blocks.values():
        if b.term and b.term["kind"] == "SwitchStmt":
            out.append(b)
    return out


def case_targets(fn, swb):
    """[(label dict, block id)] for the successors of a switch block."""
    out = []
    for s in swb.succs:
        if s is None:
            continue
        lb = fn.blocks[s].label
        out.append((lb, s))
    return out


def returns(fn):
    """[(block, idx, ret node)] of all return statements."""
    out = []
    for b, i, e in fn.iter_elems():
        if e.get("k") == "ret":
            out.append((b, i, e))
    return out


def exit_preds(fn):
    """Blocks that flow into the exit block (returns and noreturn calls / fallthrough)."""
    return list(fn.blocks[fn.exit].preds)


def must_pass(fn, src_blocks, dst_blocks, via_pred, start_elem=None):
    """True iff every path from any block in src_blocks to any block in
    dst_blocks passes through an element satisfying via_pred(block, idx, elem).

    Block-granular for intermediate blocks; the source block is scanned from
    start_elem (idx) when given as {bid: idx}.
    Returns (ok, witness_path)."""
    start_elem = start_elem or {}
    hit = set()
    for b, i, e in fn.iter_elems():
        if via_pred(b, i, e):
            hit.add(b.id)
    dst = set(dst_blocks)
    # BFS avoiding `hit` blocks
    parent = {}
    dq = deque()
    for s in src_blocks:
        blk = fn.blocks[s]
        i0 = start_elem.get(s, 0)
        passes = any(via_pred(blk, i, e) for i, e in enumerate(blk.elems)
                     if e is not None and i >= i0)
        if passes:
            continue
        if s in dst and s not in start_elem:
            return False, [s]
        parent[s] = None
        dq.append(s)
    while dq:
        b = dq.popleft()
        for s in succs(fn, b):
            if s in parent:
                continue
            if s in dst and s not in hit:
                path = [s, b]
                while parent[path[-1]] is not None:
                    path.append(parent[path[-1]])
                return False, list(reversed(path))
            if s in hit:
                continue
            parent[s] = b
            dq.append(s)
    return True, None


def block_lines(fn, bid):
    b = fn.blocks[bid]
    ls = [ex.line(e) for e in b.elems if e is not None]
    if b.term:
        ls.append(b.term.get("ln", 0))
    ls = [l for l in ls if l]
    return (min(ls), max(ls)) if ls else (0, 0)


def path_lines(fn, path):
    out = []
    for b in path:
        lo, hi = block_lines(fn, b)
        if lo:
            out.append("%d" % lo)
    return out
