"""E-SH: a POSIX shell parser (words with quoting structure, commands, compound commands) sufficient for the
scripts in src/scripts, and helpers for quoting/taint rules.

Word parts:
  ("lit", text)                       unquoted literal text
  ("esc", c)                          backslash-escaped character outside quotes
  ("sq", text)                        '...'
  ("dq", [parts])                     "..." (parts: lit / esc / param / cmdsub)
  ("param", name, op, word|None)      $name, ${name}, ${name<op>word}
  ("cmdsub", list_ast, style)         $(...) or `...`
  ("arith", text)
Every part is followed by its line number as last element.
"""


class ShSyntaxError(Exception):
    pass


RESERVED = {"if", "then", "elif", "else", "fi", "while", "until", "do", "done", "for", "in", "case", "esac", "{", "}",
            "!"}
SPECIAL_PARAMS = "@*#?-$!0123456789"


class Word:
    def __init__(self, parts, line):
        self.parts = parts
        self.line = line

    def is_plain(self):
        return len(self.parts) == 1 and self.parts[0][0] == "lit"

    def plain(self):
        return self.parts[0][1] if self.is_plain() else None

    def text(self):
        return unparse_parts(self.parts)

    def __repr__(self):
        return "Word(%r)" % self.text()


def unparse_parts(parts):
    out = []
    for p in parts:
        k = p[0]
        if k == "lit":
            out.append(p[1])
        elif k == "esc":
            out.append("\\" + p[1])
        elif k == "sq":
            out.append("'" + p[1] + "'")
        elif k == "dq":
            out.append('"' + unparse_parts(p[1]) + '"')
        elif k == "param":
            if p[2] is None and p[3] is None:
                out.append("$" + p[1] if len(p[1]) == 1 or p[1].isidentifier() else "${" + p[1] + "}")
            else:
                out.append("${" + p[1] + (p[2] or "") + (unparse_parts(p[3].parts) if p[3] is not None else "") + "}")
        elif k == "cmdsub":
            out.append("$(...)")
        elif k == "arith":
            out.append("$((" + p[1] + "))")
    return "".join(out)


class Parser:
    def __init__(self, text, line0=1):
        self.s = text
        self.i = 0
        self.line = line0

    # ------------------------------------------------------------------ low level
    def peek(self, n=1):
        return self.s[self.i:self.i + n]

    def eof(self):
        return self.i >= len(self.s)

    def adv(self, n=1):
        for c in self.s[self.i:self.i + n]:
            if c == "\n":
                self.line += 1
        self.i += n

    def skip_blank(self):
        while not self.eof():
            c = self.peek()
            if c in " \t":
                self.adv()
            elif c == "\\" and self.peek(2) == "\\\n":
                self.adv(2)
            elif c == "#":
                while not self.eof() and self.peek() != "\n":
                    self.adv()
            else:
                break

    def skip_newlines(self):
        while True:
            self.skip_blank()
            if self.peek() == "\n":
                self.adv()
            else:
                break

    # ------------------------------------------------------------------ words
    META = " \t\n;&|<>()"

    def at_word_start(self):
        return not self.eof() and self.peek() not in self.META

    def read_param(self, in_dq):
        """At '$'.  Returns a part or a literal '$'."""
        ln = self.line
        self.adv()
        c = self.peek()
        if c == "(":
            if self.peek(2) == "((":
                # arithmetic
                depth = 0
                j = self.i
                start = self.i + 2
                while j < len(self.s):
                    if self.s[j] == "(":
                        depth += 1
                    elif self.s[j] == ")":
                        depth -= 1
                        if depth == 0:
                            break
                    j += 1
                txt = self.s[start:j - 1]
                self.adv(j + 1 - self.i)
                return ("arith", txt, ln)
            self.adv()
            sub = self.parse_list({")"})
            self.skip_newlines()
            if self.peek() != ")":
                raise ShSyntaxError("line %d: unterminated $(" % ln)
            self.adv()
            return ("cmdsub", sub, "$(", ln)
        if c == "{":
            self.adv()
            j = self.i
            if self.peek() == "#" and self.s[self.i + 1:self.i + 2] not in ("}", ""):
                # ${#name}
                self.adv()
                name = self._name()
                if self.peek() != "}":
                    raise ShSyntaxError("line %d: bad ${#" % ln)
                self.adv()
                return ("param", name, "#len", None, ln)
            name = self._name()
            if self.peek() == "}":
                self.adv()
                return ("param", name, None, None, ln)
            op = None
            for cand in (":-", ":=", ":?", ":+", "##", "%%", "-", "=", "?", "+", "#", "%"):
                if self.peek(len(cand)) == cand:
                    op = cand
                    break
            if op is None:
                raise ShSyntaxError("line %d: bad parameter expansion" % ln)
            self.adv(len(op))
            w = self.read_word_until("}", in_dq)
            if self.peek() != "}":
                raise ShSyntaxError("line %d: unterminated ${" % ln)
            self.adv()
            return ("param", name, op, w, ln)
        if c and (c.isalpha() or c == "_"):
            name = self._name()
            return ("param", name, None, None, ln)
        if c and c in SPECIAL_PARAMS:
            self.adv()
            return ("param", c, None, None, ln)
        return ("lit", "$", ln)

    def _name(self):
        j = self.i
        c = self.peek()
        if c and c in SPECIAL_PARAMS and not c.isalpha():
            self.adv()
            return c
        while j < len(self.s) and (self.s[j].isalnum() or self.s[j] == "_"):
            j += 1
        name = self.s[self.i:j]
        if not name:
            raise ShSyntaxError("line %d: parameter name expected" % self.line)
        self.adv(j - self.i)
        return name

    def read_backquote(self):
        ln = self.line
        self.adv()
        buf = []
        while True:
            if self.eof():
                raise ShSyntaxError("line %d: unterminated backquote" % ln)
            c = self.peek()
            if c == "`":
                self.adv()
                break
            if c == "\\" and self.s[self.i + 1:self.i + 2] in ("`", "\\", "$"):
                buf.append(self.s[self.i + 1])
                self.adv(2)
                continue
            buf.append(c)
            self.adv()
        sub = Parser("".join(buf), ln).parse_program()
        return ("cmdsub", sub, "`", ln)

    def read_dq(self):
        ln = self.line
        self.adv()
        parts = []
        buf = []

        def flush():
            if buf:
                parts.append(("lit", "".join(buf), self.line))
                del buf[:]
        while True:
            if self.eof():
                raise ShSyntaxError("line %d: unterminated double quote" % ln)
            c = self.peek()
            if c == '"':
                self.adv()
                break
            if c == "\\":
                nxt = self.s[self.i + 1:self.i + 2]
                if nxt in ("$", "`", '"', "\\"):
                    flush()
                    parts.append(("esc", nxt, self.line))
                    self.adv(2)
                    continue
                if nxt == "\n":
                    self.adv(2)
                    continue
                buf.append(c)
                self.adv()
                continue
            if c == "$":
                flush()
                parts.append(self.read_param(True))
                continue
            if c == "`":
                flush()
                parts.append(self.read_backquote())
                continue
            buf.append(c)
            self.adv()
        flush()
        return ("dq", parts, ln)

    def read_word_until(self, closer, in_dq):
        """Word inside ${...}: up to the unquoted closer."""
        ln = self.line
        parts = []
        buf = []

        def flush():
            if buf:
                parts.append(("lit", "".join(buf), self.line))
                del buf[:]
        while True:
            if self.eof():
                raise ShSyntaxError("line %d: unterminated ${" % ln)
            c = self.peek()
            if c == closer:
                break
            if c == "\\":
                flush()
                parts.append(("esc", self.s[self.i + 1:self.i + 2], self.line))
                self.adv(2)
            elif c == "'" and not in_dq:
                flush()
                parts.append(self.read_sq())
            elif c == '"':
                flush()
                parts.append(self.read_dq())
            elif c == "$":
                flush()
                parts.append(self.read_param(in_dq))
            elif c == "`":
                flush()
                parts.append(self.read_backquote())
            else:
                buf.append(c)
                self.adv()
        flush()
        return Word(parts, ln)

    def read_sq(self):
        ln = self.line
        self.adv()
        j = self.s.find("'", self.i)
        if j < 0:
            raise ShSyntaxError("line %d: unterminated single quote" % ln)
        txt = self.s[self.i:j]
        self.adv(j + 1 - self.i)
        return ("sq", txt, ln)

    def read_word(self):
        ln = self.line
        parts = []
        buf = []

        def flush():
            if buf:
                parts.append(("lit", "".join(buf), self.line))
                del buf[:]
        while not self.eof():
            c = self.peek()
            if c in self.META:
                break
            if c == "\\":
                if self.peek(2) == "\\\n":
                    self.adv(2)
                    continue
                flush()
                parts.append(("esc", self.s[self.i + 1:self.i + 2], self.line))
                self.adv(2)
            elif c == "'":
                flush()
                parts.append(self.read_sq())
            elif c == '"':
                flush()
                parts.append(self.read_dq())
            elif c == "$":
                flush()
                parts.append(self.read_param(False))
            elif c == "`":
                flush()
                parts.append(self.read_backquote())
            else:
                buf.append(c)
                self.adv()
        flush()
        return Word(parts, ln)

    # ------------------------------------------------------------------ grammar
    def peek_reserved(self):
        """Reserved word at the current position (command position), without consuming."""
        self.skip_blank()
        save = (self.i, self.line)
        if not self.at_word_start():
            return None
        w = self.read_word()
        self.i, self.line = save
        p = w.plain()
        return p if p in RESERVED else None

    def expect_reserved(self, name):
        self.skip_newlines()
        w = self.read_word() if self.at_word_start() else None
        if w is None or w.plain() != name:
            raise ShSyntaxError("line %d: expected %s, got %s" % (self.line, name, w.text() if w else repr(self.peek(5))))

    def parse_program(self):
        lst = self.parse_list(set())
        self.skip_newlines()
        if not self.eof():
            raise ShSyntaxError("line %d: unexpected %r" % (self.line, self.peek(10)))
        return lst

    def at_terminator(self, terms):
        self.skip_blank()
        if self.eof():
            return True
        c = self.peek()
        if c == ")" and ")" in terms:
            return True
        if self.peek(2) == ";;" and ";;" in terms:
            return True
        r = self.peek_reserved()
        if r is not None and r in terms:
            return True
        if c == "}" and "}" in terms and r == "}":
            return True
        return False

    def parse_list(self, terms):
        items = []
        ln = self.line
        while True:
            self.skip_newlines()
            if self.at_terminator(terms):
                break
            if self.peek() == ")":
                break
            items.append(self.parse_and_or(terms))
            self.skip_blank()
            if self.peek(2) == ";;":
                break
            c = self.peek()
            if c == ";" or c == "&" and self.peek(2) != "&&":
                if c == "&":
                    items[-1]["async"] = True
                self.adv()
            elif c == "\n":
                self.adv()
            elif self.eof() or c == ")":
                break
            else:
                if self.at_terminator(terms):
                    break
                raise ShSyntaxError("line %d: unexpected %r" % (self.line, self.peek(10)))
        return {"t": "list", "items": items, "line": ln}

    def parse_and_or(self, terms):
        ln = self.line
        items = [(None, self.parse_pipeline(terms))]
        while True:
            self.skip_blank()
            op = self.peek(2)
            if op in ("&&", "||"):
                self.adv(2)
                self.skip_newlines()
                items.append((op, self.parse_pipeline(terms)))
            else:
                break
        return {"t": "andor", "items": items, "line": ln}

    def parse_pipeline(self, terms):
        ln = self.line
        neg = False
        if self.peek_reserved() == "!":
            self.read_word()
            neg = True
        cmds = [self.parse_command(terms)]
        while True:
            self.skip_blank()
            if self.peek() == "|" and self.peek(2) != "||":
                self.adv()
                self.skip_newlines()
                cmds.append(self.parse_command(terms))
            else:
                break
        return {"t": "pipeline", "cmds": cmds, "neg": neg, "line": ln}

    def parse_redirect(self):
        """At a possible redirection.  Returns (fd, op, target Word) or None."""
        self.skip_blank()
        save = (self.i, self.line)
        j = self.i
        while j < len(self.s) and self.s[j].isdigit():
            j += 1
        fd = self.s[self.i:j]
        rest = self.s[j:j + 3]
        op = None
        for cand in ("<<-", "<<", ">>", ">&", "<&", "<>", ">|", ">", "<"):
            if rest.startswith(cand):
                op = cand
                break
        if op is None:
            return None
        if fd and j == self.i:
            return None
        self.adv(j - self.i + len(op))
        self.skip_blank()
        if not self.at_word_start():
            raise ShSyntaxError("line %d: redirection target expected" % self.line)
        w = self.read_word()
        return (fd or None, op, w)

    def parse_redirects(self):
        out = []
        while True:
            r = self.parse_redirect()
            if r is None:
                break
            out.append(r)
        return out

    def parse_command(self, terms):
        self.skip_blank()
        ln = self.line
        c = self.peek()
        r = self.peek_reserved()
        node = None
        if c == "(":
            self.adv()
            body = self.parse_list({")"})
            self.skip_newlines()
            if self.peek() != ")":
                raise ShSyntaxError("line %d: ) expected for subshell opened at line %d" % (self.line, ln))
            self.adv()
            node = {"t": "subshell", "body": body, "line": ln}
        elif r == "{":
            self.read_word()
            body = self.parse_list({"}"})
            self.expect_reserved("}")
            node = {"t": "group", "body": body, "line": ln}
        elif r == "if":
            self.read_word()
            clauses = []
            cond = self.parse_list({"then"})
            self.expect_reserved("then")
            body = self.parse_list({"elif", "else", "fi"})
            clauses.append((cond, body))
            els = None
            while True:
                self.skip_newlines()
                k = self.peek_reserved()
                if k == "elif":
                    self.read_word()
                    cond = self.parse_list({"then"})
                    self.expect_reserved("then")
                    body = self.parse_list({"elif", "else", "fi"})
                    clauses.append((cond, body))
                elif k == "else":
                    self.read_word()
                    els = self.parse_list({"fi"})
                else:
                    break
            self.expect_reserved("fi")
            node = {"t": "if", "clauses": clauses, "else": els, "line": ln}
        elif r in ("while", "until"):
            self.read_word()
            cond = self.parse_list({"do"})
            self.expect_reserved("do")
            body = self.parse_list({"done"})
            self.expect_reserved("done")
            node = {"t": r, "cond": cond, "body": body, "line": ln}
        elif r == "for":
            self.read_word()
            self.skip_blank()
            var = self.read_word().plain()
            self.skip_blank()
            words = None
            # optional `in words`
            save = (self.i, self.line)
            self.skip_newlines()
            if self.peek_reserved() == "in":
                self.read_word()
                words = []
                while True:
                    self.skip_blank()
                    if self.at_word_start():
                        words.append(self.read_word())
                    else:
                        break
            else:
                self.i, self.line = save
            self.skip_blank()
            if self.peek() == ";":
                self.adv()
            self.expect_reserved("do")
            body = self.parse_list({"done"})
            self.expect_reserved("done")
            node = {"t": "for", "var": var, "words": words, "body": body, "line": ln}
        elif r == "case":
            self.read_word()
            self.skip_blank()
            word = self.read_word()
            self.expect_reserved("in")
            arms = []
            while True:
                self.skip_newlines()
                if self.peek_reserved() == "esac":
                    break
                if self.peek() == "(":
                    self.adv()
                pats = []
                while True:
                    self.skip_blank()
                    pats.append(self.read_pattern())
                    self.skip_blank()
                    if self.peek() == "|":
                        self.adv()
                        self.skip_newlines()
                        continue
                    break
                if self.peek() != ")":
                    raise ShSyntaxError("line %d: ) expected after case pattern" % self.line)
                self.adv()
                aln = self.line
                body = self.parse_list({";;", "esac"})
                self.skip_newlines()
                if self.peek(2) == ";;":
                    self.adv(2)
                arms.append((pats, body, aln))
            self.expect_reserved("esac")
            node = {"t": "case", "word": word, "arms": arms, "line": ln}
        if node is not None:
            node["redirs"] = self.parse_redirects()
            return node
        # simple command
        assigns, words, redirs = [], [], []
        while True:
            self.skip_blank()
            rd = self.parse_redirect()
            if rd is not None:
                redirs.append(rd)
                continue
            if not self.at_word_start():
                break
            save = (self.i, self.line)
            # assignment?
            if not words:
                j = self.i
                while j < len(self.s) and (self.s[j].isalnum() or self.s[j] == "_"):
                    j += 1
                if j > self.i and self.s[j:j + 1] == "=" and not self.s[self.i].isdigit():
                    name = self.s[self.i:j]
                    self.adv(j + 1 - self.i)
                    val = self.read_word() if self.at_word_start() else Word([], self.line)
                    assigns.append((name, val))
                    continue
            w = self.read_word()
            words.append(w)
        if not assigns and not words and not redirs:
            raise ShSyntaxError("line %d: command expected, got %r" % (self.line, self.peek(10)))
        return {"t": "simple", "assigns": assigns, "words": words, "redirs": redirs, "line": ln}

    def read_pattern(self):
        """A case pattern: like a word, but '(' is not allowed and ')' / '|' terminate."""
        ln = self.line
        parts = []
        buf = []

        def flush():
            if buf:
                parts.append(("lit", "".join(buf), self.line))
                del buf[:]
        while not self.eof():
            c = self.peek()
            if c in " \t\n)|":
                break
            if c == "\\":
                if self.peek(2) == "\\\n":
                    self.adv(2)
                    continue
                flush()
                parts.append(("esc", self.s[self.i + 1:self.i + 2], self.line))
                self.adv(2)
            elif c == "'":
                flush()
                parts.append(self.read_sq())
            elif c == '"':
                flush()
                parts.append(self.read_dq())
            elif c == "$":
                flush()
                parts.append(self.read_param(False))
            elif c == "[":
                # bracket expression: copy verbatim up to the closing bracket
                j = self.i + 1
                if self.s[j:j + 1] in ("!", "^"):
                    j += 1
                if self.s[j:j + 1] == "]":
                    j += 1
                while j < len(self.s) and self.s[j] != "]":
                    j += 1
                buf.append(self.s[self.i:j + 1])
                self.adv(j + 1 - self.i)
            else:
                buf.append(c)
                self.adv()
        flush()
        return Word(parts, ln)


def parse(text):
    return Parser(text).parse_program()


# ---------------------------------------------------------------------------------------------------------------
def walk_commands(node, ctx=()):
    """Yield (command node, ancestors) for every command in the AST, recursing into command substitutions."""
    t = node["t"]
    if t == "list":
        for it in node["items"]:
            yield from walk_commands(it, ctx)
    elif t == "andor":
        for op, p in node["items"]:
            yield from walk_commands(p, ctx + (node,))
    elif t == "pipeline":
        for c in node["cmds"]:
            yield from walk_commands(c, ctx + (node,))
    elif t == "simple":
        yield node, ctx
        for w in words_of(node):
            yield from _walk_word_cmds(w, ctx + (node,))
    else:
        yield node, ctx
        sub = ctx + (node,)
        if t in ("subshell", "group"):
            yield from walk_commands(node["body"], sub)
        elif t == "if":
            for c, b in node["clauses"]:
                yield from walk_commands(c, sub)
                yield from walk_commands(b, sub)
            if node["else"] is not None:
                yield from walk_commands(node["else"], sub)
        elif t in ("while", "until"):
            yield from walk_commands(node["cond"], sub)
            yield from walk_commands(node["body"], sub)
        elif t == "for":
            for w in node["words"] or []:
                yield from _walk_word_cmds(w, sub)
            yield from walk_commands(node["body"], sub)
        elif t == "case":
            yield from _walk_word_cmds(node["word"], sub)
            for pats, body, ln in node["arms"]:
                yield from walk_commands(body, sub)
        for (fd, op, w) in node.get("redirs", []):
            yield from _walk_word_cmds(w, sub)


def words_of(cmd):
    out = [v for (n, v) in cmd["assigns"]] + list(cmd["words"]) + [w for (fd, op, w) in cmd["redirs"]]
    return out


def _walk_word_cmds(word, ctx):
    for p in iter_parts(word.parts):
        if p[0] == "cmdsub":
            yield from walk_commands(p[1], ctx + ({"t": "cmdsub", "part": p},))


def iter_parts(parts, in_dq=False):
    """All parts, recursively (into dq and ${..word..}; not into command substitutions)."""
    for p in parts:
        yield p
        if p[0] == "dq":
            yield from iter_parts(p[1], True)
        elif p[0] == "param" and p[3] is not None:
            yield from iter_parts(p[3].parts, in_dq)


def iter_parts_q(parts, quoted=False):
    """(part, quoted?) for every part; quoted = inside double quotes (also for nested ${x+"..."} words)."""
    for p in parts:
        yield p, quoted
        if p[0] == "dq":
            yield from iter_parts_q(p[1], True)
        elif p[0] == "param" and p[3] is not None:
            yield from iter_parts_q(p[3].parts, quoted)


def static_value(word):
    """The string a word evaluates to if it contains no expansions, else None."""
    out = []
    for p in word.parts:
        if p[0] in ("lit", "sq"):
            out.append(p[1])
        elif p[0] == "esc":
            out.append(p[1])
        elif p[0] == "dq":
            for q in p[1]:
                if q[0] in ("lit", "esc"):
                    out.append(q[1])
                else:
                    return None
        else:
            return None
    return "".join(out)
