"""E-RET: interprocedural sets of lzma_ret enumerators a function may return.

Path-sensitive inside each function (E-FD over its lzma_ret-typed locals, so the
`return_if_error` idiom and `if (ret != LZMA_STREAM_END) return ret;` refine the
sets), flow-insensitive summaries for lzma_ret-typed record fields and parameters,
indirect calls through slots, and call-site specialisation on pointer parameters
that the callee compares with NULL (lzma_vli_decode/encode single- vs multi-call).
"""
from . import ex, fd

NONNULL = 999999999


class RetSets:
    def __init__(self, prog, cg, enum_name="lzma_ret", ret_type="lzma_ret"):
        self.prog = prog
        self.cg = cg
        self.enum = prog.enum(enum_name)
        self.all = frozenset(self.enum.values())
        self.ret_type = ret_type
        self.sets = {}       # function name -> frozenset (all contexts)
        self.spec = {}       # (function name, ctx) -> frozenset
        self.fieldsets = {}
        self.paramsets = {}
        self.nullparams = {}  # function name -> [(index, param name)]
        self._solve()

    def _is_ret_fn(self, f):
        return f.ret.replace("const ", "").strip() in (self.ret_type, "enum " + self.ret_type)

    # ---- call evaluation ---------------------------------------------------
    def _targets(self, c, f):
        fn = c.get("fn")
        if fn:
            return [fn]
        cal = ex.strip(c.get("callee"))
        if cal is not None and cal.get("k") == "un" and cal["op"] == "*":
            cal = ex.strip(cal["e"])
        fk = ex.field_key(cal)
        if fk:
            if fk == ("lzma_next_coder_s", "code") and f is not None:
                nt = self.cg.narrow_code_targets(f, c)
                if nt:
                    return sorted(nt)
            return sorted(self.cg.slot_targets(fk)) or None
        if cal is not None and cal.get("k") == "var" and f is not None and cal.get("s") == "p":
            ts = self.cg.slot_targets(("param", f.name, cal["n"]))
            return sorted(ts) or None
        return None

    def _ctx_of_call(self, name, c):
        nps = self.nullparams.get(name)
        if not nps:
            return [()]
        opts = [[]]
        for idx, pn in nps:
            a = ex.strip(c["args"][idx]) if idx < len(c["args"]) else None
            if a is not None and ex.is_const(a, 0):
                vals = ["null"]
            elif a is not None and a.get("k") == "un" and a["op"] == "&":
                vals = ["nonnull"]
            else:
                vals = ["null", "nonnull"]
            opts = [o + [(pn, v)] for o in opts for v in vals]
        return [tuple(o) for o in opts]

    def call_set(self, c, f=None):
        ts = self._targets(c, f)
        if ts is None:
            return self.all
        out = frozenset()
        for t in ts:
            if not self.prog.functions.get(t):
                return self.all
            if t not in self.sets:
                return self.all       # not an lzma_ret function
            if c.get("fn") and self.nullparams.get(t):
                for ctx in self._ctx_of_call(t, c):
                    out |= self.spec.get((t, ctx), frozenset())
            else:
                out |= self.sets[t]
        return out

    # ---- solver ---------------------------------------------------------------
    def _find_nullparams(self, f):
        out = []
        ptr = {p["n"]: i for i, p in enumerate(f.params) if "*" in p["ty"]}
        if not ptr:
            return out
        hit = set()
        for b in f.blocks.values():
            if b.term and "cond" in b.term:
                c = ex.strip(b.term["cond"])
                while c is not None and c.get("k") == "un" and c["op"] == "!":
                    c = ex.strip(c["e"])
                if c is None:
                    continue
                if c.get("k") == "bin" and c["op"] in ("==", "!="):
                    l, r = ex.strip(c["l"]), ex.strip(c["r"])
                    for x, y in ((l, r), (r, l)):
                        if x is not None and x.get("k") == "var" and x["n"] in ptr and ex.is_const(y, 0):
                            hit.add(x["n"])
        # keep only parameters that are also re-assigned in the body (mode switch)
        assigned = set()
        for b, i, e in f.iter_elems():
            for (l, r, op, node) in ex.writes(e):
                ls = ex.strip(l)
                if ls is not None and ls.get("k") == "var" and ls["n"] in hit:
                    assigned.add(ls["n"])
        for n in sorted(hit & assigned):
            out.append((ptr[n], n))
        return out

    def _run_fn(self, f, ctx):
        names = sorted({v["n"] for v in f.vars if not v.get("param") and "lzma_ret" in v["ty"]})
        keys = [fd.Key("var", nm, domain=self.all, label=nm) for nm in names]
        keys.append(fd.Key("retval", "$ret", label="$ret"))
        for pn, v in ctx:
            keys.append(fd.Key("var", pn, label=pn))

        def cv(c, s):
            return self.call_set(c, f)

        g = fd.FD(self.prog, f, keys, cg=self.cg, call_values=cv, split=40)
        g.value_hook = lambda n: self._value(f, n)
        st = g.make_state(**{"$ret": [-999]})
        for pn, v in ctx:
            st = g.state_with(st, pn, [0] if v == "null" else [NONNULL])
        g.run([st])
        for (kind, key, r, bid, i) in self.fn_sites.get(f.key, ()):
            tgt = self.fieldsets if kind == "f" else self.paramsets
            vals = frozenset()
            for s_ in g.states_before_elem(bid, i):
                v = g.aeval(r, s_)
                if v is None:
                    vals = self.all
                    break
                vals |= v
            vals = frozenset(x for x in vals if x in self.all) if vals is not self.all else vals
            new = tgt[key] | vals
            if new != tgt[key]:
                tgt[key] = new
                self._misc_changed = True
        out = set()
        for node in g.nodes:
            if node[0] == f.exit:
                rv = g.get(node[1], "$ret")
                if rv is None:
                    return self.all
                out |= set(rv)
        out.discard(-999)
        return frozenset(out)

    def _value(self, f, n):
        """Abstract value of non-tracked lzma_ret-typed reads (fields, parameters)."""
        k = n.get("k")
        if k == "mem":
            fk = ex.field_key(n)
            if fk in self.fieldsets:
                return self.fieldsets[fk]
        if k == "var" and n.get("s") == "p":
            ps = self.paramsets.get((f.name, n["n"]))
            if ps is not None:
                return ps
        return None

    def _solve(self):
        allfns = list(self.prog.all_functions())
        fns = [f for f in allfns if self._is_ret_fn(f)]
        for f in fns:
            self.sets.setdefault(f.name, frozenset())
            np_ = self._find_nullparams(f)
            if np_:
                self.nullparams[f.name] = np_
        for r in self.prog.records.values():
            for fl in r["fields"]:
                if "lzma_ret" in fl["ty"] and "(" not in fl["ty"]:
                    self.fieldsets[(r["name"], fl["n"])] = frozenset()
        retparams = {}
        for f in allfns:
            for idx, pr in enumerate(f.params):
                if pr["ty"].replace("const ", "").strip() == "lzma_ret":
                    retparams.setdefault(f.name, []).append((idx, pr["n"]))
                    self.paramsets[(f.name, pr["n"])] = frozenset()
        self.retparams = retparams

        def contexts(name):
            nps = self.nullparams.get(name)
            if not nps:
                return [()]
            opts = [[]]
            for idx, pn in nps:
                opts = [o + [(pn, v)] for o in opts for v in ("null", "nonnull")]
            return [tuple(o) for o in opts]

        # sites that write lzma_ret fields / pass lzma_ret parameters
        fsites = []
        self.fn_sites = {}
        for f in allfns:
            for b, i, e in f.iter_elems():
                for (l, r, op, node) in ex.writes(e):
                    fk = ex.field_key(l)
                    if fk in self.fieldsets and r is not None:
                        self.fn_sites.setdefault(f.key, []).append(("f", fk, r, b.id, i))
                for c in ex.calls(e, into_refs=False):
                    if c.get("fn") in retparams:
                        for idx, pn in retparams[c["fn"]]:
                            if idx < len(c["args"]):
                                self.fn_sites.setdefault(f.key, []).append(
                                    ("p", (c["fn"], pn), c["args"][idx], b.id, i))
        site_fns = [f for f in allfns if f.key in self.fn_sites and not self._is_ret_fn(f)]

        self._misc_changed = False
        changed = True
        rounds = 0
        deps = {}
        for f in fns:
            deps[f.name] = set(self.cg.name_callees.get(f.name, ())) | {f.name}
        changed_names = None          # None = everything
        while changed and rounds < 60:
            changed = False
            rounds += 1
            misc_changed = self._misc_changed
            self._misc_changed = False
            now_changed = set()
            for f in site_fns:
                self._run_fn(f, ())
            for f in fns:
                if changed_names is not None and not misc_changed \
                        and not (deps[f.name] & changed_names):
                    continue
                tot = frozenset()
                for ctx in contexts(f.name):
                    r = self._run_fn(f, ctx) | self.spec.get((f.name, ctx), frozenset())
                    if self.spec.get((f.name, ctx)) != r:
                        self.spec[(f.name, ctx)] = r
                        changed = True
                        now_changed.add(f.name)
                    tot |= r
                tot |= self.sets[f.name]
                if tot != self.sets[f.name]:
                    self.sets[f.name] = tot
                    changed = True
                    now_changed.add(f.name)
            changed_names = now_changed
            if self._misc_changed:
                changed = True
        self.rounds = rounds

    def _flat(self, f, n, depth=0):
        """Flow-insensitive value set of an lzma_ret expression (for field/param summaries)."""
        n = ex.strip(n)
        if n is None or depth > 6:
            return self.all
        k = n.get("k")
        if k in ("const", "enum"):
            return frozenset([n["v"]])
        if k == "call":
            return self.call_set(n, f)
        if k == "cond":
            return self._flat(f, n["t"], depth + 1) | self._flat(f, n["f"], depth + 1)
        if k == "mem":
            fk = ex.field_key(n)
            if fk in self.fieldsets:
                return self.fieldsets[fk]
            return self.all
        if k == "var":
            if n.get("s") == "p":
                ps = self.paramsets.get((f.name, n["n"]))
                return ps if ps is not None else self.all
            if n.get("s") == "l":
                out = frozenset()
                found = False
                for b, i, e in f.iter_elems():
                    for (l, r, op, node) in ex.writes(e):
                        ls = ex.strip(l)
                        if ls is not None and ls.get("k") == "var" and ls.get("id") == n.get("id"):
                            found = True
                            if r is None or op != "=":
                                return self.all
                            rr = ex.strip(r)
                            if rr is not None and rr.get("k") == "var" and rr.get("id") == n.get("id"):
                                continue
                            out |= self._flat(f, r, depth + 1)
                return out if found else self.all
        return self.all

    def of(self, name):
        return self.sets.get(name)

    def names(self, vals):
        inv = {v: k for k, v in self.enum.items()}
        return sorted(inv.get(v, str(v)) for v in vals)
