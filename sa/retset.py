"""E-RET: interprocedural sets of lzma_ret enumerators a function may return."""
from . import ex


class RetSets:
    def __init__(self, prog, cg, enum_name="lzma_ret", ret_type="lzma_ret"):
        self.prog = prog
        self.cg = cg
        self.enum = prog.enum(enum_name)
        self.all = frozenset(self.enum.values())
        self.ret_type = ret_type
        self.sets = {}      # function name -> frozenset
        self._solve()

    def _is_ret_fn(self, f):
        return f.ret.replace("const ", "").strip() in (self.ret_type, "enum " + self.ret_type)

    def _expr(self, f, n, varsets, depth=0):
        n = ex.strip(n)
        if n is None or depth > 8:
            return self.all
        k = n.get("k")
        if k in ("const", "enum"):
            return frozenset([n["v"]])
        if k == "var":
            if n.get("s") in ("l",) and n.get("id") in varsets:
                return varsets[n["id"]]
            return self.all
        if k == "cond":
            return self._expr(f, n["t"], varsets, depth + 1) | self._expr(f, n["f"], varsets, depth + 1)
        if k == "call":
            return self.call_set(n)
        if k == "asg" and n["op"] == "=":
            return self._expr(f, n["r"], varsets, depth + 1)
        if k == "bin" and n["op"] == ",":
            return self._expr(f, n["r"], varsets, depth + 1)
        return self.all

    def call_set(self, c):
        fn = c.get("fn")
        if fn:
            if fn in self.sets:
                return self.sets[fn]
            if self.prog.functions.get(fn):
                return self.sets.get(fn, frozenset())
            return self.all
        cal = ex.strip(c.get("callee"))
        if cal is not None and cal.get("k") == "un" and cal["op"] == "*":
            cal = ex.strip(cal["e"])
        fk = ex.field_key(cal)
        if fk is None and cal is not None and cal.get("k") == "var":
            return self.all
        if fk:
            ts = self.cg.slot_targets(fk)
            if not ts:
                return self.all
            out = frozenset()
            for t in ts:
                out |= self.sets.get(t, frozenset()) if self.prog.functions.get(t) else self.all
            return out
        return self.all

    def _solve(self):
        fns = [f for f in self.prog.all_functions() if self._is_ret_fn(f)]
        for f in fns:
            self.sets.setdefault(f.name, frozenset())
        changed = True
        rounds = 0
        while changed and rounds < 50:
            changed = False
            rounds += 1
            for f in fns:
                # flow-insensitive value sets of lzma_ret-typed locals
                varsets = {}
                retvars = {v["id"] for v in f.vars
                           if not v.get("param") and "lzma_ret" in v["ty"]}
                for _ in range(3):
                    for b, i, e in f.iter_elems():
                        for (l, r, op, node) in ex.writes(e):
                            ls = ex.strip(l)
                            if ls is not None and ls.get("k") == "var" and ls.get("id") in retvars:
                                if r is None:
                                    varsets[ls["id"]] = self.all
                                else:
                                    cur = varsets.get(ls["id"], frozenset())
                                    varsets[ls["id"]] = cur | self._expr(f, r, varsets)
                for vid in retvars:
                    varsets.setdefault(vid, frozenset())
                out = frozenset()
                for b, i, e in f.iter_elems():
                    if e.get("k") == "ret" and e.get("e") is not None:
                        out |= self._expr(f, e["e"], varsets)
                new = self.sets[f.name] | out
                if new != self.sets[f.name]:
                    self.sets[f.name] = new
                    changed = True

    def of(self, name):
        return self.sets.get(name)

    def names(self, vals):
        inv = {v: k for k, v in self.enum.items()}
        return sorted(inv.get(v, str(v)) for v in vals)
