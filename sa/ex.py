"""Expression-tree helpers over the xzfacts JSON nodes."""

CHILD_KEYS = ("b", "i", "e", "l", "r", "c", "t_", "f_", "callee", "init")


def deref(n):
    """Follow element references."""
    while isinstance(n, dict) and n.get("k") == "eref":
        n = n.get("tgt")
    return n


def strip(n):
    """Strip element references and explicit casts."""
    while isinstance(n, dict):
        k = n.get("k")
        if k == "eref":
            n = n.get("tgt")
        elif k == "cast":
            n = n["e"]
        else:
            break
    return n


def children(n, into_refs=True):
    n0 = n
    k = n.get("k")
    if k == "eref":
        if into_refs and n.get("tgt") is not None:
            yield n["tgt"]
        return
    if k in ("const", "enum", "str", "var", "zero", "float"):
        return
    if k == "mem":
        yield n["b"]
    elif k == "idx":
        yield n["b"]
        yield n["i"]
    elif k == "call":
        if "callee" in n:
            yield n["callee"]
        for a in n["args"]:
            yield a
    elif k == "un" or k == "cast" or k == "cl":
        yield n["e"]
    elif k in ("bin", "asg"):
        yield n["l"]
        yield n["r"]
    elif k == "cond":
        yield n["c"]
        yield n["t"]
        yield n["f"]
    elif k == "init":
        for a in n["e"]:
            yield a
        if "filler" in n:
            yield n["filler"]
    elif k == "decl":
        if n.get("init") is not None:
            yield n["init"]
    elif k == "decls":
        for d in n["d"]:
            yield d
    elif k == "ret":
        if n.get("e") is not None:
            yield n["e"]
    elif k == "asm":
        for a in n["outs"]:
            yield a
        for a in n["ins"]:
            yield a
    elif k in ("other", "stmtexpr"):
        for a in n.get("ch", []):
            yield a


def walk(n, into_refs=True):
    """Pre-order over all nodes of the tree (dereferenced)."""
    if n is None:
        return
    stack = [n]
    while stack:
        x = stack.pop()
        if not isinstance(x, dict):
            continue
        if x.get("k") == "eref":
            if into_refs and x.get("tgt") is not None:
                stack.append(x["tgt"])
            continue
        yield x
        cs = list(children(x, into_refs))
        stack.extend(reversed(cs))


def show(n, depth=0):
    """C-like canonical text (casts and parentheses normalised)."""
    n = deref(n)
    if n is None:
        return "?"
    if depth > 40:
        return "..."
    k = n.get("k")
    d = depth + 1
    if k == "const":
        return str(n["v"])
    if k == "enum":
        return n["n"]
    if k == "str":
        return '"%s"' % n.get("s", "<bytes>")
    if k == "var":
        return n["n"]
    if k == "mem":
        return "%s%s%s" % (show(n["b"], d), "->" if n.get("arrow") else ".", n["f"])
    if k == "idx":
        return "%s[%s]" % (show(n["b"], d), show(n["i"], d))
    if k == "call":
        fn = n.get("fn") or "(" + show(n["callee"], d) + ")"
        return "%s(%s)" % (fn, ", ".join(show(a, d) for a in n["args"]))
    if k == "un":
        op = n["op"]
        if op.startswith("post"):
            return "%s%s" % (show(n["e"], d), op[4:])
        if op.startswith("pre"):
            return "%s%s" % (op[3:], show(n["e"], d))
        return "%s%s" % (op, _paren(n["e"], d))
    if k in ("bin", "asg"):
        return "%s %s %s" % (_paren(n["l"], d), n["op"], _paren(n["r"], d))
    if k == "cond":
        return "%s ? %s : %s" % (_paren(n["c"], d), _paren(n["t"], d), _paren(n["f"], d))
    if k == "cast":
        return show(n["e"], d)
    if k == "init":
        return "{%s}" % ", ".join(show(a, d) for a in n["e"][:8])
    if k == "zero":
        return "0"
    if k == "cl":
        return "(%s)%s" % (n["ty"], show(n["e"], d))
    if k == "decl":
        if n.get("init") is not None:
            return "%s = %s" % (n["n"], show(n["init"], d))
        return "decl %s" % n["n"]
    if k == "ret":
        return "return %s" % (show(n["e"], d) if n.get("e") is not None else "")
    if k == "asm":
        return "asm(...)"
    if k == "float":
        return str(n["v"])
    return "<%s>" % n.get("cls", k)


def _paren(n, d):
    n2 = strip(n)
    s = show(n2, d)
    if n2 is not None and n2.get("k") in ("bin", "asg", "cond"):
        return "(" + s + ")"
    return s


def calls(n, into_refs=True):
    for x in walk(n, into_refs):
        if x.get("k") == "call":
            yield x


def callee_name(c):
    return c.get("fn")


def is_const(n, v=None):
    n = strip(n)
    if n is None or n.get("k") not in ("const", "enum"):
        return False
    return v is None or n["v"] == v


def const_val(n):
    n = strip(n)
    if n is not None and n.get("k") in ("const", "enum"):
        return n["v"]
    return None


def field_key(n):
    """(record, field) for a member access, else None."""
    n = strip(n)
    if n is not None and n.get("k") == "mem":
        return (n.get("rec"), n["f"])
    return None


def lvalue_root(n):
    """The innermost base variable of an lvalue expression, if any."""
    n = strip(n)
    while n is not None:
        k = n.get("k")
        if k == "mem":
            n = strip(n["b"])
        elif k == "idx":
            n = strip(n["b"])
        elif k == "un" and n["op"] in ("*", "&"):
            n = strip(n["e"])
        elif k == "var":
            return n
        else:
            return None
    return None


ASSIGN_UN = ("pre++", "pre--", "post++", "post--")


def writes(n, into_refs=False):
    """Yield (lvalue node, rhs node or None, op) for every store in the tree."""
    for x in walk(n, into_refs):
        k = x.get("k")
        if k == "asg":
            yield (x["l"], x["r"], x["op"], x)
        elif k == "un" and x["op"] in ASSIGN_UN:
            yield (x["e"], None, x["op"], x)
        elif k == "decl" and x.get("init") is not None:
            yield ({"k": "var", "n": x["n"], "id": x.get("id"), "s": "l",
                    "ln": x.get("ln")}, x["init"], "=", x)
        elif k == "asm":
            for o in x["outs"]:
                yield (o, None, "asm", x)


def same(a, b):
    """Structural equality modulo casts/erefs/line numbers."""
    a = strip(a)
    b = strip(b)
    if a is None or b is None:
        return a is b
    ka, kb = a.get("k"), b.get("k")
    if ka in ("const", "enum") and kb in ("const", "enum"):
        return a["v"] == b["v"]
    if ka != kb:
        return False
    if ka == "var":
        return a["n"] == b["n"] and a.get("id") == b.get("id")
    if ka == "mem":
        return a["f"] == b["f"] and a.get("rec") == b.get("rec") and same(a["b"], b["b"])
    if ka == "idx":
        return same(a["b"], b["b"]) and same(a["i"], b["i"])
    if ka == "call":
        if a.get("fn") != b.get("fn"):
            return False
        if a.get("fn") is None and not same(a["callee"], b["callee"]):
            return False
        return len(a["args"]) == len(b["args"]) and all(
            same(x, y) for x, y in zip(a["args"], b["args"]))
    if ka == "un":
        return a["op"] == b["op"] and same(a["e"], b["e"])
    if ka in ("bin", "asg"):
        return a["op"] == b["op"] and same(a["l"], b["l"]) and same(a["r"], b["r"])
    if ka == "cond":
        return same(a["c"], b["c"]) and same(a["t"], b["t"]) and same(a["f"], b["f"])
    if ka == "str":
        return a.get("s") == b.get("s") and a.get("bytes") == b.get("bytes")
    return show(a) == show(b)


def contains(n, pred, into_refs=True):
    for x in walk(n, into_refs):
        if pred(x):
            return True
    return False


def reads_var(n, name=None, vid=None):
    for x in walk(n):
        if x.get("k") == "var":
            if vid is not None and x.get("id") == vid:
                return True
            if name is not None and x["n"] == name:
                return True
    return False


def line(n):
    n = deref(n)
    if isinstance(n, dict):
        if "ln" in n:
            return n["ln"]
        for c in children(n):
            l = line(c)
            if l:
                return l
    return 0
