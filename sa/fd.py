"""E-FD: finite-domain, path-sensitive abstract interpreter over a function CFG.

Tracked lvalues have finite value sets; the reachable (block x state) product
graph is built by a plain worklist.  Used for resumable coders (state field),
return codes, boolean flags, small integers such as the LZMA2 control byte.
"""
from collections import deque
import itertools

from . import ex
from .compdb import AnalysisBroken

MAX_NODES = 400000
ENUM_LIMIT = 4096


class Key:
    """A tracked lvalue.

    kind 'field': any member access with this field name (and record if given)
    kind 'var'  : local/parameter by name
    kind 'deref': *name (pointer parameter)
    domain: iterable of ints or None (unbounded)
    """

    def __init__(self, kind, name, rec=None, domain=None, label=None, base=None):
        self.kind = kind
        self.name = name
        self.rec = rec
        self.base = base      # optional base variable name restriction for fields
        self.domain = frozenset(domain) if domain is not None else None
        self.label = label or (("*" if kind == "deref" else "") + name)

    def matches(self, n):
        n = ex.strip(n)
        if n is None:
            return False
        k = n.get("k")
        if self.kind == "field":
            if k != "mem" or n["f"] != self.name:
                return False
            if self.rec is not None and n.get("rec") != self.rec:
                return False
            if self.base is not None:
                b = ex.strip(n["b"])
                if b is None or b.get("k") != "var" or b["n"] != self.base:
                    return False
            return True
        if self.kind == "var":
            return k == "var" and n["n"] == self.name and n.get("s") in ("l", "p")
        if self.kind == "deref":
            if k == "un" and n["op"] == "*":
                b = ex.strip(n["e"])
                return b is not None and b.get("k") == "var" and b["n"] == self.name
            return False
        return False

    def __repr__(self):
        return "Key(%s)" % self.label


class Unknown(Exception):
    pass


def _binop(op, a, b):
    if op == "+": return a + b
    if op == "-": return a - b
    if op == "*": return a * b
    if op == "/":
        if b == 0: raise Unknown()
        return int(a / b) if (a < 0) != (b < 0) else a // b
    if op == "%":
        if b == 0: raise Unknown()
        return a - b * (int(a / b) if (a < 0) != (b < 0) else a // b)
    if op == "&": return a & b
    if op == "|": return a | b
    if op == "^": return a ^ b
    if op == "<<": return a << b if 0 <= b < 64 else _unk()
    if op == ">>": return a >> b if 0 <= b < 64 else _unk()
    if op == "==": return int(a == b)
    if op == "!=": return int(a != b)
    if op == "<": return int(a < b)
    if op == "<=": return int(a <= b)
    if op == ">": return int(a > b)
    if op == ">=": return int(a >= b)
    if op == "&&": return int(bool(a) and bool(b))
    if op == "||": return int(bool(a) or bool(b))
    raise Unknown()


def _unk():
    raise Unknown()


class FD:
    def __init__(self, prog, fn, keys, cg=None, call_values=None,
                 must_assign=None, split=32, pure_calls=None, noreturn=None):
        """call_values(call node, state) -> frozenset|None : abstract result of a call.
        must_assign(call node, key) -> frozenset|None|False: value a call assigns to key
        (False = not assigned)."""
        self.prog = prog
        self.fn = fn
        self.keys = list(keys)
        self.cg = cg
        self.call_values = call_values
        self.must_assign = must_assign
        self.split = split
        self.pure_calls = pure_calls or set()
        self.noreturn = noreturn or set()
        # value of `c ? a : b` in the join block depends on the edge taken out of
        # the block that tested c: one hidden key per such block
        self.condkeys = {}
        for b in fn.blocks.values():
            if b.term and b.term.get("kind") == "ConditionalOperator" and len(b.succs) == 2:
                self.condkeys[b.id] = len(self.keys)
                self.keys.append(Key("branch", "$c%d" % b.id, domain=(0, 1), label="$c%d" % b.id))
        self.nodes = {}        # (bid, skey) -> state tuple (in-state)
        self.out = {}          # (bid, skey) -> out state
        self.edges = []        # (src node, dst node, label)
        self.succ = {}         # node -> [(dst, label)]
        self.pred = {}

    # ---- state helpers --------------------------------------------------
    def top_state(self):
        return tuple(None for _ in self.keys)

    def make_state(self, **kw):
        s = list(self.top_state())
        for i, k in enumerate(self.keys):
            if k.label in kw:
                v = kw[k.label]
                s[i] = frozenset(v) if v is not None else None
        return tuple(s)

    def state_with(self, s, key_label, values):
        s = list(s)
        for i, k in enumerate(self.keys):
            if k.label == key_label:
                s[i] = frozenset(values) if values is not None else None
        return tuple(s)

    def get(self, s, key_label):
        for i, k in enumerate(self.keys):
            if k.label == key_label:
                return s[i] if s[i] is not None else k.domain
        raise KeyError(key_label)

    def key_index(self, n):
        memo = self.__dict__.setdefault("_ki", {})
        r = memo.get(id(n), -2)
        if r != -2:
            return r
        r = None
        for i, k in enumerate(self.keys):
            if k.matches(n):
                r = i
                break
        if isinstance(n, dict) and n.get("ln") is not None or isinstance(n, dict) and n.get("k") == "eref":
            memo[id(n)] = r      # only persistent fact nodes (not temporaries) are memoised
        return r

    # ---- abstract evaluation ---------------------------------------------
    def aeval(self, n, s):
        """Return frozenset of possible values or None (unknown)."""
        n = ex.strip(n)
        if n is None:
            return None
        k = n.get("k")
        if k in ("const", "enum"):
            return frozenset([n["v"]])
        i = self.key_index(n)
        if i is not None:
            v = s[i]
            return v if v is not None else self.keys[i].domain
        hook = getattr(self, "value_hook", None)
        if hook is not None and k in ("mem", "var"):
            hv = hook(n)
            if hv is not None:
                return hv
        if k == "un" and n["op"] == "&":
            t = ex.strip(n["e"])
            if t is not None and t.get("k") == "var":
                return frozenset([1000000000 + (t.get("id") or 0) * 7 + (hash(t["n"]) % 1000) * 1000])
            return None
        if k == "un":
            a = self.aeval(n["e"], s)
            if a is None:
                return None
            op = n["op"]
            if op == "!":
                return frozenset(int(not x) for x in a)
            if op == "-":
                return frozenset(-x for x in a)
            if op == "~":
                return None
            if op == "+":
                return a
            return None
        if k == "bin":
            op = n["op"]
            if op == ",":
                return self.aeval(n["r"], s)
            a = self.aeval(n["l"], s)
            b = self.aeval(n["r"], s)
            if op == "&&":
                if a is not None and all(x == 0 for x in a):
                    return frozenset([0])
                if b is not None and all(x == 0 for x in b):
                    return frozenset([0])
            if op == "||":
                if a is not None and all(x != 0 for x in a):
                    return frozenset([1])
                if b is not None and all(x != 0 for x in b):
                    return frozenset([1])
            if a is None or b is None:
                if op in ("==", "!=", "<", "<=", ">", ">=", "&&", "||"):
                    return frozenset([0, 1])
                return None
            if len(a) * len(b) > ENUM_LIMIT:
                return None
            out = set()
            try:
                for x in a:
                    for y in b:
                        out.add(_binop(op, x, y))
            except Unknown:
                return None
            return frozenset(out)
        if k == "cond":
            cn = n["c"]
            if isinstance(cn, dict) and cn.get("k") == "eref" and cn.get("b") in self.condkeys:
                bv = s[self.condkeys[cn["b"]]]
                if bv is not None and len(bv) == 1:
                    return self.aeval(n["t"] if 1 in bv else n["f"], s)
            c = self.aeval(n["c"], s)
            t = self.aeval(n["t"], s)
            f = self.aeval(n["f"], s)
            if c is not None and all(x != 0 for x in c):
                return t
            if c is not None and all(x == 0 for x in c):
                return f
            if t is None or f is None:
                return None
            return t | f
        if k == "call":
            if self.call_values:
                return self.call_values(n, s)
            return None
        if k == "asg" and n["op"] == "=":
            return self.aeval(n["r"], s)
        return None

    # ---- condition refinement ----------------------------------------------
    def _cond_keys(self, n, acc):
        """Collect tracked key indices read by n; return False if n has a
        non-evaluable leaf."""
        n = ex.strip(n)
        if n is None:
            return False
        k = n.get("k")
        if k in ("const", "enum"):
            return True
        i = self.key_index(n)
        if i is not None:
            acc.add(i)
            return True
        if k == "un" and n["op"] in ("!", "-", "+", "~"):
            return self._cond_keys(n["e"], acc)
        if k == "bin":
            return self._cond_keys(n["l"], acc) and self._cond_keys(n["r"], acc)
        if k == "cond":
            return (self._cond_keys(n["c"], acc) and self._cond_keys(n["t"], acc)
                    and self._cond_keys(n["f"], acc))
        return False

    def _ceval(self, n, env):
        n = ex.strip(n)
        k = n.get("k")
        if k in ("const", "enum"):
            return n["v"]
        i = self.key_index(n)
        if i is not None:
            return env[i]
        if k == "un":
            a = self._ceval(n["e"], env)
            op = n["op"]
            if op == "!": return int(not a)
            if op == "-": return -a
            if op == "+": return a
            if op == "~": return ~a
            raise Unknown()
        if k == "bin":
            op = n["op"]
            a = self._ceval(n["l"], env)
            if op == "&&" and not a: return 0
            if op == "||" and a: return 1
            b = self._ceval(n["r"], env)
            return _binop(op, a, b)
        if k == "cond":
            return self._ceval(n["t"], env) if self._ceval(n["c"], env) else self._ceval(n["f"], env)
        raise Unknown()

    def refine(self, cond, s, truth):
        """State after assuming cond has the given truth; None if infeasible."""
        c = ex.strip(cond)
        if c is None:
            return s
        if c.get("k") == "un" and c["op"] == "!":
            return self.refine(c["e"], s, not truth)
        if c.get("k") == "bin" and c["op"] in ("&&", "||"):
            op = c["op"]
            if (op == "&&" and truth) or (op == "||" and not truth):
                s1 = self.refine(c["l"], s, truth)
                if s1 is None:
                    return None
                return self.refine(c["r"], s1, truth)
            # disjunctive: try both halves; if one is infeasible use the other
            a = self.refine(c["l"], s, truth)
            b = self.refine(c["r"], s, truth)
            if a is None and b is None:
                return None
            if a is None:
                return b
            if b is None:
                return a
            return tuple((x | y) if (x is not None and y is not None) else None
                         for x, y in zip(a, b))
        acc = set()
        if not self._cond_keys(c, acc) or not acc:
            v = self.aeval(c, s)
            if v is not None:
                if truth and all(x == 0 for x in v):
                    return None
                if not truth and all(x != 0 for x in v):
                    return None
            return s
        idxs = sorted(acc)
        doms = []
        for i in idxs:
            v = s[i] if s[i] is not None else self.keys[i].domain
            if v is None:
                return self._refine_unbounded(c, s, truth, i) if len(idxs) == 1 else s
            doms.append(sorted(v))
        total = 1
        for d in doms:
            total *= len(d)
        if total > ENUM_LIMIT:
            return s
        keep = [set() for _ in idxs]
        anyok = False
        for combo in itertools.product(*doms):
            env = dict(zip(idxs, combo))
            try:
                r = self._ceval(c, env)
            except Unknown:
                return s
            if bool(r) == truth:
                anyok = True
                for j, v in enumerate(combo):
                    keep[j].add(v)
        if not anyok:
            return None
        ns = list(s)
        for j, i in enumerate(idxs):
            ns[i] = frozenset(keep[j])
        return tuple(ns)

    def _refine_unbounded(self, c, s, truth, i):
        # x == const on an unbounded key
        if c.get("k") == "bin" and c["op"] in ("==", "!="):
            l, r = ex.strip(c["l"]), ex.strip(c["r"])
            cv = None
            if self.key_index(l) == i:
                cv = ex.const_val(r)
            elif self.key_index(r) == i:
                cv = ex.const_val(l)
            if cv is not None and ((c["op"] == "==") == truth):
                ns = list(s)
                ns[i] = frozenset([cv])
                return tuple(ns)
        return s

    # ---- transfer --------------------------------------------------------------
    def _assign(self, states, i, vals):
        """Assign value set to key i in each state; split small sets."""
        out = []
        if vals is None and self.keys[i].domain is not None and len(self.keys[i].domain) <= self.split:
            vals = self.keys[i].domain
        for s in states:
            if vals is not None and 1 < len(vals) <= self.split:
                for v in sorted(vals):
                    ns = list(s)
                    ns[i] = frozenset([v])
                    out.append(tuple(ns))
            else:
                ns = list(s)
                ns[i] = vals
                out.append(tuple(ns))
        return out

    def transfer_elem(self, e, states):
        """Apply one CFG element to a list of states -> list of states."""
        if e is None:
            return states
        # evaluation order inside a full expression is approximated by
        # post-order (operands first)
        nodes = list(ex.walk(e, into_refs=False))
        forget = []
        for x in reversed(nodes):
            k = x.get("k")
            if k == "cond" and self.condkeys:
                cn = x["c"]
                if isinstance(cn, dict) and cn.get("k") == "eref" and cn.get("b") in self.condkeys:
                    forget.append(self.condkeys[cn["b"]])
            if k == "asg":
                i = self.key_index(x["l"])
                if i is not None:
                    new = []
                    for s in states:
                        if x["op"] == "=":
                            v = self.aeval(x["r"], s)
                        else:
                            cur = s[i] if s[i] is not None else self.keys[i].domain
                            rv = self.aeval(x["r"], s)
                            v = None
                            if cur is not None and rv is not None and len(cur) * len(rv) <= ENUM_LIMIT:
                                try:
                                    v = frozenset(_binop(x["op"][:-1], a, b) for a in cur for b in rv)
                                except Unknown:
                                    v = None
                            dom = self.keys[i].domain
                            if v is not None and dom is not None and not v <= dom:
                                v = None
                        new.extend(self._assign([s], i, v))
                    states = new
                else:
                    states = self._havoc_aliases(x["l"], states)
            elif k == "un" and x["op"] in ex.ASSIGN_UN:
                i = self.key_index(x["e"])
                if i is not None:
                    d = 1 if "++" in x["op"] else -1
                    new = []
                    for s in states:
                        cur = s[i] if s[i] is not None else self.keys[i].domain
                        v = frozenset(c + d for c in cur) if cur is not None else None
                        dom = self.keys[i].domain
                        if v is not None and dom is not None and not v <= dom:
                            v = None
                        new.extend(self._assign([s], i, v))
                    states = new
            elif k == "decl":
                i = self.key_index({"k": "var", "n": x["n"], "s": "l"})
                if i is not None:
                    new = []
                    for s in states:
                        v = self.aeval(x["init"], s) if x.get("init") is not None else None
                        new.extend(self._assign([s], i, v))
                    states = new
            elif k == "call":
                states = self._call(x, states)
            elif k == "ret":
                i = self._retkey()
                if i is not None:
                    new = []
                    for s in states:
                        v = self.aeval(x.get("e"), s) if x.get("e") is not None else None
                        new.extend(self._assign([s], i, v))
                    states = new
            elif k == "asm":
                for o in x["outs"]:
                    i = self.key_index(o)
                    if i is not None:
                        states = self._assign(states, i, None)
        return _dedupe(states)

    def _retkey(self):
        for i, k in enumerate(self.keys):
            if k.kind == "retval":
                return i
        return None

    def _havoc_aliases(self, lv, states):
        # a store through *p where p could alias a tracked deref key: ignored
        return states

    def _call(self, c, states):
        fn = c.get("fn")
        if fn in self.pure_calls:
            return states
        for i, key in enumerate(self.keys):
            assigned = False
            if self.must_assign:
                r = self.must_assign(c, key)
                if r is not False:
                    states = self._assign(states, i, r)
                    continue
            if key.kind == "field":
                if self.cg is not None and fn:
                    # slot calls operate on child coder objects (ownership tree)
                    for (rec, f) in self.cg.may_write_direct(fn):
                        if f == key.name and (key.rec is None or rec == key.rec):
                            assigned = True
                            break
                    if assigned:
                        consts = self._callee_consts(fn, key)
                        if consts is not None:
                            new = []
                            for s in states:
                                old = s[i] if s[i] is not None else key.domain
                                if old is None:
                                    new.extend(self._assign([s], i, None))
                                else:
                                    for v in sorted(consts | old):
                                        ns = list(s); ns[i] = frozenset([v]); new.append(tuple(ns))
                            states = new
                            continue
                else:
                    assigned = False
            elif key.kind == "var":
                for a in c["args"]:
                    a = ex.strip(a)
                    if a is not None and a.get("k") == "un" and a["op"] == "&":
                        b = ex.strip(a["e"])
                        if b is not None and b.get("k") == "var" and b["n"] == key.name:
                            assigned = True
            elif key.kind == "deref":
                for a in c["args"]:
                    a = ex.strip(a)
                    if a is not None and a.get("k") == "var" and a["n"] == key.name:
                        assigned = True
            if assigned:
                states = self._assign(states, i, None)
        return states

    def _callee_consts(self, fname, key):
        """Constants a direct callee (closure over direct calls) stores into the tracked
        field, or None if some store is not a constant."""
        cache = getattr(self, "_cc", None)
        if cache is None:
            cache = self._cc = {}
        ck = (fname, key.label)
        if ck in cache:
            return cache[ck]
        out = set()
        seen = set()
        st = [fname]
        ok = True
        while st and ok:
            n = st.pop()
            if n in seen:
                continue
            seen.add(n)
            for f in self.cg.by_name.get(n, []):
                for b, i, e in f.iter_elems():
                    for (l, r, op, node) in ex.writes(e):
                        if key.matches(l) if key.base is None else (
                                ex.field_key(l) == (key.rec, key.name)):
                            v = ex.const_val(r) if (r is not None and op == "=") else None
                            if v is None:
                                ok = False
                            else:
                                out.add(v)
                st.extend(self.cg.direct.get(f.key, ()))
        cache[ck] = frozenset(out) if ok else None
        return cache[ck]

    def _slot_targets(self, c):
        cal = ex.strip(c.get("callee"))
        if cal is not None and cal.get("k") == "un" and cal["op"] == "*":
            cal = ex.strip(cal["e"])
        fk = ex.field_key(cal)
        if fk and self.cg is not None:
            return self.cg.slot_targets(fk)
        return set()

    def transfer_block(self, bid, s, upto=None):
        states = [s]
        b = self.fn.blocks[bid]
        for i, e in enumerate(b.elems):
            if upto is not None and i >= upto:
                break
            states = self.transfer_elem(e, states)
        if upto is None and self.condkeys:
            # conditional values consumed in this block: forget their branch keys
            forget = set()
            for e in b.elems:
                if e is None:
                    continue
                for x in ex.walk(e, into_refs=False):
                    if x.get("k") == "cond":
                        cn = x["c"]
                        if isinstance(cn, dict) and cn.get("k") == "eref" and cn.get("b") in self.condkeys:
                            forget.add(self.condkeys[cn["b"]])
            if forget:
                new = []
                for st in states:
                    st = list(st)
                    for i in forget:
                        st[i] = None
                    new.append(tuple(st))
                states = _dedupe(new)
        return states

    def branch(self, bid, s):
        """Yield (succ bid, label, state) for feasible out-edges."""
        b = self.fn.blocks[bid]
        t = b.term
        ss = b.succs
        if not t or "cond" not in t or t["kind"] in ("GotoStmt", "BreakStmt", "ContinueStmt"):
            if t and t["kind"] == "IndirectGotoStmt":
                for x in ss:
                    if x is not None:
                        yield (x, "", s)
                return
            for x in ss:
                if x is not None:
                    yield (x, "", s)
            return
        kind = t["kind"]
        cond = t["cond"]
        if kind == "SwitchStmt":
            i = self.key_index(cond)
            vals = None
            if i is not None:
                vals = s[i] if s[i] is not None else self.keys[i].domain
            else:
                vals = self.aeval(cond, s)
            case_vals = set()
            default = None
            targets = []
            for x in ss:
                if x is None:
                    continue
                lb = self.fn.blocks[x].label
                if lb and lb.get("kind") == "case" and "v" in lb:
                    hi = lb.get("v2", lb["v"])
                    rng = range(lb["v"], hi + 1)
                    for v in rng:
                        case_vals.add(v)
                    targets.append((x, lb, rng))
                else:
                    default = x
            for x, lb, rng in targets:
                if vals is None:
                    ns = s
                    if i is not None and len(rng) == 1:
                        ns = list(s); ns[i] = frozenset(rng); ns = tuple(ns)
                    yield (x, "case %s" % (lb.get("n") or lb["v"]), ns)
                else:
                    inter = frozenset(v for v in vals if v in rng)
                    if inter:
                        ns = s
                        if i is not None:
                            ns = list(s); ns[i] = inter; ns = tuple(ns)
                        yield (x, "case %s" % (lb.get("n") or lb["v"]), ns)
            if default is not None:
                if vals is None:
                    yield (default, "default", s)
                else:
                    rest = frozenset(v for v in vals if v not in case_vals)
                    if rest:
                        ns = s
                        if i is not None:
                            ns = list(s); ns[i] = rest; ns = tuple(ns)
                        yield (default, "default", ns)
            return
        # two-way branch: succs[0] = true, succs[1] = false
        if len(ss) == 2:
            ck = self.condkeys.get(bid)
            if ss[0] is not None:
                st = self.refine(cond, s, True)
                if st is not None:
                    if ck is not None:
                        st = list(st); st[ck] = frozenset([1]); st = tuple(st)
                    yield (ss[0], "T", st)
            if ss[1] is not None:
                sf = self.refine(cond, s, False)
                if sf is not None:
                    if ck is not None:
                        sf = list(sf); sf[ck] = frozenset([0]); sf = tuple(sf)
                    yield (ss[1], "F", sf)
            return
        for x in ss:
            if x is not None:
                yield (x, "", s)

    # ---- exploration -------------------------------------------------------------
    def run(self, init_states, resume=None, stop=None):
        """Build the product graph.

        resume(return_state) -> iterable of new entry states (resume edges) or None.
        """
        dq = deque()
        for s in init_states:
            dq.append((self.fn.entry, s, None, "init"))
        while dq:
            bid, s, src, label = dq.popleft()
            node = (bid, s)
            if src is not None:
                self.edges.append((src, node, label))
                self.succ.setdefault(src, []).append((node, label))
                self.pred.setdefault(node, []).append((src, label))
            if node in self.nodes:
                continue
            self.nodes[node] = s
            if len(self.nodes) > MAX_NODES:
                raise AnalysisBroken("E-FD product graph too large in %s" % self.fn.name)
            outs = self.transfer_block(bid, s)
            self.out[node] = outs
            if bid == self.fn.exit:
                if resume:
                    for ns in resume(s) or ():
                        dq.append((self.fn.entry, ns, node, "resume"))
                continue
            if stop is not None and stop(bid, s):
                continue
            for o in outs:
                for (x, lab, ns) in self.branch(bid, o):
                    dq.append((x, ns, node, lab))
        return self

    # ---- queries --------------------------------------------------------------------
    def states_at_block(self, bid):
        return [s for (b, s) in self.nodes if b == bid]

    def states_before_elem(self, bid, idx):
        out = []
        for (b, s) in self.nodes:
            if b == bid:
                out.extend(self.transfer_block(bid, s, upto=idx))
        return _dedupe(out)

    def return_sites(self):
        """[(block, idx, ret node, [states before the return])]"""
        out = []
        for b, i, e in self.fn.iter_elems():
            if e.get("k") == "ret":
                sts = self.states_before_elem(b.id, i)
                if sts:
                    out.append((b, i, e, sts))
        return out

    def reachable_blocks(self):
        return {b for (b, s) in self.nodes}

    def fmt(self, s, names=None):
        parts = []
        for k, v in zip(self.keys, s):
            if v is None:
                parts.append("%s=*" % k.label)
            else:
                if names and k.label in names:
                    nm = names[k.label]
                    parts.append("%s={%s}" % (k.label, ",".join(str(nm.get(x, x)) for x in sorted(v))))
                else:
                    parts.append("%s={%s}" % (k.label, ",".join(str(x) for x in sorted(v))))
        return " ".join(parts)


def _dedupe(states):
    seen = set()
    out = []
    for s in states:
        if s not in seen:
            seen.add(s)
            out.append(s)
    return out


def flagflow(g, gen, kill, check, edge_kill=None):
    """May-dataflow of one flag over the product graph `g` (an FD after run()),
    at element granularity.

    gen/kill/check: f(block, idx, elem, states_before) -> bool
    edge_kill(block, label) -> bool : flag cleared along that out-edge
    Returns [(node, idx, elem, origin)] for every check element reached with the
    flag set; origin = (block id, idx, line) of one arming site.
    """
    fn = g.fn
    flag_in = {}          # node -> origin or None
    hits = {}
    work = deque()
    for node in g.nodes:
        flag_in[node] = None
        work.append(node)
    inq = set(g.nodes)
    while work:
        node = work.popleft()
        inq.discard(node)
        bid, s = node
        b = fn.blocks[bid]
        cur = flag_in[node]
        states = [s]
        for i, e in enumerate(b.elems):
            if e is None:
                continue
            if cur is not None and check(b, i, e, states):
                hits.setdefault((node, i), (node, i, e, cur))
            if kill(b, i, e, states):
                cur = None
            if gen(b, i, e, states):
                cur = (bid, i, ex.line(e))
            states = g.transfer_elem(e, states)
        for (dst, label) in g.succ.get(node, ()):
            if label == "resume":
                continue
            c2 = cur
            if c2 is not None and edge_kill and edge_kill(b, label):
                c2 = None
            if c2 is not None and flag_in.get(dst) is None:
                flag_in[dst] = c2
                if dst not in inq:
                    inq.add(dst)
                    work.append(dst)
    return list(hits.values())


def setflow(g, transfer, check):
    """May-dataflow of a set of items over the product graph `g`, element granular.

    transfer(block, idx, elem, states_before, cur: frozenset) -> frozenset
    check(block, idx, elem, states_before, cur) -> list of findings (any objects)
    Returns all findings (deduplicated by repr)."""
    fn = g.fn
    val_in = {n: frozenset() for n in g.nodes}
    work = deque(g.nodes)
    inq = set(g.nodes)
    findings = {}
    while work:
        node = work.popleft()
        inq.discard(node)
        bid, s = node
        b = fn.blocks[bid]
        cur = val_in[node]
        states = [s]
        for i, e in enumerate(b.elems):
            if e is None:
                continue
            for f in check(b, i, e, states, cur) or ():
                findings.setdefault(repr(f), f)
            cur = transfer(b, i, e, states, cur)
            states = g.transfer_elem(e, states)
        for (dst, label) in g.succ.get(node, ()):
            if label == "resume":
                continue
            old = val_in.get(dst, frozenset())
            new = old | cur
            if new != old:
                val_in[dst] = new
                if dst not in inq:
                    inq.add(dst)
                    work.append(dst)
    return list(findings.values())
