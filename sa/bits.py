"""E-BITS: exact bit-routing evaluation of straight-line integer code.

A value is a vector of W entries (bit 0 first).  Each entry is
    0 / 1                 a known bit
    ("B", k, j)           bit j of an input symbol (here: instruction byte k) -- any hashable tuple
    frozenset({...})      unknown, depends on (at most) the named symbols
Shifts by constants, masks with constants, ORs of values whose supports do not overlap, truncating casts, the
sign-replication idiom `0 - (x & 1)` and additions whose carry chain is concrete are exact in this domain; anything
else degrades the affected bits to a dependency set (never to a wrong bit).
"""
from . import ex

W = 64


class Unsupported(Exception):
    pass


def const(v, width=32):
    v &= (1 << W) - 1
    return [(v >> j) & 1 for j in range(W)], width


def deps_of(e):
    if e in (0, 1):
        return frozenset()
    if isinstance(e, frozenset):
        return e
    if e[0] == "~":
        return frozenset([e[1]])
    return frozenset([e])


def unknown(*es):
    d = frozenset()
    for e in es:
        d |= deps_of(e)
    return d if d else 0


def trunc(v, width):
    bits, _ = v
    return bits[:width] + [0] * (W - width), width


def is_concrete(v, lo=0, hi=W):
    return all(b in (0, 1) for b in v[0][lo:hi])


def to_int(v):
    return sum(b << j for j, b in enumerate(v[0]) if b in (0, 1))


def b_and(a, b):
    out = []
    for x, y in zip(a[0], b[0]):
        if x == 0 or y == 0:
            out.append(0)
        elif x == 1:
            out.append(y)
        elif y == 1:
            out.append(x)
        elif x == y and not isinstance(x, frozenset):
            out.append(x)
        else:
            out.append(unknown(x, y))
    return out, max(a[1], b[1])


def b_or(a, b):
    out = []
    for x, y in zip(a[0], b[0]):
        if x == 1 or y == 1:
            out.append(1)
        elif x == 0:
            out.append(y)
        elif y == 0:
            out.append(x)
        elif x == y and not isinstance(x, frozenset):
            out.append(x)
        else:
            out.append(unknown(x, y))
    return out, max(a[1], b[1])


def b_xor(a, b):
    out = []
    for x, y in zip(a[0], b[0]):
        if x == 0:
            out.append(y)
        elif y == 0:
            out.append(x)
        elif x in (0, 1) and y in (0, 1):
            out.append(x ^ y)
        else:
            out.append(unknown(x, y))
    return out, max(a[1], b[1])


def neg_bit(x):
    if x in (0, 1):
        return 1 - x
    if isinstance(x, frozenset):
        return x
    if x[0] == "~":
        return x[1]
    return ("~", x)


def b_not(a):
    bits, w = a
    return [neg_bit(x) for x in bits[:w]] + [0] * (W - w), w


def shl(a, n):
    bits, w = a
    out = ([0] * n + bits)[:W]
    return trunc((out, w), w)


def shr(a, n):
    bits, w = a
    return bits[n:] + [0] * min(n, W), w


def add(a, b, sub=False):
    """a + b (or a - b) with a ripple carry that stays exact while the carry is known."""
    w = max(a[1], b[1])
    if sub:
        b = b_not((b[0], w))
        carry = 1
    else:
        carry = 0
    out = []
    for j in range(w):
        x, y = a[0][j], b[0][j]
        if carry == 0 and y == 0:
            out.append(x)
        elif carry == 0 and x == 0:
            out.append(y)
        elif x in (0, 1) and y in (0, 1) and carry in (0, 1):
            s = x + y + carry
            out.append(s & 1)
            carry = s >> 1
        else:
            d = unknown(x, y, carry)
            out.append(d)
            # carry out is known to be 0 only when two of the three inputs are known zero
            zeros = [v for v in (x, y, carry) if v == 0]
            ones = [v for v in (x, y, carry) if v == 1]
            if len(zeros) >= 2:
                carry = 0
            elif len(ones) >= 2:
                carry = 1
            else:
                carry = d
    return out + [0] * (W - w), w


TYPE_WIDTH = {"uint8_t": 8, "uint16_t": 16, "uint32_t": 32, "uint64_t": 64, "size_t": 64, "unsigned int": 32,
              "int": 32, "const uint32_t": 32, "const uint64_t": 64, "const size_t": 64, "const uint8_t": 8,
              "_Bool": 1, "unsigned char": 8}


def width_of(ty):
    ty = (ty or "").replace("const ", "").strip()
    return TYPE_WIDTH.get(ty)


class Env:
    """Variable environment plus the symbolic instruction bytes buffer[i + k]."""

    def __init__(self, fn, index_var="i", buffer="buffer", nbytes=16):
        self.fn = fn
        self.vars = {}
        self.mem = {}
        self.index_var = index_var
        self.buffer = buffer
        self.nbytes = nbytes
        self.types = {v["n"]: v.get("ty") for v in fn.vars}
        self.stores = []

    def byte(self, k):
        if k not in self.mem:
            self.mem[k] = ([("B", k, j) for j in range(8)] + [0] * (W - 8), 32)
        return self.mem[k]

    def set_byte(self, k, v):
        self.mem[k] = trunc(v, 8)[0], 32
        self.stores.append(k)

    def offset(self, n):
        """Constant k of an address/index expression `i + k` / `buffer + i + k`."""
        n = ex.strip(n)
        k = n.get("k")
        if k == "var":
            if n["n"] in (self.index_var, self.buffer):
                return 0
            raise Unsupported("index %s" % ex.show(n))
        if k == "const":
            return n["v"]
        if k == "bin" and n["op"] == "+":
            return self.offset(n["l"]) + self.offset(n["r"])
        raise Unsupported("index %s" % ex.show(n))

    # ------------------------------------------------------------------ expressions
    def ev(self, n):
        n = ex.deref(n)
        k = n.get("k")
        if k == "cast":
            v = self.ev(n["e"])
            w = width_of(n.get("ty"))
            return trunc(v, w) if w else v
        if k in ("const", "enum"):
            return const(n["v"], 64 if n["v"] >= 1 << 32 else 32)
        if k == "var":
            if n["n"] in self.vars:
                return self.vars[n["n"]]
            w = width_of(self.types.get(n["n"])) or 32
            return [frozenset([("V", n["n"])])] * w + [0] * (W - w), w
        if k == "idx":
            if ex.show(n["b"]) == self.buffer:
                return self.byte(self.offset(n["i"]))
            raise Unsupported(ex.show(n))
        if k == "call":
            fn = n.get("fn")
            if fn == "read32ne" and n.get("m") in ("read32le", "read32be"):
                fn = n["m"]
            if fn in ("read32le", "read32be", "aligned_read32le", "aligned_read32be"):
                o = self.offset(n["args"][0])
                order = range(4) if fn.endswith("le") else range(3, -1, -1)
                bits = []
                for kk in order:
                    bits += self.byte(o + kk)[0][:8]
                return bits + [0] * (W - 32), 32
            raise Unsupported("call %s" % fn)
        if k == "un":
            op = n["op"]
            if op == "~":
                return b_not(self.ev(n["e"]))
            if op == "-":
                return add(const(0, 32), self.ev(n["e"]), sub=True)
            if op == "+":
                return self.ev(n["e"])
            raise Unsupported("unary %s" % op)
        if k == "bin":
            op = n["op"]
            a = self.ev(n["l"])
            b = self.ev(n["r"])
            return self.binop(op, a, b)
        if k == "cond":
            raise Unsupported("conditional")
        raise Unsupported("node %s" % k)

    def binop(self, op, a, b):
        if op == "&":
            return b_and(a, b)
        if op == "|":
            return b_or(a, b)
        if op == "^":
            return b_xor(a, b)
        if op in ("<<", ">>"):
            if not is_concrete(b):
                raise Unsupported("shift by a non-constant")
            nsh = to_int(b)
            return shl(a, nsh) if op == "<<" else shr(a, nsh)
        if op == "+":
            return add(a, b)
        if op == "-":
            w = max(a[1], b[1])
            nz = [j for j, x in enumerate(b[0][:w]) if x != 0]
            # 0 - (x & (1 << p)): bit p replicated upwards
            if is_concrete(a) and to_int(a) == 0 and len(nz) == 1:
                p_ = nz[0]
                return [0] * p_ + [b[0][p_]] * (w - p_) + [0] * (W - w), w
            # (x & 1) - 1: all bits are the complement of bit 0
            nza = [j for j, x in enumerate(a[0][:w]) if x != 0]
            if is_concrete(b) and to_int(b) == 1 and nza == [0]:
                return [neg_bit(a[0][0])] * w + [0] * (W - w), w
            return add(a, b, sub=True)
        if op in ("==", "!=", "<", ">", "<=", ">="):
            w = max(a[1], b[1])
            if is_concrete(a, 0, w) and is_concrete(b, 0, w):
                x, y = to_int(a), to_int(b)
                r = {"==": x == y, "!=": x != y, "<": x < y, ">": x > y, "<=": x <= y, ">=": x >= y}[op]
                return const(int(r), 32)
            if op in ("==", "!="):
                # a known differing bit decides the comparison
                for x, y in zip(a[0][:w], b[0][:w]):
                    if x in (0, 1) and y in (0, 1) and x != y:
                        return const(int(op == "!="), 32)
            return [unknown(*(a[0][:w] + b[0][:w]))] + [0] * (W - 1), 32
        if op in ("&&", "||"):
            ta, tb = self.truth(a), self.truth(b)
            if op == "&&":
                if ta is False or tb is False:
                    return const(0)
                if ta is True and tb is True:
                    return const(1)
            else:
                if ta is True or tb is True:
                    return const(1)
                if ta is False and tb is False:
                    return const(0)
            return [unknown(*(a[0] + b[0]))] + [0] * (W - 1), 32
        raise Unsupported("operator %s" % op)

    @staticmethod
    def truth(v):
        """True / False / None (undetermined) / set of symbols it depends on."""
        bits = v[0][:v[1]]
        if any(x == 1 for x in bits):
            return True
        if all(x == 0 for x in bits):
            return False
        return None

    # ------------------------------------------------------------------ statements
    def assign(self, l, v):
        l = ex.strip(l)
        if l.get("k") == "var":
            w = width_of(self.types.get(l["n"])) or 32
            self.vars[l["n"]] = trunc(v, w)
            return
        if l.get("k") == "idx" and ex.show(l["b"]) == self.buffer:
            self.set_byte(self.offset(l["i"]), v)
            return
        raise Unsupported("store to %s" % ex.show(l))

    def stmt(self, e):
        e = ex.deref(e)
        k = e.get("k")
        if k == "decl":
            if e.get("init") is not None:
                w = width_of(self.types.get(e["n"])) or 32
                try:
                    self.vars[e["n"]] = trunc(self.ev(e["init"]), w)
                except Unsupported:
                    self.vars.pop(e["n"], None)
            return
        if k == "asg":
            op = e["op"]
            tgt = ex.strip(e["l"])
            try:
                if op == "=":
                    v = self.ev(e["r"])
                else:
                    v = self.binop(op[:-1], self.ev(e["l"]), self.ev(e["r"]))
            except Unsupported:
                if tgt.get("k") == "var":
                    self.vars.pop(tgt["n"], None)
                    return
                raise
            self.assign(e["l"], v)
            return
        if k == "call":
            fn = e.get("fn")
            if fn in ("write32ne", "read32ne") and e.get("m") in ("write32le", "write32be", "read32le", "read32be"):
                fn = e["m"]
            if fn in ("write32le", "write32be", "aligned_write32le"):
                o = self.offset(e["args"][0])
                v = self.ev(e["args"][1])
                order = list(range(4)) if not fn.endswith("be") else [3, 2, 1, 0]
                for j, kk in enumerate(order):
                    self.set_byte(o + kk, shr(v, 8 * j))
                return
            if fn in ("read32le", "read32be"):
                return
            raise Unsupported("call %s" % fn)
        if k == "un" and e["op"] in ("pre++", "post++", "pre--", "post--"):
            t = ex.strip(e["e"])
            if t.get("k") == "var":
                self.vars.pop(t["n"], None)
            return
        # pure expressions (conditions, variable reads) have no effect
        return

    def run_block(self, blk, upto=None):
        for e in blk.elems[:upto]:
            if e is not None:
                self.stmt(e)


def substitute(v, assignment):
    """Replace symbols by concrete bits."""
    out = []
    for x in v[0]:
        if x in (0, 1):
            out.append(x)
        elif isinstance(x, frozenset):
            out.append(x)
        else:
            out.append(assignment.get(x, x))
    return out, v[1]


def fmt(v, width=None):
    def one(x):
        if x in (0, 1):
            return str(x)
        if isinstance(x, frozenset):
            return "?"
        return "%s%s.%s" % x if len(x) == 3 else ".".join(map(str, x))
    return "[" + " ".join(one(x) for x in v[0][:width or v[1]]) + "]"
