"""E-OWN: ownership rules.

(a) owned members of a coder record are released by its `end` function
(c) freed-alias rule: after lzma_free(x) where x aliases a persistent location P,
    P is overwritten (or the object holding P is itself freed) before the function returns
(d) every allocation result is compared with NULL before its first dereference
(u) unused lzma_ret results
"""
from collections import deque

from . import ex, cfg
from .resume import lvpath, is_persistent

ALLOC = ("lzma_alloc", "lzma_alloc_zero")
FREE = ("lzma_free", "lzma_index_end", "lzma_index_hash_end")


def _is_prefix(p, q):
    return len(p) <= len(q) and q[:len(p)] == p


def _ptr_local(fn, name):
    for v in fn.vars:
        if v["n"] == name:
            return "*" in v["ty"]
    return False


# ---------------------------------------------------------------- (c) freed alias
def freed_alias(fn, call_clears=None):
    """call_clears(call node) -> set of member names that the callee stores on every one of its paths (for callees
    that receive the holder object): such a call clears the dangling fact of those members.
    Plain-CFG may-dataflow.  Facts: ('alias', local, path) and ('dangling', path, line).
    Returns [(return line, path text, free line)]."""
    local_arrays = {v["n"] for v in fn.vars if "[" in v["ty"] and not v.get("param")}
    local_structs = {v["n"] for v in fn.vars if v.get("rec") and not v.get("param")}

    def is_persistent(p):
        if p is None or len(p) < 2:
            return False
        steps = p[1:]
        if p[0][1] in local_arrays or p[0][1] in local_structs:
            # elements/members of a local object are local until a pointer is followed
            return any(s[0] == "deref" for s in steps)
        return any(s[0] in ("deref", "idx") for s in steps)
    def transfer(e, cur):
        cur = set(cur)
        if e is None:
            return cur
        # calls first (arguments are evaluated before the enclosing assignment)
        for c in ex.calls(e, into_refs=False):
            if call_clears is not None and c.get("fn") not in FREE:
                flds = call_clears(c)
                if flds:
                    cur = {f for f in cur if not (f[0] == "dangling" and f[1] and f[1][-1][0] == "field"
                                                   and f[1][-1][1] in flds)}
            if c.get("fn") in FREE and c["args"]:
                a = ex.strip(c["args"][0])
                ap = lvpath(a)
                if ap is None:
                    continue
                newd = set()
                if len(ap) == 1:
                    # free(local): persistent aliases become dangling
                    for f in cur:
                        if f[0] == "alias" and f[1] == ap[0][1]:
                            newd.add(("dangling", f[2], ex.line(c)))
                    # objects reached through the freed local no longer exist
                    cur = {f for f in cur if not (f[0] == "dangling" and len(f[1]) > 1
                                                   and f[1][0] == ap[0] and f[1][1] == ("deref",))}
                elif is_persistent(ap):
                    newd.add(("dangling", ap, ex.line(c)))
                    # freeing P: everything stored inside *P is gone
                    cur = {f for f in cur if not (f[0] == "dangling" and f[1] != ap
                                                   and _is_prefix(ap + (("deref",),), f[1]))}
                cur |= newd
        for (l, r, op, node) in ex.writes(e):
            lp = lvpath(l)
            if lp is None:
                continue
            if len(lp) == 1:
                name = lp[0][1]
                cur = {f for f in cur if not (f[0] == "alias" and f[1] == name)}
                rp = lvpath(r) if r is not None else None
                if op == "=" and is_persistent(rp) and _ptr_local(fn, name):
                    cur.add(("alias", name, rp))
            elif is_persistent(lp):
                # overwriting P (or a prefix = whole struct) clears dangling/alias facts on it
                cur = {f for f in cur if not (
                    (f[0] == "dangling" and _is_prefix(lp, f[1])) or
                    (f[0] == "alias" and _is_prefix(lp, f[2])))}
                rs = ex.strip(r) if r is not None else None
                if op == "=" and rs is not None and rs.get("k") == "var" and rs.get("s") in ("l", "p") \
                        and _ptr_local(fn, rs["n"]):
                    cur.add(("alias", rs["n"], lp))
        return cur

    val_in = {b: set() for b in fn.blocks}
    work = deque([fn.entry])
    visited = set()
    findings = {}
    while work:
        bid = work.popleft()
        cur = set(val_in[bid])
        blk = fn.blocks[bid]
        for e in blk.elems:
            if e is not None and e.get("k") == "ret":
                for f in cur:
                    if f[0] == "dangling":
                        findings.setdefault((ex.line(e), f[1]), f[2])
            cur = transfer(e, cur)
        for s in cfg.succs(fn, bid):
            before = len(val_in[s])
            val_in[s] |= cur
            if len(val_in[s]) != before or s not in visited:
                visited.add(s)
                work.append(s)
    # also fall-off-the-end (void functions)
    out = []
    for (rl, p), fl in sorted(findings.items()):
        out.append((rl, p, fl))
    return out


def path_text(p):
    s = ""
    for st in p:
        if st[0] == "var":
            s = st[1]
        elif st[0] == "deref":
            s = "(*%s)" % s
        elif st[0] == "field":
            s += "." + st[1]
        elif st[0] == "idx":
            s += "[]"
    return s.replace("(*next).", "next->").replace("(*coder).", "coder->")


# ---------------------------------------------------------------- (d) NULL tests
def alloc_null_checks(fn):
    """[(line, target text, ok, why)] for every `X = lzma_alloc*(...)` in fn."""
    out = []
    for b, i, e in fn.iter_elems():
        for (l, r, op, node) in ex.writes(e):
            rs = ex.strip(r) if r is not None else None
            if rs is None or rs.get("k") != "call" or rs.get("fn") not in ALLOC or op != "=":
                continue
            tp = lvpath(l)
            if tp is None:
                out.append((ex.line(node), ex.show(l), True, "target not a simple lvalue"))
                continue
            ok, why = _null_tested_before_use(fn, b.id, i, tp)
            out.append((ex.line(node), ex.show(l), ok, why))
    return out


def _tests_null(cond, tp):
    c = ex.strip(cond)
    while c is not None and c.get("k") == "un" and c["op"] == "!":
        c = ex.strip(c["e"])
    if c is None:
        return False
    if lvpath(c) == tp:
        return True
    if c.get("k") == "bin" and c["op"] in ("==", "!="):
        l, r = c["l"], c["r"]
        if (lvpath(l) == tp and ex.is_const(r, 0)) or (lvpath(r) == tp and ex.is_const(l, 0)):
            return True
    return False


def _derefs(e, tp):
    """Does element e dereference the pointer stored at tp?"""
    for x in ex.walk(e, into_refs=False):
        k = x.get("k")
        p = None
        if k == "mem" and x.get("arrow"):
            p = lvpath(x["b"])
        elif k == "un" and x["op"] == "*":
            p = lvpath(x["e"])
        elif k == "idx":
            p = lvpath(x["b"])
        elif k == "call" and x.get("fn") in ("memcpy", "memset", "memzero", "memmove"):
            for a in x["args"][:2]:
                if lvpath(a) == tp:
                    return True
        if p is not None and p == tp:
            return True
    return False


def _null_tested_before_use(fn, bid, idx, tp):
    seen = set()
    dq = deque([(bid, idx + 1)])
    while dq:
        b, start = dq.popleft()
        if (b, start > 0) in seen:
            continue
        seen.add((b, start > 0))
        blk = fn.blocks[b]
        stop = False
        for j in range(start, len(blk.elems)):
            e = blk.elems[j]
            if e is None:
                continue
            if _derefs(e, tp):
                return False, "dereferenced at line %d before any NULL test" % ex.line(e)
            for (l, r, op, node) in ex.writes(e):
                if lvpath(l) == tp:
                    stop = True       # overwritten
            if e.get("k") == "ret":
                stop = True
            if stop:
                break
        if stop:
            continue
        t = blk.term
        if t and "cond" in t and _tests_null(t["cond"], tp):
            continue    # tested on this path
        for s in cfg.succs(fn, b):
            dq.append((s, 0))
    return True, "NULL-tested (or stored/returned) before any dereference"


# ---------------------------------------------------------------- (u) unused results
def unused_results(prog, fn, is_ret_call):
    """Call elements whose value is never consumed: [(line, callee text)]."""
    referenced = set()
    for b in fn.blocks.values():
        for e in b.elems:
            if e is None:
                continue
            for x in _walk_all(e):
                if x.get("k") == "eref":
                    referenced.add((x["b"], x["i"]))
        if b.term and "cond" in b.term:
            for x in _walk_all(b.term["cond"]):
                if x.get("k") == "eref":
                    referenced.add((x["b"], x["i"]))
            # the terminator condition is normally the last element itself
            if b.elems:
                referenced.add((b.id, len(b.elems) - 1))
    out = []
    for b, i, e in fn.iter_elems():
        if e.get("k") == "call" and (b.id, i) not in referenced and is_ret_call(e):
            out.append((ex.line(e), e.get("fn") or ex.show(e.get("callee")), e))
    return out


def _walk_all(n):
    """Walk without following erefs but yielding them."""
    st = [n]
    while st:
        x = st.pop()
        if not isinstance(x, dict):
            continue
        yield x
        if x.get("k") == "eref":
            continue
        for c in ex.children(x, into_refs=False):
            st.append(c)


# ---------------------------------------------------------------- (a) owned members
RELEASERS = {
    "lzma_free": 0, "lzma_next_end": 0, "lzma_index_end": 0, "lzma_index_hash_end": 0,
    "lzma_outq_end": 0, "lzma_filters_free": 0, "mythread_mutex_destroy": 0,
    "mythread_cond_destroy": 0, "lzma_end": 0,
}
PRODUCERS = ("lzma_alloc", "lzma_alloc_zero", "lzma_index_hash_init", "lzma_index_init",
             "lzma_index_dup")
# Members that hold allocator memory.  mythread_mutex/mythread_cond are deliberately not
# listed: they hold no allocator memory (C10 is about bytes obtained from the allocator).
OWNED_TYPES = ("lzma_next_coder", "lzma_outq")


# embedded records that are released as a whole by their own release function
OPAQUE_OWNERS = ("lzma_next_coder_s", "lzma_outq", "lzma_filter", "lzma_check_state")


def embedded_records(prog, recname, seen=None):
    """recname plus the records embedded by value in it (recursively)."""
    seen = seen if seen is not None else []
    if recname in seen:
        return seen
    seen.append(recname)
    rec = prog.records.get(recname)
    if rec:
        for f in rec["fields"]:
            if f.get("rec") and "*" not in f["ty"] and f["rec"] not in OPAQUE_OWNERS:
                embedded_records(prog, f["rec"], seen)
    return seen


def owned_fields(prog, recname, file):
    """{(record, field): reason} of members (of the coder record or of records embedded
    in it by value) that own allocator memory."""
    recs = embedded_records(prog, recname)
    out = {}
    for rn in recs:
        rec = prog.records.get(rn)
        if not rec:
            continue
        for f in rec["fields"]:
            ty = f["ty"].replace("const ", "").strip()
            if ty in OWNED_TYPES:
                out[(rn, f["n"])] = "embedded " + ty
    for fn in prog.all_functions("liblzma"):
        samefile = fn.file.endswith("/" + file)
        for b, i, e in fn.iter_elems():
            for (l, r, op, node) in ex.writes(e):
                fk = ex.field_key(l)
                rs = ex.strip(r) if r is not None else None
                if fk and fk[0] in recs and (samefile or fk[0] != recname) \
                        and rs is not None and rs.get("k") == "call" \
                        and rs.get("fn") in PRODUCERS and ex.strip(l).get("k") == "mem":
                    out.setdefault(fk, "assigned from %s() in %s" % (rs["fn"], fn.name))
            if not samefile:
                continue
            for c in ex.calls(e, into_refs=False):
                if c.get("fn") in ("lzma_filters_copy",) and len(c["args"]) > 1:
                    for x in ex.walk(c["args"][1]):
                        if x.get("k") == "mem" and x.get("rec") in recs:
                            out.setdefault((x["rec"], x["f"]),
                                           "filled by lzma_filters_copy() in %s" % fn.name)
                            break
    return out


def _first_field(n, recname):
    for x in ex.walk(n):
        if x.get("k") == "mem" and x.get("rec") == recname:
            return x["f"]
    return None


def released_fields(prog, endfn, recname, file, depth=3):
    """(record, field) pairs that appear in a releasing call reachable from endfn
    (direct calls within the same file)."""
    recs = set(embedded_records(prog, recname))
    out = {}
    seen = set()
    st = [(endfn, 0)]
    while st:
        fn, d = st.pop()
        if fn.key in seen:
            continue
        seen.add(fn.key)
        for b, i, e in fn.iter_elems():
            for c in ex.calls(e, into_refs=False):
                nm = c.get("fn")
                if nm in RELEASERS:
                    for a in c["args"][:2]:
                        for x in ex.walk(a):
                            if x.get("k") == "mem" and x.get("rec") in recs:
                                out.setdefault((x["rec"], x["f"]),
                                               "%s() in %s line %d" % (nm, fn.name, ex.line(c)))
                elif nm and d < depth:
                    for g in prog.functions.get(nm, []):
                        if g.file == fn.file:
                            st.append((g, d + 1))
    return out
