"""E-RESUME: locals that must survive a suspension of a resumable coder function.

A function is resumable when it dispatches (top-level `switch`) on a state field
reached through a pointer (`coder->sequence`).  A local pseudo-variable pv
(scalar local, or one field of a struct-typed local) is reported when

  (i)   it has a definition inside the resumable region (blocks reachable from
        the case labels) that may still be the current value at a `return`
        without having been saved since ("dirty at exit"), and
  (ii)  it is live at some resume label (used before being redefined on a path
        from a `case` label), so the next invocation would read it, and
  (iii) it is not the function's returned value.

"Saved" means: an assignment whose right side reads pv and whose left side is a
persistent lvalue from which the prologue (code before the switch) initialises pv
(restore/save pair; an inverse pair such as `p = in + *in_pos` / `*in_pos = p - in`
counts).  Struct locals are handled per field; `f(&local)` uses callee
field-write summaries.
"""
from . import ex, cfg


def lvpath(n):
    """Canonical access path of an lvalue: tuple of steps, or None."""
    n = ex.strip(n)
    if n is None:
        return None
    k = n.get("k")
    if k == "var":
        return (("var", n["n"]),)
    if k == "mem":
        b = lvpath(n["b"])
        if b is None:
            return None
        if n.get("arrow"):
            b = b + (("deref",),)
        return b + (("field", n["f"]),)
    if k == "un" and n["op"] == "*":
        b = lvpath(n["e"])
        return None if b is None else b + (("deref",),)
    if k == "idx":
        b = lvpath(n["b"])
        return None if b is None else b + (("idx",),)
    return None


def _strip_casts(n):
    while isinstance(n, dict) and n.get("k") == "cast":
        n = n["e"]
    return n


def is_persistent(path):
    return path is not None and any(s[0] in ("deref", "idx") for s in path)


class ParamWrites:
    """Per function: fields written through each pointer parameter (transitive)."""

    def __init__(self, prog):
        self.prog = prog
        self.cache = {}

    def writes(self, fname, argi, depth=0):
        key = (fname, argi)
        if key in self.cache:
            return self.cache[key]
        self.cache[key] = set()   # recursion guard
        out = set()
        whole = False
        for f in self.prog.functions.get(fname, []):
            if argi >= len(f.params):
                continue
            pname = f.params[argi]["n"]
            for b, i, e in f.iter_elems():
                for (l, r, op, node) in ex.writes(e):
                    p = lvpath(l)
                    if p and p[0] == ("var", pname) and len(p) >= 2 and p[1] == ("deref",):
                        if len(p) >= 3 and p[2][0] == "field":
                            if len(p) > 3 and not self._is_array_field(l, p[2][1]):
                                continue   # store through a pointer-typed field
                            out.add(p[2][1])
                        else:
                            whole = True
                for c in ex.calls(e, into_refs=False):
                    if not c.get("fn") or depth > 4:
                        continue
                    for ai, a in enumerate(c["args"]):
                        a = ex.strip(a)
                        if a is not None and a.get("k") == "var" and a["n"] == pname:
                            sub = self.writes(c["fn"], ai, depth + 1)
                            out |= sub
        if whole:
            out.add("*")
        self.cache[key] = out
        return out

    def _is_array_field(self, l, fname):
        for x in ex.walk(l):
            if x.get("k") == "mem" and x["f"] == fname:
                r = self.prog.records.get(x.get("rec"))
                if r:
                    for f in r["fields"]:
                        if f["n"] == fname:
                            return "arr" in f
        return False


class Resume:
    def __init__(self, prog, fn, pw=None):
        self.prog = prog
        self.fn = fn
        self.pw = pw or ParamWrites(prog)
        self.vars = {v["id"]: v for v in fn.vars}
        self.struct_fields = {}
        for v in fn.vars:
            if v.get("rec") and not v.get("param"):
                r = prog.records.get(v["rec"])
                if r:
                    self.struct_fields[v["id"]] = [f["n"] for f in r["fields"]]

    # ---- pseudo variables ----------------------------------------------------
    def pvs_of_var(self, vid):
        if vid in self.struct_fields:
            return [(vid, f) for f in self.struct_fields[vid]]
        return [(vid, None)]

    def pv_name(self, pv):
        v = self.vars[pv[0]]
        return v["n"] + ("." + pv[1] if pv[1] else "")

    def _local_access(self, n):
        """If n is an access to a local (or field of a struct local) return
        list of pvs, else None."""
        n = ex.strip(n)
        if n is None:
            return None
        if n.get("k") == "var" and n.get("s") == "l" and n.get("id") in self.vars:
            return self.pvs_of_var(n["id"])
        if n.get("k") == "mem" and not n.get("arrow"):
            b = ex.strip(n["b"])
            if b is not None and b.get("k") == "var" and b.get("s") == "l" \
                    and b.get("id") in self.struct_fields:
                return [(b["id"], n["f"])]
        if n.get("k") == "idx":
            # element of a local array or of a struct-local's array field
            # (a store through a pointer-typed local is not a definition of it)
            acc = self._local_access(n["b"])
            if acc and all(self._is_array(pv) for pv in acc):
                return acc
            return None
        return None

    def _is_array(self, pv):
        v = self.vars[pv[0]]
        if pv[1] is None:
            return "[" in v["ty"]
        r = self.prog.records.get(v.get("rec"))
        if r:
            for f in r["fields"]:
                if f["n"] == pv[1]:
                    return "arr" in f
        return False

    def elem_effects(self, e):
        """(uses, must_defs, may_defs, saves) for one CFG element.
        saves: list of (lhs path, set of pvs read by rhs)."""
        uses, must, may, saves = set(), set(), set(), []
        if e is None:
            return uses, must, may, saves

        def reads_of(n):
            u = set()
            visit(n, u, True)
            return u

        def visit(n, u, into_refs):
            """Collect read pvs of expression n into u (and defs into must/may
            when not into_refs, i.e. for the element's own nodes)."""
            n = ex.deref(n) if into_refs else n
            if n is None:
                return
            k = n.get("k")
            if k == "eref":
                return
            if k == "cast":
                visit(n["e"], u, into_refs)
                return
            if k == "var":
                if n.get("s") == "l":
                    acc = self._local_access(n)
                    if acc:
                        u.update(acc)
                return
            if k == "mem" and not n.get("arrow"):
                b = ex.strip(n["b"]) if into_refs else _strip_casts(n["b"])
                if b is not None and b.get("k") == "var" and b.get("id") in self.struct_fields:
                    u.add((b["id"], n["f"]))
                    return
            if k == "asg" and not into_refs:
                acc = self._local_access(n["l"])
                if acc is not None:
                    lstrip = ex.strip(n["l"])
                    direct = lstrip.get("k") in ("var", "mem")
                    if n["op"] == "=" and direct:
                        must.update(acc)
                    else:
                        may.update(acc)
                        if n["op"] != "=":
                            u.update(acc)
                    # index expressions on the left are reads
                    if lstrip.get("k") == "idx":
                        visit(lstrip["i"], u, into_refs)
                else:
                    p = lvpath(n["l"])
                    if is_persistent(p):
                        saves.append((p, reads_of(n["r"])))
                    visit(n["l"], u, into_refs)
                visit(n["r"], u, into_refs)
                return
            if k == "un" and n["op"] in ex.ASSIGN_UN and not into_refs:
                acc = self._local_access(n["e"])
                if acc is not None:
                    may.update(acc)
                    u.update(acc)
                    return
            if k == "decl" and not into_refs:
                if n.get("id") in self.vars:
                    must.update(self.pvs_of_var(n["id"]))
                if n.get("init") is not None:
                    visit(n["init"], u, into_refs)
                return
            if k == "asm" and not into_refs:
                for o in n["outs"]:
                    acc = self._local_access(o)
                    if acc is not None:
                        may.update(acc)
                        u.update(acc)
                    else:
                        visit(o, u, into_refs)
                for a in n["ins"]:
                    visit(a, u, into_refs)
                return
            if k == "call" and not into_refs:
                if "callee" in n:
                    visit(n["callee"], u, into_refs)
                for ai, a in enumerate(n["args"]):
                    a2 = _strip_casts(a)
                    if a2 is not None and a2.get("k") == "un" and a2["op"] == "&":
                        acc = self._local_access(a2["e"])
                        if acc is not None:
                            tgt = ex.strip(a2["e"])
                            fnm = n.get("fn")
                            if tgt.get("k") == "var" and tgt.get("id") in self.struct_fields \
                                    and fnm and self.prog.functions.get(fnm):
                                w = self.pw.writes(fnm, ai)
                                if "*" in w:
                                    may.update(acc)
                                else:
                                    may.update((tgt["id"], f) for f in w)
                            else:
                                may.update(acc)
                            u.update(acc)
                            continue
                    visit(a, u, into_refs)
                return
            for c in ex.children(n, into_refs):
                visit(c, u, into_refs)

        visit(e, uses, False)
        return uses, must, may, saves

    # ---- analysis --------------------------------------------------------------
    def find_switch(self):
        """Top-level state switch: switch on a field reached via pointer."""
        best = None
        for b in cfg.switch_blocks(self.fn):
            c = ex.strip(b.term.get("cond"))
            if c is None:
                continue
            p = lvpath(c)
            if is_persistent(p):
                n = len([s for s in b.succs if s is not None])
                if best is None or n > best[1]:
                    best = (b, n, p)
        return best

    def analyse(self):
        fn = self.fn
        sw = self.find_switch()
        if not sw:
            return None
        swb, ncases, swpath = sw
        labels = [s for s in swb.succs if s is not None]
        region = cfg.reachable(fn, labels)
        live = cfg.live_blocks(fn)
        prologue = cfg.reachable(fn, [fn.entry], stop=[swb.id]) - region
        eff = {}
        for b in fn.blocks.values():
            eff[b.id] = [self.elem_effects(e) for e in b.elems]
            # terminator conditions are elements already (cond is last elem) – but
            # conditions of && / ?: may only live in term: add their uses
            if b.term and "cond" in b.term:
                u, m, y, s = self.elem_effects(b.term["cond"])
                eff[b.id].append((u, set(), set(), []))

        # restore sources from prologue definitions
        restore = {}
        derived = {}
        for bid in prologue:
            b = fn.blocks[bid]
            for e in b.elems:
                if e is None:
                    continue
                for (l, r, op, node) in ex.writes(e):
                    acc = self._local_access(l)
                    if acc is None or r is None:
                        continue
                    rs = ex.strip(r)
                    # sources: persistent lvalues read by r
                    srcs = []
                    for x in ex.walk(r):
                        p = lvpath(x)
                        if is_persistent(p):
                            srcs.append(p)
                    lstrip = ex.strip(l)
                    if lstrip.get("k") == "var" and lstrip.get("id") in self.struct_fields:
                        # whole-struct copy: field-wise sources
                        for pv in acc:
                            for p in srcs:
                                restore.setdefault(pv, set()).add(p + (("field", pv[1]),))
                                restore.setdefault(pv, set()).add(p)
                    else:
                        for pv in acc:
                            for p in srcs:
                                restore.setdefault(pv, set()).add(p)
                            derived.setdefault(pv, []).append(r)

        # liveness (backward), block granular with element effects
        livein = {b: set() for b in fn.blocks}
        changed = True
        while changed:
            changed = False
            for bid in fn.blocks:
                out = set()
                for s in cfg.succs(fn, bid):
                    out |= livein[s]
                cur = set(out)
                for (u, m, y, s) in reversed(eff[bid]):
                    cur -= m
                    cur |= u
                if cur != livein[bid]:
                    livein[bid] = cur
                    changed = True
        live_at_label = {}
        for l in labels:
            for pv in livein[l]:
                live_at_label.setdefault(pv, []).append(l)

        # dirty (forward may): pv -> defined in region since last save
        def is_save(pv, saves):
            rs = restore.get(pv, ())
            for (p, reads) in saves:
                if pv not in reads:
                    continue
                for r in rs:
                    if p == r or (len(p) <= len(r) and r[:len(p)] == p):
                        return True
            return False

        dirty_in = {b: {} for b in fn.blocks}   # pv -> def line
        work = list(fn.blocks)
        while work:
            bid = work.pop()
            cur = dict(dirty_in[bid])
            inreg = bid in region
            b = fn.blocks[bid]
            for idx, (u, m, y, s) in enumerate(eff[bid]):
                if s:
                    for pv in list(cur):
                        if is_save(pv, s):
                            del cur[pv]
                if inreg:
                    e = b.elems[idx] if idx < len(b.elems) else None
                    ln = ex.line(e) if e is not None else 0
                    for pv in m | y:
                        cur[pv] = ln
                else:
                    for pv in m:
                        cur.pop(pv, None)
            for s_ in cfg.succs(fn, bid):
                tgt = dirty_in[s_]
                ch = False
                for pv, ln in cur.items():
                    if pv not in tgt:
                        tgt[pv] = ln
                        ch = True
                if ch:
                    work.append(s_)

        returned = set()
        for b, i, e in cfg.returns(fn):
            r = ex.strip(e.get("e"))
            if r is not None and r.get("k") == "var" and r.get("id") in self.vars:
                returned.update(self.pvs_of_var(r["id"]))

        dirty_exit = dirty_in[fn.exit]
        region_defs = {}
        for bid in region:
            for idx, (u, m, y, s) in enumerate(eff[bid]):
                for pv in m | y:
                    region_defs.setdefault(pv, 0)
                    region_defs[pv] += 1

        result = {
            "switch_line": swb.term["ln"], "n_labels": len(labels),
            "state": ex.show(swb.term["cond"]),
            "classes": {}, "violations": [], "derived": derived,
            "labels": labels,
        }
        for v in fn.vars:
            if v.get("param") or v.get("static"):
                continue
            for pv in self.pvs_of_var(v["id"]):
                nm = self.pv_name(pv)
                nreg = region_defs.get(pv, 0)
                live_l = live_at_label.get(pv, [])
                if not nreg:
                    cls = "prologue-only" if pv in restore or pv in derived or True else ""
                elif not live_l:
                    cls = "not-live-at-resume"
                elif pv in returned:
                    cls = "returned-value"
                elif pv in dirty_exit:
                    cls = "VIOLATION"
                    lbl = [fn.blocks[l].label for l in live_l[:4]]
                    result["violations"].append({
                        "pv": nm, "def_line": dirty_exit[pv],
                        "live_at": [(x or {}).get("n") or (x or {}).get("v") for x in lbl],
                        "restore": sorted(_pshow(p) for p in restore.get(pv, ())),
                    })
                else:
                    cls = "persisted"
                result["classes"][nm] = cls
        return result


def _pshow(p):
    s = ""
    for st in p:
        if st[0] == "var":
            s = st[1]
        elif st[0] == "deref":
            s = "(*%s)" % s
        elif st[0] == "field":
            s += "." + st[1]
        elif st[0] == "idx":
            s += "[]"
    return s
