"""E-AVAIL: the bounds fact `pos < size` is available (on every path of the product graph)
at every read/write of buf[pos]."""
from collections import deque

from . import ex, fd


class Triple:
    def __init__(self, buf, pos, size, pos_deref):
        self.buf, self.pos, self.size, self.pos_deref = buf, pos, size, pos_deref

    def is_pos(self, n):
        n = ex.strip(n)
        if n is None:
            return False
        if self.pos_deref:
            if n.get("k") == "un" and n["op"] == "*":
                b = ex.strip(n["e"])
                return b is not None and b.get("k") == "var" and b["n"] == self.pos
            return False
        return n.get("k") == "var" and n["n"] == self.pos

    def is_size(self, n):
        n = ex.strip(n)
        return n is not None and n.get("k") == "var" and n["n"] == self.size

    def index_uses_pos(self, ix):
        """index expression is pos, pos++ (post-increment)."""
        ix = ex.strip(ix)
        if ix is None:
            return False
        if self.is_pos(ix):
            return True
        if ix.get("k") == "un" and ix["op"] in ("post++",) and self.is_pos(ix["e"]):
            return True
        return False

    def __repr__(self):
        return "%s[%s%s] < %s" % (self.buf, "*" if self.pos_deref else "", self.pos, self.size)


def edge_gen(t, cond, label):
    """Does taking edge `label` out of a branch on `cond` establish pos < size?"""
    c = ex.strip(cond)
    neg = False
    while c is not None and c.get("k") == "un" and c["op"] == "!":
        neg = not neg
        c = ex.strip(c["e"])
    if c is None or c.get("k") != "bin":
        return False
    op = c["op"]
    l, r = c["l"], c["r"]
    truth = (label == "T") != neg
    # `++pos == size`: the comparison sees the incremented position (the increment itself is an element of the block
    # and has already killed the old fact)
    ls_ = ex.strip(l)
    if ls_ is not None and ls_.get("k") == "un" and ls_["op"] == "pre++":
        l = ls_["e"]
    if t.is_pos(l) and t.is_size(r):
        pass
    elif t.is_size(l) and t.is_pos(r):
        op = {"<": ">", ">": "<", "<=": ">=", ">=": "<=", "==": "==", "!=": "!="}.get(op)
    else:
        return False
    # now the condition reads  pos OP size
    if op == "<":
        return truth
    if op == ">=":
        return not truth
    if op == "==":          # under the invariant pos <= size
        return not truth
    if op == "!=":
        return truth
    return False


def elem_kills(t, e):
    if e is None:
        return False
    for (l, r, op, node) in ex.writes(e):
        if t.is_pos(l):
            return True
        ls = ex.strip(l)
        if not t.pos_deref and ls is not None and ls.get("k") == "var" and ls["n"] == t.pos:
            return True
    for c in ex.calls(e, into_refs=False):
        for a in c["args"]:
            a2 = ex.strip(a)
            if a2 is None:
                continue
            if t.pos_deref and a2.get("k") == "var" and a2["n"] == t.pos:
                return True
            if not t.pos_deref and a2.get("k") == "un" and a2["op"] == "&":
                b = ex.strip(a2["e"])
                if b is not None and b.get("k") == "var" and b["n"] == t.pos:
                    return True
    return False


def elem_uses(t, e):
    """idx nodes buf[pos...] in element e (own nodes)."""
    out = []
    if e is None:
        return out
    for x in ex.walk(e, into_refs=False):
        if x.get("k") == "idx":
            b = ex.strip(x["b"])
            if b is not None and b.get("k") == "var" and b["n"] == t.buf and t.index_uses_pos(x["i"]):
                out.append(x)
    return out


def solve(g, t):
    """Must-dataflow over FD graph g.  Returns list of (block, idx, idx node) uses without the fact,
    and the number of uses examined."""
    fn = g.fn
    TOP = True
    val = {n: TOP for n in g.nodes}
    for n in g.nodes:
        if n[0] == fn.entry:
            val[n] = False
    preds = {}
    for src, outs in g.succ.items():
        for (d, label) in outs:
            preds.setdefault(d, []).append((src, label))

    def out_of(n):
        cur = val[n]
        for e in fn.blocks[n[0]].elems:
            if elem_kills(t, e):
                cur = False
        return cur

    def edge_val(src, label):
        b = fn.blocks[src[0]]
        cur = out_of(src)
        if b.term and "cond" in b.term and label in ("T", "F"):
            if edge_gen(t, b.term["cond"], label):
                cur = True
        return cur

    changed = True
    rounds = 0
    while changed and rounds < 100:
        changed = False
        rounds += 1
        for n in g.nodes:
            if n[0] == fn.entry and not preds.get(n):
                continue
            ps = [p for p in preds.get(n, ()) if p[1] != "resume"]
            if not ps:
                new = False
            else:
                new = all(edge_val(s, l) for (s, l) in ps)
            if n[0] == fn.entry:
                new = False
            if new != val[n]:
                val[n] = new
                changed = True
    bad = {}
    nuses = 0
    seen_sites = set()
    for n in g.nodes:
        cur = val[n]
        blk = fn.blocks[n[0]]
        for i, e in enumerate(blk.elems):
            us = elem_uses(t, e)
            for u in us:
                site = (n[0], i, id(u))
                if site not in seen_sites:
                    seen_sites.add(site)
                    nuses += 1
                if not cur:
                    bad.setdefault(site, (blk, i, u))
            if elem_kills(t, e):
                cur = False
    return list(bad.values()), nuses
