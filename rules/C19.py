"""C19 — xz naming, overwrite protection and metadata handling (structural clauses)."""
import itertools

from sa import ex, cfg, fd, guard, machine
from sa.compdb import AnalysisBroken
from . import common
from .C17 import graph, call_blocks

FIO = "file_io.c"


def gkey(name, domain=(0, 1)):
    k = fd.Key("var", name, domain=domain, label=name)
    k.matches = lambda n, name=name: (ex.strip(n) is not None and ex.strip(n).get("k") == "var"
                                      and ex.strip(n)["n"] == name)
    return k


def strs(n):
    n = ex.strip(n)
    if n is None:
        return None
    if n.get("k") == "str":
        return n.get("s", "")
    if n.get("k") in ("const", "zero"):
        return None
    return "?"


def check_suffix(ck, prog):
    ck.rule("C19-SUF", "suffix tables agree: every suffix refused/added when compressing is removed when "
            "decompressing; defaults map back to the bare name; guards of test_suffix and suffix_set")
    cn = prog.fn("compressed_name", "suffix.c", target="xz")
    un = prog.fn("uncompressed_name", "suffix.c", target="xz")
    ck.saw_function(cn)
    ck.saw_function(un)

    def table(fn_, name):
        for b, i, e in fn_.iter_elems():
            if e.get("k") == "decl" and e["n"] == name and e.get("init") is not None:
                return ex.strip(e["init"])
        for g in prog.globals.get(name, []):
            if g.get("init") is not None and g["file"].endswith("suffix.c"):
                return ex.strip(g["init"])
        raise AnalysisBroken("table %s not found" % name)
    allsuf = table(cn, "all_suffixes")
    rows = []
    for row in allsuf["e"]:
        row = ex.strip(row)
        rows.append([strs(x) for x in row["e"]] if row.get("k") == "init" else [])
    fmt = prog.enum_with("FORMAT_AUTO", None)
    nfmt = len([k for k in fmt if k != "FORMAT_AUTO"])
    ck.ob("C19-SUF", "rows-per-format", len(rows) == nfmt, common.where(cn),
          "all_suffixes has %d rows for %d formats after FORMAT_AUTO" % (len(rows), nfmt), key="SUF:rows")
    order = sorted(fmt.items(), key=lambda kv: kv[1])
    names = [k for k, v in order if k != "FORMAT_AUTO"]
    defaults = {"FORMAT_XZ": ".xz", "FORMAT_LZMA": ".lzma", "FORMAT_LZIP": None, "FORMAT_RAW": None}
    for idx, nm in enumerate(names):
        first = rows[idx][0] if idx < len(rows) and rows[idx] else None
        ck.ob("C19-SUF", "default:" + nm, first == defaults.get(nm), common.where(cn),
              "row %d (%s) starts with %r, expected %r" % (idx, nm, first, defaults.get(nm)),
              key="SUF:default:" + nm)
    ut = table(un, "suffixes")
    umap = {}
    for row in ut["e"]:
        row = ex.strip(row)
        vals = [strs(x) for x in row["e"]]
        umap[vals[0]] = vals[1]
    for idx, row in enumerate(rows):
        for sfx in row:
            if sfx is None:
                continue
            ok = sfx in umap
            ck.ob("C19-SUF", "invertible:" + sfx, ok, common.where(un),
                  "suffix %s of the compress table %s by uncompressed_name()" % (
                      sfx, ("maps to '%s'" % umap[sfx]) if ok else "is NOT recognised"), key="SUF:inv:" + sfx)
    for sfx, want in ((".xz", ""), (".lzma", ""), (".txz", ".tar"), (".tlz", ".tar"), (".lz", "")):
        ck.ob("C19-SUF", "maps:" + sfx, umap.get(sfx) == want, common.where(un),
              "%s -> %r (expected %r)" % (sfx, umap.get(sfx), want), key="SUF:maps:" + sfx)
    # test_suffix: at least one character remains, not right after a directory separator
    ts = prog.fn("test_suffix", "suffix.c", target="xz")
    ck.saw_function(ts)
    g1 = guard.find_cmp(ts, "var:src_len", "var:suffix_len", ops=("<=",), rel_pass="F")
    g2 = guard.find_test(ts, "call:is_dir_sep", "F")
    ok = bool(g1) and bool(g2)
    pg = graph(prog, ts, [], [{}])
    cut = {(x.bid, x.pass_label) for x in g1}
    path, hit = guard.cut_reach(pg, [n for n in pg.nodes if n[0] == ts.entry], cut,
                                lambda n: "nonzero" if n[0] == ts.exit and (pg.get(n[1], "$ret") is None or
                                                                          any(v != 0 for v in pg.get(n[1], "$ret"))) else None)
    ck.ob("C19-SUF", "test_suffix-guards", ok and path is None, common.where(ts),
          "test_suffix returns non-zero only if src_len > suffix_len and no directory separator precedes",
          key="SUF:test_suffix")
    ss = prog.fn("suffix_set", "suffix.c", target="xz")
    ck.saw_function(ss)
    ge = [b for b in ss.blocks.values() if b.term and "cond" in b.term and ex.show(b.term["cond"]) == "suffix[0] == 0"]
    gd = guard.find_test(ss, "call:has_dir_sep", "F")
    fatal = any(c.get("fn") == "message_fatal" for b, i, e in ss.iter_elems() for c in ex.calls(e, into_refs=False))
    ck.ob("C19-SUF", "suffix_set-rejects", bool(ge) and bool(gd) and fatal, common.where(ss),
          "suffix_set rejects empty suffixes and suffixes containing a directory separator", key="SUF:suffix_set")
    # precedence: built-in table before the custom suffix when decompressing
    tsc = call_blocks(un, "test_suffix")
    custom = [x for x in tsc if "custom_suffix" in ex.show(x[2]["args"][0])]
    builtin = [x for x in tsc if "custom_suffix" not in ex.show(x[2]["args"][0])]
    ok = bool(custom) and bool(builtin) and all(
        custom[0][0].id in cfg.reachable(un, [b_[0].id]) and b_[0].id not in cfg.reachable(un, [custom[0][0].id])
        for b_ in builtin)
    gz = guard.find_cmp(un, "var:new_len", "const:0")
    ck.ob("C19-SUF", "builtin-first", ok and bool(gz), common.where(un),
          "uncompressed_name tries the built-in suffixes first and the custom suffix only if none matched",
          key="SUF:builtin-first")
    # unknown suffix: warning + NULL
    ck.ob("C19-SUF", "unknown-suffix-skipped",
          any(c.get("fn") == "message_warning" for b, i, e in un.iter_elems() for c in ex.calls(e, into_refs=False)),
          common.where(un), "unknown suffix: warning and NULL", key="SUF:unknown")
    # compressing: a name that already ends with the custom suffix is refused whatever the format is
    cn = prog.fn("compressed_name", "suffix.c", target="xz")
    ck.saw_function(cn)
    tcs = [x for x in call_blocks(cn, "test_suffix") if "custom_suffix" in ex.show(x[2]["args"][0])]
    if not tcs:
        raise AnalysisBroken("compressed_name: test_suffix(custom_suffix, ...) not found")
    B = tcs[0][0].id
    dom = cfg.dominators(cn)
    extra = None
    for d in dom.get(B, ()):
        blk = cn.blocks[d]
        if d == B or not blk.term or "cond" not in blk.term or len(blk.succs) != 2:
            continue
        r = [(y == B or (y is not None and B in cfg.reachable(cn, [y]))) for y in blk.succs]
        if r[0] == r[1]:
            continue
        # an assertion (the other successor aborts: it cannot reach the function's exit) decides nothing
        other = blk.succs[1] if r[0] else blk.succs[0]
        if other is None or (other != cn.exit and cn.exit not in cfg.reachable(cn, [other])):
            continue
        names = {x["n"] for x in ex.walk(blk.term["cond"]) if x.get("k") == "var"}
        if names - {"custom_suffix"}:
            extra = extra or blk.term["cond"]
    ck.ob("C19-SUF", "custom-suffix-always-tested", extra is None, common.where(cn, extra),
          "compressed_name: test_suffix(custom_suffix, ...) depends only on custom_suffix != NULL" if extra is None else
          "compressed_name(): the test for a name that already ends with the custom suffix is skipped unless `%s`: with that "
          "condition false a file that already carries the --suffix is compressed again (name.S.S) and the source removed "
          "without the documented warning" % ex.show(ex.strip(extra)), key="SUF:custom-suffix-always-tested")
    ck.floor("C19-SUF", 15)


def _lin(n, sign=1):
    """Linear form {term text: coefficient, '': constant} of a +/- expression."""
    n = ex.strip(n)
    out = {}
    if n is None:
        return out
    if n.get("k") == "bin" and n["op"] in ("+", "-"):
        for k_, v in _lin(n["l"], sign).items():
            out[k_] = out.get(k_, 0) + v
        for k_, v in _lin(n["r"], sign if n["op"] == "+" else -sign).items():
            out[k_] = out.get(k_, 0) + v
        return out
    cv = ex.const_val(n)
    if cv is not None:
        return {"": sign * cv}
    return {ex.show(n): sign}


def check_suffix_boundary(ck, prog):
    """test_suffix(): a name consists only of the suffix when the character *before* the suffix is a directory
    separator (or there is none).  The index of that character is src_len - suffix_len - 1."""
    ck.rule("C19-SUFPOS", "test_suffix examines the byte immediately before the suffix for a directory separator and "
                          "compares exactly the last suffix_len bytes")
    f = prog.fn("test_suffix", "suffix.c", target="xz")
    ck.saw_function(f)
    idx = []
    for b in f.blocks.values():
        for n in ([b.term["cond"]] if b.term and "cond" in b.term else []) + [e for e in b.elems if e is not None]:
            for x in ex.walk(n, into_refs=False):
                if x.get("k") == "idx" and ex.show(x["b"]) == "src_name":
                    idx.append(x)
    want = {"src_len": 1, "suffix_len": -1, "": -1}
    got = [_lin(x["i"]) for x in idx]
    got = [{k_: v for k_, v in g_.items() if v != 0} for g_ in got]
    ok = bool(got) and all(g_ == want for g_ in got)
    ck.ob("C19-SUFPOS", "separator-index", ok, common.where(f, idx[0]) if idx else common.where(f),
          "test_suffix: src_name[src_len - suffix_len - 1] is the byte tested with is_dir_sep()" if ok else
          "test_suffix(): the directory-separator test reads src_name[%s] instead of src_name[src_len - suffix_len - 1]: "
          "names like dir/.xz (the suffix alone after a directory part) are misclassified" % (
              ex.show(idx[0]["i"]) if idx else "?"), key="SUFPOS:separator-index")
    cmpa = [c for b, i, e in f.iter_elems() for c in ex.calls(e, into_refs=True) if c.get("fn") in ("suffix_strcmp", "strcmp")]
    okc = bool(cmpa) and all({k_: v for k_, v in _lin(c["args"][1]).items() if v != 0} ==
                             {"src_name": 1, "src_len": 1, "suffix_len": -1} for c in cmpa)
    ck.ob("C19-SUFPOS", "compare-window", okc, common.where(f),
          "test_suffix compares src_name + src_len - suffix_len with the suffix", key="SUFPOS:compare-window")


def check_src(ck, prog):
    ck.rule("C19-SRC", "io_open_src_real: O_NOFOLLOW unless --stdout/--force/--keep; success needs the "
            "file-type, setuid/setgid/sticky and hard-link refusals that apply to the option combination")
    f = prog.fn("io_open_src_real", FIO, target="xz")
    ck.saw_function(f)
    keys = [gkey("opt_stdout"), gkey("opt_force"), gkey("opt_keep_original"),
            fd.Key("var", "follow_symlinks", domain=(0, 1), label="follow_symlinks"),
            fd.Key("var", "reg_files_only", domain=(0, 1), label="reg_files_only"),
            fd.Key("var", "flags", label="flags")]
    O_NOFOLLOW = 0o400000
    ncase = 0
    for (so, fo, ke) in itertools.product((0, 1), (0, 1), (0, 1)):
        g = graph(prog, f, keys, [{"opt_stdout": [so], "opt_force": [fo], "opt_keep_original": [ke]}])
        ncase += 1
        # flags at open()
        vals = set()
        for (b, i, c) in call_blocks(f, "open"):
            for s in g.states_before_elem(b.id, i):
                v = g.aeval(c["args"][1], s)
                vals |= set(v) if v is not None else {None}
        want_nofollow = not (so or fo or ke)
        ok = bool(vals) and None not in vals and all(bool(v & O_NOFOLLOW) == want_nofollow for v in vals)
        ck.ob("C19-SRC", "nofollow:stdout=%d,force=%d,keep=%d" % (so, fo, ke), ok, common.where(f),
              "open() flags %s: O_NOFOLLOW %s" % (sorted(oct(v) if v is not None else "?" for v in vals),
                                                   "set" if want_nofollow else "not set"),
              key="SRC:nofollow:%d%d%d" % (so, fo, ke))
        # success exits (return false after open) and the tests they must pass
        openb = {b.id for (b, i, c) in call_blocks(f, "open")}
        # nodes after open
        starts = [d for n in g.nodes if n[0] in openb for (d, l) in g.succ.get(n, ())]

        def succ_exit(n):
            if n[0] != f.exit:
                return None
            v = g.get(n[1], "$ret")
            return "return false" if v is None or 0 in v else None

        reqs = [("not-directory", guard.find_cmp(f, "field:st_mode&const:61440", "const:16384", rel_pass="F",
                                                 ops=("==",)), True)]
        reqs.append(("regular-file", guard.find_cmp(f, "field:st_mode&const:61440", "const:32768"), not so))
        strict = (not so) and (not fo) and (not ke)
        reqs.append(("no-setuid-setgid", guard.find_test(f, "field:st_mode&const:3072", "F"), strict))
        reqs.append(("no-sticky", guard.find_test(f, "field:st_mode&const:512", "F"), strict))
        reqs.append(("single-link", guard.find_cmp(f, "field:st_nlink", "const:1", ops=(">",), rel_pass="F"), strict))
        for nm, gs, needed in reqs:
            if not needed:
                continue
            # S_ISREG appears twice (refusal and the FIFO wait): only guards whose failing edge leads to error
            cut = {(x.bid, x.pass_label) for x in gs}
            path, hit = guard.cut_reach(g, starts, cut, succ_exit)
            ck.ob("C19-SRC", "%s:stdout=%d,force=%d,keep=%d" % (nm, so, fo, ke), bool(gs) and path is None,
                  common.where(f),
                  "success is reachable only through the `%s` test" % nm if path is None and gs else
                  "io_open_src_real can succeed without the `%s` test for stdout=%d force=%d keep=%d" % (nm, so, fo, ke),
                  key="SRC:%s:%d%d%d" % (nm, so, fo, ke))
    ck.extra["src_option_cases"] = ncase
    ck.floor("C19-SRC", 20, "obligations")


def check_attr(ck, prog):
    ck.rule("C19-ATTR", "io_copy_attrs: the two permission expressions evaluated over all 4096 mode values never "
            "add bits; owner then group then mode; timestamps from the source")
    f = prog.fn("io_copy_attrs", FIO, target="xz")
    ck.saw_function(f)
    km = fd.Key("field", "st_mode", label="m", domain=range(4096))
    kmode = fd.Key("var", "mode", label="mode")
    g = fd.FD(prog, f, [km, kmode])
    asg = [(b, i, r) for b, i, e in f.iter_elems() for (l, r, op, n) in ex.writes(e)
           if ex.show(l) == "mode" and op == "=" and r is not None]
    if len(asg) != 3:
        raise AnalysisBroken("io_copy_attrs: expected 3 assignments to mode, found %d" % len(asg))
    # identify branches: two assignments in one block (restricted), one in another (plain)
    byb = {}
    for (b, i, r) in asg:
        byb.setdefault(b.id, []).append((i, r))
    restricted = [v for v in byb.values() if len(v) == 2]
    plain = [v for v in byb.values() if len(v) == 1]
    if len(restricted) != 1 or len(plain) != 1:
        raise AnalysisBroken("io_copy_attrs: unexpected shape of the mode computation")
    bad_p, bad_r = [], []
    for m in range(4096):
        st = g.make_state(m=[m])
        v = g.aeval(plain[0][0][1], st)
        if v is None or len(v) != 1 or list(v)[0] != (m & 0o777):
            bad_p.append((m, v))
        seq = sorted(restricted[0])
        v1 = g.aeval(seq[0][1], st)
        if v1 is None or len(v1) != 1:
            bad_r.append((m, v1))
            continue
        st2 = g.state_with(st, "mode", v1)
        v2 = g.aeval(seq[1][1], st2)
        if v2 is None or len(v2) != 1:
            bad_r.append((m, v2))
            continue
        r = list(v2)[0]
        both = ((m >> 3) & 7) & (m & 7)
        okv = (r & ~0o777) == 0 and (r & 0o700) == (m & 0o700) and ((r >> 3) & 7) == both and (r & 7) == both
        if not okv:
            bad_r.append((m, oct(r)))
    ck.ob("C19-ATTR", "mode-plain", not bad_p, common.where(f),
          "normal branch: mode == st_mode & 0777 for all 4096 values" if not bad_p else
          "normal branch: st_mode %s gives %s" % (oct(bad_p[0][0]), bad_p[0][1]), key="ATTR:mode-plain")
    ck.ob("C19-ATTR", "mode-restricted", not bad_r, common.where(f),
          "fchown(group) failed branch: owner bits kept, group = other = group & other, no special bits, for all "
          "4096 values" if not bad_r else
          "restricted branch: st_mode %s gives %s" % (oct(bad_r[0][0]), bad_r[0][1]), key="ATTR:mode-restricted")
    ck.extra["mode_values"] = 4096
    ck.exhaustive = True
    # order and arguments
    calls = [(ex.line(c), c.get("fn"), [ex.show(a) for a in c["args"]])
             for b, i, e in f.iter_elems() for c in ex.calls(e, into_refs=False)
             if c.get("fn") in ("fchown", "fchmod", "futimens", "futimes", "utimes", "futimesat")]
    calls.sort()
    names = [c[1] for c in calls]
    ok = names[:3] == ["fchown", "fchown", "fchmod"] and names[-1] in ("futimens", "futimes", "utimes", "futimesat")
    NOID = ("-1", "4294967295")
    ok = ok and calls[0][2][1] == "pair->src_st.st_uid" and calls[0][2][2] in NOID and \
        calls[1][2][1] in NOID and calls[1][2][2] == "pair->src_st.st_gid" and calls[2][2][1] == "mode"
    ck.ob("C19-ATTR", "owner-group-mode-time", ok, common.where(f),
          "fchown(uid) -> fchown(gid) -> fchmod(mode) -> timestamps: %s" % [(c[1], c[2][1:]) for c in calls],
          key="ATTR:order")
    tv = {}
    for b, i, e in f.iter_elems():
        for (l, r, op, n) in ex.writes(e):
            ls = ex.show(l)
            if ls.startswith("tv["):
                tv[ls] = ex.show(r)
    ok = tv.get("tv[0].tv_sec") == "pair->src_st.st_atim.tv_sec" and tv.get("tv[1].tv_sec") == "pair->src_st.st_mtim.tv_sec"
    ck.ob("C19-ATTR", "timestamps", ok, common.where(f), "timestamps copied from src_st: %s" % tv,
          key="ATTR:timestamps")
    ck.floor("C19-ATTR", 4)


def check_keep(ck, prog):
    ck.rule("C19-KEEP", "--stdout / --test imply keeping the source; keeping the source is the only thing that "
            "disables syncing besides --no-sync; exit status mapping")
    f = prog.fn("args_parse", "args.c", target="xz")
    ck.saw_function(f)
    # if (opt_stdout || opt_mode == MODE_TEST) { opt_keep_original = true; opt_stdout = true; }
    sets = [(b, i) for b, i, e in f.iter_elems() for (l, r, op, n) in ex.writes(e)
            if ex.show(l) == "opt_keep_original" and ex.is_const(r, 1)]
    ok = False
    for (b, i) in sets:
        conds = [ex.show(f.blocks[p].term["cond"]) for p in b.preds if f.blocks[p].term and "cond" in f.blocks[p].term]
        if "opt_stdout" in conds and "opt_mode == MODE_TEST" in conds:
            ok = True
    ck.ob("C19-KEEP", "stdout-or-test-keeps", ok, common.where(f),
          "args_parse: opt_stdout || opt_mode == MODE_TEST forces opt_keep_original = true", key="KEEP:implies")
    # that block post-dominates option parsing: every return of args_parse passes the test
    tests = [b.id for b in f.blocks.values() if b.term and "cond" in b.term and ex.show(b.term["cond"]) == "opt_stdout"]
    seen = set()
    st = [f.entry]
    reach_exit = False
    while st:
        x = st.pop()
        if x in seen or x in tests:
            continue
        seen.add(x)
        if x == f.exit:
            reach_exit = True
        st.extend(cfg.succs(f, x))
    noreturn_only = True
    ck.ob("C19-KEEP", "implication-on-every-path", not reach_exit or _only_noreturn(f, seen), common.where(f),
          "every normal return of args_parse evaluates the stdout/test implication", key="KEEP:every-path")
    # opt_synchronous = false only under opt_keep_original or --no-sync
    ss = [(b, i, ex.line(n)) for b, i, e in f.iter_elems() for (l, r, op, n) in ex.writes(e)
          if ex.show(l) == "opt_synchronous" and ex.is_const(r, 0)]
    sites = 0
    for g_ in prog.all_functions("xz"):
        for b, i, e in g_.iter_elems():
            for (l, r, op, n) in ex.writes(e):
                if ex.show(l) == "opt_synchronous" and ex.is_const(r, 0):
                    sites += 1
    okk = any("opt_keep_original" in [ex.show(f.blocks[p].term["cond"]) for p in b.preds
                                      if f.blocks[p].term and "cond" in f.blocks[p].term] for (b, i, ln) in ss)
    ck.ob("C19-KEEP", "sync-disabled-sites", sites == 2 and okk, common.where(f),
          "opt_synchronous = false at %d sites (--no-sync and `if (opt_keep_original)`)" % sites,
          key="KEEP:sync-sites")
    # main: E_WARNING && no_warn -> E_SUCCESS
    m = prog.fn("main", "main.c", target="xz")
    ck.saw_function(m)
    okm = any(b.term and "cond" in b.term and ex.show(b.term["cond"]) in ("no_warn", "es == E_WARNING")
              for b in m.blocks.values()) and any(
        ex.show(n) == "es = E_SUCCESS" for b, i, e in m.iter_elems() for (l, r, op, n) in ex.writes(e))
    ck.ob("C19-KEEP", "no-warn-mapping", okm, common.where(m),
          "main maps E_WARNING to E_SUCCESS only with --no-warn", key="KEEP:no-warn")
    s_ = prog.fn("set_exit_status", "main.c", target="xz")
    gd = [b for b in s_.blocks.values() if b.term and "cond" in b.term and
          ex.show(b.term["cond"]) == "exit_status != E_ERROR"]
    ck.ob("C19-KEEP", "no-downgrade", bool(gd), common.where(s_), "set_exit_status never replaces E_ERROR",
          key="KEEP:no-downgrade")
    e_ = prog.enum_with("E_SUCCESS", None)
    ck.ob("C19-KEEP", "exit-values", (e_.get("E_SUCCESS"), e_.get("E_ERROR"), e_.get("E_WARNING")) == (0, 1, 2),
          "main.h", "E_SUCCESS/E_ERROR/E_WARNING = %s" % [e_.get(k) for k in ("E_SUCCESS", "E_ERROR", "E_WARNING")],
          key="KEEP:exit-values")
    ck.floor("C19-KEEP", 5)


def _only_noreturn(f, seen):
    """The exit block was reached only through blocks that end in a noreturn call."""
    for p in f.blocks[f.exit].preds:
        if p in seen:
            blk = f.blocks[p]
            names = [c.get("fn") for e in blk.elems if e for c in ex.calls(e, into_refs=False)]
            if not any(n in ("message_fatal", "tuklib_exit", "exit", "message_try_help", "message_help",
                             "message_version", "message_bug") for n in names):
                return False
    return True


def check_attr_branch(ck, prog):
    """The full permission bits of the source (st_mode & 0777) may be copied only if the target has the source's group:
    either the gids were equal or fchown(dest, -1, src_gid) SUCCEEDED.  From the failure edge of that fchown() the
    unrestricted store must be unreachable, whatever else is tested on the way (a `&& warn_fchown` added to silence the
    warning also switches the restricted mode off for every non-root user)."""
    f = prog.fn("io_copy_attrs", "file_io.c", target="xz")
    ck.saw_function(f)
    grp = None
    for b in f.blocks.values():
        if b.term and "cond" in b.term and len(b.succs) == 2:
            for c in ex.calls(b.term["cond"]):
                if c.get("fn") == "fchown" and len(c["args"]) == 3 and "st_gid" in ex.show(c["args"][2]):
                    grp = b
    if grp is None:
        raise AnalysisBroken("io_copy_attrs: fchown(dest_fd, -1, src gid) test not found")
    full = [b.id for b, i, e in f.iter_elems() for (l, r, op, nd) in ex.writes(e)
            if ex.show(l) == "mode" and r is not None and ex.strip(r).get("k") == "bin" and ex.strip(r)["op"] == "&"
            and ex.const_val(ex.strip(r)["r"]) == 0o777 and "st_mode" in ex.show(ex.strip(r)["l"])
            and ex.strip(ex.strip(r)["l"]).get("k") == "mem"]
    if not full:
        raise AnalysisBroken("io_copy_attrs: the unrestricted `mode = st_mode & 0777` store was not found")
    seen, st, hit = set(), [grp.succs[0]], False      # fchown() != 0  =>  failed
    while st:
        x = st.pop()
        if x in seen or x is None:
            continue
        seen.add(x)
        if x in full:
            hit = True
            break
        st.extend(y for y in f.blocks[x].succs if y is not None)
    # whether the group has to be changed is decided from the group the TARGET actually has (a setgid directory or BSD
    # group semantics give the new file the directory's group, not the process's)
    pre = [b for b in f.blocks.values() if b.term and "cond" in b.term and len(b.succs) == 2 and grp.id in b.succs and b.id != grp.id]
    ctxt = " ".join(ex.show(ex.strip(b.term["cond"])) for b in pre)
    okg = bool(pre) and "dest_st.st_gid" in ctxt and "src_st.st_gid" in ctxt
    ck.ob("C19-ATTR", "group-compared-with-target", okg, common.where(f, pre[0].term["cond"] if pre else grp.term["cond"]),
          "io_copy_attrs: fchown(group) is skipped only when dest_st.st_gid == src_st.st_gid" if okg else
          "io_copy_attrs(): the decision to call fchown(dest, -1, src gid) is `%s`, not a comparison of the target's own group "
          "(pair->dest_st.st_gid) with the source's: in a setgid directory the target silently keeps the directory's group "
          "and receives the source's group permission bits" % (ctxt or "unconditional"),
          key="ATTR:group-compared-with-target")
    ck.ob("C19-ATTR", "full-mode-needs-group", not hit, common.where(f, grp.term["cond"]),
          "io_copy_attrs: after a failed fchown(group) the unrestricted mode is unreachable" if not hit else
          "io_copy_attrs(): `mode = st_mode & 0777` is reachable after fchown(dest, -1, src gid) FAILED (an additional test "
          "sits between the failure and the restricted branch): the target keeps its own group but gets the source's group "
          "bits, so members of that group -- or everybody, via the other bits -- can read a file they could not read before",
          key="ATTR:full-mode-needs-group")


# long option -> short option it is documented as a synonym of (xz(1), "Operation modifiers" / "Other options")
LONG_SHORT = {
    "compress": "z", "decompress": "d", "uncompress": "d", "test": "t", "list": "l",
    "keep": "k", "force": "f", "stdout": "c", "to-stdout": "c", "suffix": "S",
    "quiet": "q", "verbose": "v", "no-warn": "Q", "format": "F", "check": "C", "threads": "T",
    "memlimit": "M", "memory": "M", "extreme": "e", "help": "h", "long-help": "H", "version": "V",
    "fast": "0", "best": "9",
}


# function that sets file times -> header that declares it (POSIX.1-2008 <sys/stat.h>: futimens, utimensat; <sys/time.h>:
# utimes, and by BSD/glibc convention futimes, futimesat; <utime.h>: utime; MSVCRT <sys/utime.h>: _futime)
TIME_DECL = {"futimens": "sys/stat.h", "futimes": "sys/time.h", "futimesat": "sys/time.h", "utimes": "sys/time.h",
             "_futime": "sys/utime.h", "utime": "utime.h"}


def check_time_probe(ck, rule="C19-ATTR"):
    """io_copy_attrs() keeps nanosecond timestamps only through futimens(); which function is used is decided by the
    check_symbol_exists() probes in CMakeLists.txt.  A probe that does not include the header declaring the function fails
    on every system, and xz silently falls back to the next, coarser function (futimes: microseconds).  The probes are
    compared with the declaring headers, and they are tried from the finest to the coarsest."""
    import os
    import re
    from .C20 import _override_path, REPO as _REPO
    path = os.path.join(_REPO, "CMakeLists.txt")
    cm = open(_override_path(path)).read()
    found = []
    for m in re.finditer(r"check_symbol_exists\(\s*(\w+)\s+\"([^\"]*)\"\s+(\w+)\s*\)", cm):
        if m.group(1) in TIME_DECL:
            found.append((m.group(1), m.group(2).split(";"), m.group(3), cm.count("\n", 0, m.start()) + 1))
    if [f_[0] for f_ in found][:2] != ["futimens", "futimes"]:
        raise AnalysisBroken("CMakeLists.txt: the probes for futimens/futimes were not found in that order (%s)" % [f_[0] for f_ in found])
    for sym, hdrs, macro, line in found:
        ok = TIME_DECL[sym] in hdrs and macro == "HAVE_" + sym.upper()
        ck.ob(rule, "probe:%s" % sym, ok, "CMakeLists.txt:%d" % line,
              "check_symbol_exists(%s \"%s\" %s)" % (sym, ";".join(hdrs), macro) if ok else
              "CMakeLists.txt: the probe for %s() includes %s but %s() is declared in <%s> (result macro %s): the probe fails on every "
              "system and xz falls back to a coarser function, so copied timestamps lose their sub-microsecond (or sub-second) part" % (
                  sym, hdrs, sym, TIME_DECL[sym], macro), key="ATTR:probe:%s" % sym)


def check_attr_last(ck, prog, rule="C19-ATTR"):
    """The timestamps are copied with futimens() on the open descriptor; any later write to the file (the one byte that turns a
    pending run of zeros into file size, io_close()) sets the modification time to "now" again.  In io_close() no path leads
    from io_copy_attrs() to lseek()/io_write_buf()/write()."""
    f = prog.fn("io_close", "file_io.c", target="xz")
    ck.saw_function(f)
    attr = [(b.id, i) for b, i, e in f.iter_elems() for c in ex.calls(e, into_refs=False) if c.get("fn") == "io_copy_attrs"]
    wr = [(b.id, i, c.get("fn")) for b, i, e in f.iter_elems() for c in ex.calls(e, into_refs=False)
          if c.get("fn") in ("io_write_buf", "write", "lseek", "ftruncate")]
    if not attr or not wr:
        raise AnalysisBroken("io_close: io_copy_attrs() / the write of the final sparse byte not found")
    bad = None
    for ab, ai in attr:
        seen, st = set(), [y for y in f.blocks[ab].succs if y is not None]
        for wb, wi, wn in wr:
            if wb == ab and wi > ai:
                bad = wn
        while st and bad is None:
            x = st.pop()
            if x in seen:
                continue
            seen.add(x)
            for wb, wi, wn in wr:
                if wb == x:
                    bad = wn
            st.extend(y for y in f.blocks[x].succs if y is not None)
    ck.ob(rule, "attrs-after-last-write", bad is None, common.where(f),
          "io_close: io_copy_attrs() runs after the last write to the target" if bad is None else
          "io_close(): %s() can run after io_copy_attrs(): when the data ends in a run of zeros the final byte is written after the "
          "timestamps were copied, so the target gets the current time instead of the source's modification time" % bad,
          key="ATTR:attrs-after-last-write")


def check_skip_status(ck, prog, rule="C19-SKIPSTATUS"):
    """A file that xz skips because of its name (already has the suffix, unknown suffix) makes the exit status 2: every
    `return NULL` of compressed_name()/uncompressed_name() is preceded by message_warning()/message_error() -- directly or
    through a helper of suffix.c that calls one of them on every path (msg_suffix).  message() alone prints but leaves the
    status 0, so a script cannot tell that a file was left uncompressed."""
    ck.rule(rule, "suffix.c: every refusal of a file name (return NULL) passes message_warning()/message_error()")
    STATUS = {"message_warning", "message_error", "message_fatal"}

    def via_of(names):
        return lambda bb, ii, ee: any(c.get("fn") in names for c in ex.calls(ee, into_refs=False))
    helpers = set()
    called = {c.get("fn") for nm_ in ("compressed_name", "uncompressed_name")
              for b, i, e in prog.fn(nm_, "suffix.c", target="xz").iter_elems() for c in ex.calls(e, into_refs=False)}
    for nm, fs in prog.functions.items():
        if nm not in called:
            continue
        for g in fs:
            if g.blocks and g.file.endswith("xz/suffix.c") and g.ret == "void":
                calls_any = any(c.get("fn") in STATUS | {"message"} for b, i, e in g.iter_elems() for c in ex.calls(e, into_refs=False))
                if not calls_any:
                    continue
                ok, path = cfg.must_pass(g, [g.entry], [g.exit], via_of(STATUS))
                ck.saw_function(g)
                ck.ob(rule, g.name, ok, common.where(g),
                      "%s(): message_warning()/message_error() on every path" % g.name if ok else
                      "%s() reports the refusal with message() only (lines %s): the text is printed but set_exit_status(E_WARNING) "
                      "is never called, so xz exits 0 although it skipped the file" % (g.name, cfg.path_lines(g, path)),
                      key="SKIPSTATUS:%s" % g.name)
                if ok:
                    helpers.add(g.name)
    n = 0
    for nm in ("compressed_name", "uncompressed_name"):
        f = prog.fn(nm, "suffix.c", target="xz")
        ck.saw_function(f)
        nulls = [b.id for b, i, e in f.iter_elems() if ex.deref(e).get("k") == "ret" and ex.deref(e).get("e") is not None
                 and ex.const_val(ex.strip(ex.deref(e)["e"])) == 0]
        if not nulls:
            raise AnalysisBroken("%s: no `return NULL`" % nm)
        n += len(nulls)
        all_helpers = {g.name for fs in prog.functions.values() for g in fs if g.blocks and g.file.endswith("xz/suffix.c") and g.ret == "void"
                       and g.name in called and any(c.get("fn") in STATUS | {"message"} for b, i, e in g.iter_elems() for c in ex.calls(e, into_refs=False))}
        ok, path = cfg.must_pass(f, [f.entry], nulls, via_of(STATUS | all_helpers))
        ck.ob(rule, nm, ok, common.where(f),
              "%s: %d `return NULL` sites, each after a warning/error" % (nm, len(nulls)) if ok else
              "%s() can return NULL (lines %s) without message_warning()/message_error(): the file is skipped silently and the "
              "exit status stays 0" % (nm, cfg.path_lines(f, path)), key="SKIPSTATUS:%s" % nm)
    ck.floor(rule, 3)


def check_longopts(ck, prog):
    """The exit-status and keep/force/stdout clauses are stated for the options as documented: `--no-warn` is `-Q`
    (warnings do not change the exit status), `--keep` is `-k`, ...  The getopt_long() table must map each long option
    that has a short form to that short form."""
    ck.rule("C19-OPTMAP", "parse_real: every long option with a documented short synonym maps to that short option")
    f = prog.fn("parse_real", "args.c", target="xz")
    ck.saw_function(f)
    tab = None
    for b, i, e in f.iter_elems():
        d = ex.deref(e)
        if d.get("k") == "decl" and d.get("n") == "long_opts" and d.get("init") is not None:
            tab = (ex.strip(d["init"]), e)
    if tab is None or tab[0].get("k") != "init":
        raise AnalysisBroken("parse_real: long_opts table not found")
    got = {}
    for x in tab[0]["e"]:
        x = ex.strip(x)
        if x is None or x.get("k") != "init" or not x.get("fields"):
            continue
        ent = dict(zip(x["fields"], x["e"]))
        nm = ex.show(ex.strip(ent["name"])).strip('"')
        got[nm] = (ex.const_val(ent["val"]), ex.const_val(ent["flag"]))
    n = 0
    for nm, short in sorted(LONG_SHORT.items()):
        if nm not in got:
            raise AnalysisBroken("parse_real: long option --%s vanished from long_opts" % nm)
        n += 1
        v, fl = got[nm]
        ok = v == ord(short) and fl in (0, None)
        ck.ob("C19-OPTMAP", "--" + nm, ok, common.where(f, tab[1]),
              "--%s -> -%s" % (nm, short) if ok else
              "parse_real(): the long option --%s is mapped to %s instead of -%s: the documented behaviour of --%s (and what "
              "scripts that spell options out rely on) is that of -%s" % (
                  nm, ("-" + chr(v)) if v is not None and 32 < v < 127 else v, short, nm, short), key="OPTMAP:--" + nm)
    ck.floor("C19-OPTMAP", 20)
    check_longopts_enum(ck, prog, got_nodes=tab, rule="C19-OPTMAP")
    return n


# enumerator of a long-only option -> its documented name, where the name is not the enumerator's own
OPT_NAME_EXCEPT = {"OPT_MEM_COMPRESS": "memlimit-compress", "OPT_MEM_DECOMPRESS": "memlimit-decompress",
                   "OPT_MEM_MT_DECOMPRESS": "memlimit-mt-decompress"}


def check_longopts_enum(ck, prog, got_nodes=None, rule="C19-OPTMAP", only=None):
    """Long-only options are dispatched through OPT_* enumerators named after the option: --no-sync is OPT_NO_SYNC, --no-sparse
    is OPT_NO_SPARSE, ...  An entry whose name and enumerator disagree makes one documented option behave as another."""
    f = prog.fn("parse_real", "args.c", target="xz")
    ck.saw_function(f)
    tab = got_nodes
    if tab is None:
        for b, i, e in f.iter_elems():
            d = ex.deref(e)
            if d.get("k") == "decl" and d.get("n") == "long_opts" and d.get("init") is not None:
                tab = (ex.strip(d["init"]), e)
    if tab is None or tab[0].get("k") != "init":
        raise AnalysisBroken("parse_real: long_opts table not found")
    n = 0
    allnames, allenums = set(), set()
    for x in tab[0]["e"]:
        x = ex.strip(x)
        if x is not None and x.get("k") == "init" and x.get("fields"):
            ent = dict(zip(x["fields"], x["e"]))
            allnames.add(ex.show(ex.strip(ent["name"])).strip('"'))
            v = ex.strip(ent["val"])
            if v is not None and v.get("k") == "enum":
                allenums.add(v.get("n"))
    for x in tab[0]["e"]:
        x = ex.strip(x)
        if x is None or x.get("k") != "init" or not x.get("fields"):
            continue
        ent = dict(zip(x["fields"], x["e"]))
        nm = ex.show(ex.strip(ent["name"])).strip('"')
        v = ex.strip(ent["val"])
        en = v.get("n") if v is not None and v.get("k") == "enum" else None
        if not en or not en.startswith("OPT_"):
            continue
        if only is not None and nm not in only and en not in {"OPT_" + o.upper().replace("-", "_") for o in only}:
            continue
        n += 1
        want = OPT_NAME_EXCEPT.get(en, en[4:].lower().replace("_", "-"))
        # a mismatch is decided only when it is a cross-mapping: the enumerator's own option, or the option's own enumerator,
        # exists in the table as well (a new option whose enumerator is merely abbreviated is not an error)
        cross = nm != want and (want in allnames or ("OPT_" + nm.upper().replace("-", "_")) in allenums)
        ck.ob(rule, "--%s" % nm, not cross, common.where(f, x),
              "--%s -> %s" % (nm, en) if not cross else
              "parse_real(): the long option --%s is dispatched as %s, i.e. as --%s: `xz --%s` silently does what --%s does "
              "(and not what --%s is documented to do)" % (nm, en, want, nm, want, nm), key="OPTMAP:--%s" % nm)
    if n < (2 if only else 30):
        raise AnalysisBroken("parse_real: only %d long-only options with OPT_* enumerators found" % n)


def run(ck):
    ck.explanation = (
        "Table agreement between the compress and decompress suffix tables; finite-domain evaluation of "
        "io_open_src_real for all 8 combinations of --stdout/--force/--keep (open flags and the refusals every "
        "success path must pass); exhaustive evaluation of io_copy_attrs' permission expressions over all 4096 "
        "mode values; keep/sync implications in args_parse; exit status mapping.")
    ck.not_decided = ("invertibility of names for all byte strings (string arithmetic of the name builders), "
                      "DOS/VMS branches (not compiled), O_EXCL/unlink rules are under C17-WHO.")
    prog = common.program(ck, ("xz",))
    check_suffix(ck, prog)
    check_skip_status(ck, prog)
    check_suffix_boundary(ck, prog)
    # the timestamps copied from the source survive only if nothing writes to the target afterwards (C17-ORDER)
    from . import C17
    C17.check_order(ck, prog)
    check_longopts(ck, prog)
    check_src(ck, prog)
    check_attr(ck, prog)
    check_attr_branch(ck, prog)
    check_attr_last(ck, prog)
    check_time_probe(ck)
    check_keep(ck, prog)
