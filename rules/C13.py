"""C13 — the Index and file-info APIs describe files exactly.

Decided (structural clauses):
  C13-DUP    lzma_index_dup / index_dup_stream copy every semantic member (field coverage).
  C13-INIT   index_init_plain / index_stream_init initialise every member.
  C13-AGG    the aggregate counters are updated together by append, combined by cat.
  C13-STRONG append/cat/stream_padding/stream_flags: no caller-visible write on any path
             that ends in an error return (validation precedes modification).
  C13-LIMIT  the limits of the format are tested in append/cat/stream_padding.
  C13-ITER   iter_set_info never keeps a pointer to the rightmost group of the last Stream.
  C13-SEEK   file_info_decode: guarded subtractions of file_target_pos; seek requests only
             through seek_to_pos.
"""
from sa import ex, cfg, cover, fd, guard
from sa.compdb import AnalysisBroken
from . import common
from .oblig import PlainGraph, Present, evaluate

IDX = "index.c"

DUP_EXCEPT = {
    "lzma_index_s@index.c": {
        "streams": "rebuilt Stream by Stream with index_tree_append()",
        "prealloc": "allocation tuning hint, reset to the default by design",
    },
    "index_stream@index.c": {
        "groups": "rebuilt: all Records are packed into one new group",
    },
}


def check_dup(ck, prog):
    ck.rule("C13-DUP", "dup functions assign every member of the record from the source "
            "(directly or through the init helper), except rebuilt containers")
    for fname, dest, src, rec in (("lzma_index_dup", "dest", "src", "lzma_index_s@index.c"),
                                  ("index_dup_stream", "dest", "src", "index_stream@index.c")):
        f = prog.fn(fname, IDX)
        ck.saw_function(f)
        cov, fields = cover.copy_coverage(prog, f, dest, src, rec)
        for fl in fields:
            exc = DUP_EXCEPT[rec].get(fl)
            if exc:
                ck.ob("C13-DUP", "%s:%s" % (fname, fl), True, common.where(f),
                      "member %s: exception (%s)" % (fl, exc))
                continue
            ok = fl in cov
            ck.ob("C13-DUP", "%s:%s" % (fname, fl), ok, common.where(f),
                  ("member '%s' of %s copied (%s)" % (fl, rec, cov[fl])) if ok else
                  "%s() does not copy member '%s' of %s from the source: the duplicate "
                  "differs from the original in that member" % (fname, fl, rec),
                  key="DUP:%s:%s" % (fname, fl))
    ck.floor("C13-DUP", 14)


def check_init(ck, prog):
    ck.rule("C13-INIT", "init functions write every member of the freshly allocated record")
    for fname, var, rec, exc in (
            ("index_init_plain", "i", "lzma_index_s@index.c", {}),
            ("index_stream_init", "s", "index_stream@index.c", {})):
        f = prog.fn(fname, IDX)
        ck.saw_function(f)
        w, fields = cover.written_fields(prog, f, var, rec)
        for fl in fields:
            ok = fl in w or fl in exc
            ck.ob("C13-INIT", "%s:%s" % (fname, fl), ok, common.where(f, w.get(fl, 0)),
                  "member %s %s" % (fl, "initialised" if ok else
                                    "is not initialised by %s(): read later as garbage" % fname),
                  key="INIT:%s:%s" % (fname, fl))
    ck.floor("C13-INIT", 13)


AGG_INDEX = ("uncompressed_size", "total_size", "record_count", "index_list_size")
AGG_STREAM = ("record_count", "index_list_size")


def check_agg(ck, prog):
    ck.rule("C13-AGG", "aggregate counters: updated by append (index and stream), combined by cat "
            "with += from the source, checks folded before Streams are appended")
    f = prog.fn("lzma_index_append", IDX)
    ck.saw_function(f)
    upd = {}
    for b, i, e in f.iter_elems():
        for (l, r, op, node) in ex.writes(e):
            for var in ("i", "s"):
                fl = cover.field_of(l, var)
                if fl and op in ("+=", "pre++", "post++"):
                    upd[(var, fl)] = ex.line(node)
    for fl in AGG_INDEX:
        ck.ob("C13-AGG", "append:i->" + fl, ("i", fl) in upd, common.where(f, upd.get(("i", fl), 0)),
              "lzma_index_append %s i->%s" % ("updates" if ("i", fl) in upd else "does NOT update", fl),
              key="AGG:append:i:" + fl)
    for fl in AGG_STREAM:
        ck.ob("C13-AGG", "append:s->" + fl, ("s", fl) in upd, common.where(f, upd.get(("s", fl), 0)),
              "lzma_index_append %s s->%s" % ("updates" if ("s", fl) in upd else "does NOT update", fl),
              key="AGG:append:s:" + fl)
    # the values added are the ones validated: same index_list_size_add for both levels
    adds = {}
    for b, i, e in f.iter_elems():
        for (l, r, op, node) in ex.writes(e):
            for var in ("i", "s"):
                if cover.field_of(l, var) == "index_list_size" and op == "+=":
                    adds[var] = ex.show(r)
    ck.ob("C13-AGG", "append:list-size-same", adds.get("i") is not None and adds.get("i") == adds.get("s"),
          common.where(f), "index and stream index_list_size grow by the same amount (%s / %s)" % (
              adds.get("i"), adds.get("s")), key="AGG:append:list-size-same")

    g = prog.fn("lzma_index_cat", IDX)
    ck.saw_function(g)
    comb = {}
    order = []
    for b, i, e in g.iter_elems():
        for (l, r, op, node) in ex.writes(e):
            fl = cover.field_of(l, "dest")
            if fl and r is not None:
                if op in ("+=", "|=") and cover.reads_field(r, "src", fl):
                    comb[fl] = (op, ex.line(node))
    for fl in AGG_INDEX:
        ok = fl in comb and comb[fl][0] == "+="
        ck.ob("C13-AGG", "cat:" + fl, ok, common.where(g, comb.get(fl, (0, 0))[1]),
              "lzma_index_cat %s dest->%s += src->%s" % ("has" if ok else "lacks", fl, fl),
              key="AGG:cat:" + fl)
    ok = "checks" in comb and comb["checks"][0] == "|="
    ck.ob("C13-AGG", "cat:checks", ok, common.where(g, comb.get("checks", (0, 0))[1]),
          "lzma_index_cat %s dest->checks |= src->checks" % ("has" if ok else "lacks"),
          key="AGG:cat:checks")
    # dest->checks = lzma_index_checks(dest) dominates the call that moves the Streams
    fold = None
    helper = None
    for b, i, e in g.iter_elems():
        for (l, r, op, node) in ex.writes(e):
            if cover.field_of(l, "dest") == "checks" and op == "=" and r is not None:
                c = ex.strip(r)
                if c.get("k") == "call" and c.get("fn") == "lzma_index_checks":
                    fold = (b.id, i)
        for c in ex.calls(e, into_refs=False):
            if c.get("fn") == "index_cat_helper":
                helper = (b.id, i)
    ok = False
    if fold and helper:
        dom = cfg.dominators(g)
        ok = (fold[0] in dom.get(helper[0], ())) and (fold[0] != helper[0] or fold[1] < helper[1])
    ck.ob("C13-AGG", "cat:fold-last-check", ok, common.where(g),
          "check type of dest's last Stream is folded into dest->checks before src's Streams are "
          "appended" if ok else "dest->checks = lzma_index_checks(dest) does not dominate index_cat_helper()",
          key="AGG:cat:fold")
    ck.floor("C13-AGG", 13)


STRONG = [
    # function, visible parameter roots, callee effects {name: {arg idx}}
    ("lzma_index_append", ("i",), {"index_tree_append": {0, 1}}),
    ("lzma_index_cat", ("dest", "src"), {"index_cat_helper": {0, 1}, "lzma_free": {0}}),
    ("lzma_index_stream_padding", ("i",), {}),
    ("lzma_index_stream_flags", ("i",), {}),
]


def check_strong(ck, prog):
    ck.rule("C13-STRONG", "no store through a caller-visible pointer happens on a path that ends in "
            "an error return (stores undone from a saved copy are accepted)")
    cg = common.callgraph(prog)
    rs = common.retsets(prog)
    for fname, roots, eff in STRONG:
        f = prog.fn(fname, IDX)
        ck.saw_function(f)
        pg = PlainGraph(prog, f, cg, rs)
        res = cover.strong_guarantee(prog, f, pg.g, roots, effects=eff)
        nret = len(cfg.returns(f))
        if not res:
            ck.ob("C13-STRONG", fname, True, common.where(f),
                  "%d return sites: error returns reachable only before the first caller-visible store" % nret)
        for (rl, wl, lv) in res:
            ck.ob("C13-STRONG", fname, False, common.where(f, rl),
                  "%s() can return an error at line %d after having modified %s at line %d: the "
                  "Index is left changed by a failed call" % (fname, rl, lv, wl),
                  key="STRONG:%s:%s" % (fname, lv))
    ck.floor("C13-STRONG", 4)


LIMITS = [
    Present("append:unpadded-min", "lzma_index_append", IDX,
            ("rel", "var:unpadded_size", "const:5", ("<",), "F"), ("LZMA_PROG_ERROR",), plain=True,
            why="Unpadded Size >= UNPADDED_SIZE_MIN"),
    Present("append:unpadded-max", "lzma_index_append", IDX,
            ("rel", "var:unpadded_size", "const:9223372036854775804", (">",), "F"),
            ("LZMA_PROG_ERROR", "LZMA_DATA_ERROR"), plain=True, count=2,
            why="Unpadded Size and its running sum <= UNPADDED_SIZE_MAX"),
    Present("append:uncompressed-max", "lzma_index_append", IDX,
            ("rel", "var:uncompressed_size", "const:9223372036854775807", (">",), "F"),
            ("LZMA_PROG_ERROR", "LZMA_DATA_ERROR"), plain=True, count=2,
            why="Uncompressed Size and its running sum <= LZMA_VLI_MAX"),
    Present("append:file-size", "lzma_index_append", IDX,
            ("test", "call:index_file_size", "F", ("==",)), ("LZMA_DATA_ERROR",), plain=True,
            why="resulting file size representable"),
    Present("append:backward-size", "lzma_index_append", IDX,
            ("rel", "call:index_size", "const:17179869184", (">",), "F"), ("LZMA_DATA_ERROR",),
            plain=True, why="Index size <= LZMA_BACKWARD_SIZE_MAX"),
    Present("cat:file-size", "lzma_index_cat", IDX,
            ("rel", "call:lzma_index_file_size", "const:9223372036854775807", (">",), "F"),
            ("LZMA_DATA_ERROR",), plain=True, why="combined file size <= LZMA_VLI_MAX"),
    Present("cat:uncompressed", "lzma_index_cat", IDX,
            ("rel", "field:uncompressed_size", "const:9223372036854775807", (">",), "F"),
            ("LZMA_DATA_ERROR",), plain=True, why="combined uncompressed size <= LZMA_VLI_MAX"),
    Present("cat:backward-size", "lzma_index_cat", IDX,
            ("rel", "call:vli_ceil4", "const:17179869184", (">",), "F"), ("LZMA_DATA_ERROR",),
            plain=True, why="combined Index size <= LZMA_BACKWARD_SIZE_MAX"),
    Present("padding:file-size", "lzma_index_stream_padding", IDX,
            ("rel", "call:lzma_index_file_size", "const:9223372036854775807", (">",), "F"),
            ("LZMA_DATA_ERROR",), plain=True, why="file size with the new Stream Padding <= LZMA_VLI_MAX"),
    Present("padding:multiple4", "lzma_index_stream_padding", IDX,
            ("test", "var:stream_padding&const:3", "F"), ("LZMA_PROG_ERROR",), plain=True,
            why="Stream Padding is a multiple of four"),
]


def check_iter(ck, prog):
    ck.rule("C13-ITER", "iter_set_info classifies the group pointer three ways and does not keep a "
            "pointer to the rightmost group of the last Stream (lzma_index_cat reallocates it)")
    f = prog.fn("iter_set_info", IDX)
    ck.saw_function(f)
    en = prog.enum_with("ITER_METHOD_NEXT", f.file)
    stores = {}
    for b, i, e in f.iter_elems():
        for (l, r, op, node) in ex.writes(e):
            ls = ex.strip(l)
            # iter->internal[ITER_METHOD].s = X   /   iter->internal[ITER_GROUP].p = X
            if ls is not None and ls.get("k") == "mem" and ls["f"] in ("s", "p"):
                ib = ex.strip(ls["b"])
                if ib is not None and ib.get("k") == "idx":
                    idx = ex.strip(ib["i"])
                    if idx is not None and idx.get("k") == "enum":
                        stores.setdefault(idx["n"], []).append((r, ex.line(node), b.id))
    methods = {ex.strip(r).get("n") for (r, ln, bb) in stores.get("ITER_METHOD", [])
               if ex.strip(r) is not None}
    for m in ("ITER_METHOD_NORMAL", "ITER_METHOD_NEXT", "ITER_METHOD_LEFTMOST"):
        ck.ob("C13-ITER", "method:" + m, m in methods, common.where(f),
              "iter_set_info %s %s" % ("stores" if m in methods else "never stores", m),
              key="ITER:method:" + m)
    # in the NEXT and LEFTMOST branches internal[ITER_GROUP].p is overwritten
    grp = stores.get("ITER_GROUP", [])
    dom = cfg.dominators(f)
    for m in ("ITER_METHOD_NEXT", "ITER_METHOD_LEFTMOST"):
        mb = [bb for (r, ln, bb) in stores.get("ITER_METHOD", []) if (ex.strip(r) or {}).get("n") == m]
        ok = False
        for bb in mb:
            # a store to ITER_GROUP in the same block or a block that shares the branch
            for (r, ln, gb) in grp:
                if gb == bb or gb in cfg.reachable(f, [bb]) and bb in dom.get(gb, ()) or \
                        bb in cfg.reachable(f, [gb]) and gb in dom.get(bb, ()):
                    rr = ex.strip(r)
                    # must not be the plain `group` pointer
                    if not (rr is not None and rr.get("k") == "var" and rr["n"] == "group"):
                        ok = True
        ck.ob("C13-ITER", "group-replaced:" + m, ok, common.where(f),
              "%s branch %s internal[ITER_GROUP] with a stable pointer" % (
                  m, "replaces" if ok else "does NOT replace"), key="ITER:group:" + m)
    ck.floor("C13-ITER", 5)


SEEK_EXCEPT = {
    "new_padding": "bounded by construction: get_padding_size(temp, temp_size) <= temp_size bytes that "
                   "were just read from before file_target_pos (reverse_seek guarantees they exist)",
}


def check_seek(ck, prog):
    ck.rule("C13-SEEK", "file_info_decode: *seek_pos is stored only in seek_to_pos; every data-dependent "
            "decrement of file_target_pos is dominated by a comparison rejecting amounts larger than it")
    f = prog.fn("file_info_decode", "file_info.c")
    ck.saw_function(f)
    # who writes *seek_pos / external_seek_pos
    writers = set()
    for g in prog.fns_in("file_info.c"):
        for b, i, e in g.iter_elems():
            for (l, r, op, node) in ex.writes(e):
                ls = ex.strip(l)
                if ls is not None and ls.get("k") == "un" and ls["op"] == "*":
                    t = ex.strip(ls["e"])
                    if t is not None and ((t.get("k") == "mem" and t["f"] == "external_seek_pos") or
                                          (t.get("k") == "var" and t["n"] == "seek_pos")):
                        writers.add(g.name)
    ck.ob("C13-SEEK", "seek-writers", writers <= {"seek_to_pos", "lzma_file_info_decoder_init",
                                                  "file_info_decoder_init"} and "seek_to_pos" in writers,
          common.where(f), "functions storing the seek position: %s" % sorted(writers),
          key="SEEK:writers")
    # guarded subtractions
    dom = cfg.dominators(f)
    subs = []
    for b, i, e in f.iter_elems():
        for (l, r, op, node) in ex.writes(e):
            if ex.field_key(l) and ex.field_key(l)[1] == "file_target_pos" and op == "-=":
                subs.append((b, i, r, node))
    n_data = 0
    for (b, i, r, node) in subs:
        rs = ex.strip(r)
        if rs is not None and rs.get("k") in ("const", "enum"):
            continue
        # data-dependent amount: find a dominating branch comparing file_target_pos with it
        n_data += 1
        amount_txt = ex.show(r)
        ok = False
        why = ""
        if amount_txt in SEEK_EXCEPT:
            ck.ob("C13-SEEK", "sub:" + amount_txt, True, common.where(f, node),
                  "file_target_pos -= %s: exception (%s)" % (amount_txt, SEEK_EXCEPT[amount_txt]))
            continue
        for blk in f.blocks.values():
            t = blk.term
            if not t or "cond" not in t or len(blk.succs) != 2:
                continue
            c = ex.strip(t["cond"])
            if c is None or c.get("k") != "bin" or c["op"] not in ("<", ">", "<=", ">="):
                continue
            if not guard.pat_match(f, c, "field:file_target_pos"):
                continue
            # amount mentioned on the other side (modulo local expansion)
            amt_fields = {x["f"] for x in ex.walk(r) if x.get("k") == "mem"} | \
                         {x["n"] for x in ex.walk(r) if x.get("k") == "var"}
            side_fields = {x["f"] for x in ex.walk(c) if x.get("k") == "mem"} | \
                          {x["n"] for x in ex.walk(c) if x.get("k") == "var"}
            if not (amt_fields & side_fields - {"coder", "file_target_pos"}):
                continue
            if blk.id in dom.get(b.id, ()):
                ok = True
                why = "guard `%s` at line %d" % (ex.show(c), t["ln"])
        ck.ob("C13-SEEK", "sub:" + amount_txt, ok, common.where(f, node),
              "file_target_pos -= %s: %s" % (amount_txt, why or
                                             "no dominating comparison of file_target_pos with the amount: "
                                             "a crafted Index/Footer could move the seek target before the file start"),
              key="SEEK:sub:" + amount_txt)
    if n_data < 2:
        raise AnalysisBroken("C13-SEEK: expected >= 2 data-dependent decrements of file_target_pos, saw %d" % n_data)


# (id, target, function, file, store/decl name, required (field) in the right-hand side, forbidden fields, why)
PROVENANCE = [
    ("append:number-base", "liblzma", "lzma_index_append", "index.c", "number_base",
     [("index_stream", "record_count")], [("lzma_index_s", "record_count")],
     "Block numbers restart in every Stream: a new Record group starts at the *Stream's* Record count + 1"),
    ("list:totals-compressed", "xz", "update_totals", "list.c", "compressed_size",
     [("call", "lzma_index_file_size")], [("call", "lzma_index_stream_size"), ("call", "lzma_index_total_size")],
     "the totals line sums whole files: Stream Padding and every Stream of a file count (lzma_index_file_size)"),
    ("list:totals-uncompressed", "xz", "update_totals", "list.c", "uncompressed_size",
     [("call", "lzma_index_uncompressed_size")], [], "sum of the files' uncompressed sizes"),
    ("list:check-offset", "xz", "parse_check_value", "list.c", "offset",
     [(None, "compressed_file_offset"), (None, "total_size")], [(None, "unpadded_size")],
     "the Check field ends where the Block ends (Block Padding included): offset = file offset + total_size - check size"),
]


def check_provenance(ck, prog, prog_xz, table=None, rule="C13-PROV", floor=4):
    ck.rule(rule, "derived figures are computed from the members the format defines them by")
    for (oid, target, fn, file, name, need, forbid, why) in (table if table is not None else PROVENANCE):
        pr = prog if target == "liblzma" else prog_xz
        f = pr.fn(fn, file, target=target if target != "liblzma" else None)
        ck.saw_function(f)
        rhs = []
        for b, i, e in f.iter_elems():
            e_ = ex.deref(e)
            if e_.get("k") == "decl" and e_["n"] == name and e_.get("init") is not None:
                rhs.append(e_["init"])
            for (l, r, op, node) in ex.writes(e):
                ls = ex.strip(l)
                if r is not None and ls is not None and ((ls.get("k") == "mem" and ls["f"] == name) or
                                                         (ls.get("k") == "var" and ls["n"] == name)):
                    rhs.append(r)
        if not rhs:
            raise AnalysisBroken("%s: no definition of %s" % (fn, name))

        def has(r_, rec, fld):
            if rec == "call":
                return any(c.get("fn") == fld for c in ex.calls(r_, into_refs=True))
            return any(x.get("k") == "mem" and x["f"] == fld and (rec is None or (x.get("rec") or "").startswith(rec))
                       for x in ex.walk(r_))
        ok = all(any(has(r_, rc, fl) for r_ in rhs) for (rc, fl) in need) and \
            not any(has(r_, rc, fl) for r_ in rhs for (rc, fl) in forbid)
        ck.ob(rule, oid, ok, common.where(f), "%s: %s = %s (%s)" % (fn, name, " / ".join(ex.show(r_) for r_ in rhs), why)
              if ok else "%s(): %s is computed as `%s`: %s" % (fn, name, " / ".join(ex.show(r_) for r_ in rhs), why),
              key="PROV:" + oid)
    ck.floor(rule, floor)


def check_treewalk(ck, prog):
    """index_tree_append(tree, node) re-links a node: it overwrites node->parent, ->left and ->right.  A function that
    moves nodes from one tree to another (index_cat_helper, recursing over the source tree) therefore has to read the
    node's old children BEFORE it appends the node: a read of the link members of the appended node after the call sees
    NULL / the new links, and the rest of the source tree is dropped (Streams missing from the concatenated index while
    the totals still count them)."""
    ck.rule("C13-TREEWALK", "no link member of a node is read after index_tree_append() re-linked that node")
    n = 0
    for f in prog.fns_in("index.c"):
        if not f.blocks:
            continue
        for b, i, e in f.iter_elems():
            for c in ex.calls(e, into_refs=False):
                if c.get("fn") != "index_tree_append" or len(c["args"]) < 2:
                    continue
                a = ex.strip(c["args"][1])
                if a is not None and a.get("k") == "un" and a["op"] == "&":
                    a = ex.strip(a["e"])
                nodetxt = ex.show(a)
                n += 1
                ck.saw_function(f)
                after = cfg.reachable(f, [y for y in b.succs if y is not None])
                bad = None
                for bb, ii, ee in f.iter_elems():
                    if not ((bb.id == b.id and ii > i) or (bb.id in after and not (bb.id == b.id and ii <= i))):
                        continue
                    wl = {id(ex.strip(l)) for (l, r, op, nd) in ex.writes(ee)}
                    for x in ex.walk(ee):
                        if x.get("k") == "mem" and x.get("f") in ("left", "right", "parent") and id(x) not in wl and \
                                ex.show(x.get("b")).replace("(", "").replace(")", "") in (nodetxt, nodetxt.replace("&", ""), "*" + nodetxt):
                            bad = bad or x
                ck.ob("C13-TREEWALK", "%s:%s" % (f.name, nodetxt), bad is None, common.where(f, bad or c),
                      "%s: the links of %s are not read after index_tree_append()" % (f.name, nodetxt) if bad is None else
                      "%s(): `%s` is read (line %s) after index_tree_append() re-linked %s (it sets parent/left/right of the "
                      "appended node): the old subtree is lost -- the remaining nodes of the source tree are never moved, "
                      "although the totals were already added" % (f.name, ex.show(bad), ex.line(bad), nodetxt),
                      key="TREEWALK:%s" % f.name)
    ck.floor("C13-TREEWALK", 3)


def check_curpos(ck, prog):
    """coder->file_cur_pos is the position in the FILE of the next byte the application will supply.  A helper that
    advances it by `*p - start` for a pointer parameter p measures consumption of whatever buffer p belongs to: at a call
    site where p is the position of the coder's own temporary buffer (`&coder->temp_pos`), the advance must be switched
    off (a bool parameter that guards the update and is `false` at that site).  Otherwise bytes re-read from coder->temp
    are counted as file progress and the next in-buffer seek lands at the wrong offset."""
    ck.rule("C13-CURPOS", "file_cur_pos advances only by consumption of application input")
    n = 0
    fns = [f for f in prog.fns_in("file_info.c") if f.blocks]
    for f in fns:
        params = [v["n"] for v in f.vars if v.get("param")]
        for b, i, e in f.iter_elems():
            for (l, r, op, node) in ex.writes(e):
                if not (ex.show(l).endswith("->file_cur_pos") and op == "+=" and r is not None):
                    continue
                # pointer parameters the amount is measured with (directly, through a local, or handed to lzma_bufcpy)
                txt = ex.show(r)
                locs = {}
                for bb, ii, ee in f.iter_elems():
                    e_ = ex.deref(ee)
                    if e_.get("k") == "decl" and e_.get("init") is not None:
                        locs[e_["n"]] = ex.show(e_["init"])
                for nm, init in locs.items():
                    if nm in txt:
                        txt += " " + init
                ptrs = [p_ for p_ in params if ("*" + p_) in txt or ("(" + p_ + ",") in txt or (", " + p_ + ",") in txt]
                if not ptrs:
                    continue
                # bool parameter guarding the update
                doms = cfg.dominators(f)
                gpar = None
                for d in doms.get(b.id, ()):
                    tb = f.blocks[d]
                    if tb.term and "cond" in tb.term and len(tb.succs) == 2:
                        c = ex.strip(tb.term["cond"])
                        if c.get("k") == "var" and c["n"] in params and (tb.succs[0] == b.id or tb.succs[0] in doms.get(b.id, ())):
                            gpar = c["n"]
                for g in fns:
                    for bb, ii, ee in g.iter_elems():
                        for c in ex.calls(ee, into_refs=False):
                            if c.get("fn") != f.name:
                                continue
                            for p_ in ptrs:
                                k = params.index(p_)
                                if k >= len(c["args"]):
                                    continue
                                act = ex.strip(c["args"][k])
                                internal = act is not None and act.get("k") == "un" and act["op"] == "&" and \
                                    ex.show(act["e"]).startswith("coder->")
                                n += 1
                                ok = True
                                if internal:
                                    ok = gpar is not None and ex.const_val(c["args"][params.index(gpar)]) == 0
                                ck.ob("C13-CURPOS", "%s<-%s:%s" % (f.name, g.name, ex.show(act)), ok, common.where(g, c),
                                      "%s called with %s = %s%s" % (f.name, p_, ex.show(act),
                                                                    " (update switched off by %s = false)" % gpar if internal else "")
                                      if ok else
                                      "%s() advances coder->file_cur_pos by `%s`, and %s() calls it with %s = %s, the position of the "
                                      "coder's own buffer%s: data re-read from coder->temp is counted as progress in the file, so "
                                      "later seek targets are computed from a wrong current position" % (
                                          f.name, ex.show(r)[:40], g.name, p_, ex.show(act),
                                          "" if gpar is None else " while %s is not false" % gpar),
                                      key="CURPOS:%s:%s" % (f.name, ex.show(act)))
    ck.floor("C13-CURPOS", 3)


def check_iterstate(ck, prog):
    """The iterator remembers its position as (method, group, record) and is documented to stay valid while Blocks are
    appended.  "The Stream has no Record group yet" (nothing returned for this Stream) and "Record 0 of the only group was
    returned" are different positions: iter_set_info() has to store different `method` values for them, otherwise after
    an append to a Stream that was empty lzma_index_iter_next() treats the first new Block as already returned and skips
    it (with one Block: reports the end although a Block was never visited)."""
    ck.rule("C13-ITERSTATE", "iter_set_info encodes 'no group yet' with a method value that no other position uses")
    f = prog.fn("iter_set_info", "index.c")
    ck.saw_function(f)
    gs = guard.find_cmp(f, "var:group", "const:0")
    if not gs:
        raise AnalysisBroken("iter_set_info: test `group == NULL` not found")
    doms = cfg.dominators(f)

    def stores_under(root):
        out = []
        for b, i, e in f.iter_elems():
            if b.id == root or root in doms.get(b.id, ()):
                for (l, r, op, n) in ex.writes(e):
                    if "ITER_METHOD" in ex.show(l) or (ex.strip(l).get("k") == "mem" and "internal" in ex.show(l) and
                                                        ex.const_val(ex.strip(ex.strip(l).get("b") or {}).get("i")) == 4):
                        out.append((ex.const_val(r), n))
        return out
    a = o = None
    for g_ in gs:
        tb = f.blocks[g_.bid]
        idx = {"T": 0, "F": 1}[g_.pass_label]
        null_succ, other_succ = tb.succs[idx], tb.succs[1 - idx]
        a_, o_ = stores_under(null_succ), stores_under(other_succ)
        if a_ and o_:
            a, o = a_, o_
    if not a or not o:
        a, o = a or [], o or []
        raise AnalysisBroken("iter_set_info: stores to internal[ITER_METHOD] not found in both branches (%d / %d)" % (len(a), len(o)))
    clash = [n for (v, n) in o if v in {x for (x, _n) in a}]
    ck.ob("C13-ITERSTATE", "empty-stream-method", not clash, common.where(f, clash[0] if clash else a[0][1]),
          "iter_set_info: method %s only for a Stream without groups; other positions use %s" % (
              sorted({x for (x, _n) in a}), sorted({x for (x, _n) in o})) if not clash else
          "iter_set_info(): the position 'this Stream has no Record group' is stored with the same method value (%s) as 'Record 0 "
          "of the only group was returned' (line %s): after lzma_index_append() adds the first Block to that Stream, "
          "lzma_index_iter_next() believes it was already returned and skips it" % (a[0][0], ex.line(clash[0])),
          key="ITERSTATE:empty-stream-method")


def check_total_limits(ck, prog):
    """Aggregate members of lzma_index (uncompressed_size, ...) are sums over all Streams and must stay valid lzma_vli
    values.  Sibling rule: when one function guards `i->m += x` with a comparison of `i->m (+ x)` against LZMA_VLI_MAX, every
    other `+=` site of the same member needs such a guard of its own, too -- a guard on a per-Stream base is not one.
    (lzma_index_cat() checks the total uncompressed size, lzma_index_append() must as well: otherwise cat + append builds an
    index whose total exceeds LZMA_VLI_MAX, the next overflow test wraps in uint64_t and locate/encode break.)"""
    ck.rule("C13-TOTALS", "every += site of an lzma_index aggregate that is limit-checked somewhere is limit-checked itself")
    VM = (1 << 63) - 1
    sites = {}
    for f in prog.fns_in("index.c"):
        if not f.blocks:
            continue
        doms = cfg.dominators(f)
        for b, i, e in f.iter_elems():
            for (l, r, op, n) in ex.writes(e):
                fk = ex.field_key(l)
                if op == "+=" and fk and fk[0] and fk[0].startswith("lzma_index_s"):
                    own = [d for d in doms.get(b.id, ()) if f.blocks[d].term and "cond" in f.blocks[d].term and
                           any(ex.const_val(y) == VM for y in ex.walk(f.blocks[d].term["cond"])) and
                           any(ex.field_key(y) == fk for y in ex.walk(f.blocks[d].term["cond"]) if y.get("k") == "mem")]
                    sites.setdefault(fk, []).append((f, n, bool(own)))
    n_ = 0
    for fk, lst in sorted(sites.items()):
        if not any(g for (f, n, g) in lst):
            continue
        for (f, n, g) in lst:
            n_ += 1
            ck.saw_function(f)
            ck.ob("C13-TOTALS", "%s:%s" % (f.name, fk[1]), g, common.where(f, n),
                  "%s: `%s` is behind a comparison of %s with LZMA_VLI_MAX" % (f.name, ex.show(n)[:50], fk[1]) if g else
                  "%s(): `%s` (line %s) is not guarded by a comparison of the index-wide %s with LZMA_VLI_MAX although %s guards "
                  "its own update of that member: the total over all Streams can exceed LZMA_VLI_MAX (cat of an empty index + "
                  "append), after which the overflow tests wrap and the index misreports offsets" % (
                      f.name, ex.show(n)[:50], ex.line(n), fk[1], ", ".join(sorted({x[0].name for x in lst if x[2]}))),
                  key="TOTALS:%s:%s" % (f.name, fk[1]))
    if n_ < 2:
        raise AnalysisBroken("C13-TOTALS: no aggregate with a limit-checked += site found (uncompressed_size expected)")


def check_seek_state(ck, prog, rule="C13-SEEKSTATE"):
    """file_info_decode() is re-entered after LZMA_SEEK_NEEDED in whatever state coder->sequence names.  A state body that
    moves the file position bookkeeping (compound update of a coder member) must therefore advance coder->sequence
    before it can return LZMA_SEEK_NEEDED, otherwise the update is applied a second time on re-entry."""
    ck.rule(rule, "after a compound update of the position bookkeeping, coder->sequence is advanced before "
                             "any LZMA_SEEK_NEEDED return")
    f = prog.fn("file_info_decode", "file_info.c")
    ck.saw_function(f)
    seekrets = [b.id for b in f.blocks.values() for e in b.elems if e is not None and ex.deref(e).get("k") == "ret"
                and "SEEK_NEEDED" in ex.show(ex.deref(e).get("e"))]
    if not seekrets:
        raise AnalysisBroken("file_info_decode: no return of LZMA_SEEK_NEEDED")
    # ... and calls of helpers that return LZMA_SEEK_NEEDED themselves (reverse_seek(): the result is passed on by
    # return_if_error)
    seekers = {nm for nm, fs in prog.functions.items() for g in fs if g.blocks and g.file.endswith("file_info.c")
               and g.name != "file_info_decode"
               and any(e is not None and ex.deref(e).get("k") == "ret" and "SEEK_NEEDED" in ex.show(ex.deref(e).get("e"))
                       for b in g.blocks.values() for e in b.elems)}
    if not seekers:
        raise AnalysisBroken("file_info.c: no helper returning LZMA_SEEK_NEEDED (reverse_seek)")
    seekrets += [b.id for b, i, e in f.iter_elems() for c in ex.calls(e, into_refs=False) if c.get("fn") in seekers]

    def via(bb, ii, ee):
        return any(ex.show(l) == "coder->sequence" for (l, r, op, n) in ex.writes(ee))
    # blocks that can be reached from the entry (the dispatch on coder->sequence) without a store to coder->sequence
    storeb = {b.id for b, i, e in f.iter_elems() if via(b, i, e)}
    fresh, st_ = set(), [f.entry]
    while st_:
        x = st_.pop()
        if x is None or x in fresh or x in storeb:
            continue
        fresh.add(x)
        st_.extend(f.blocks[x].succs)
    n = 0
    for b, i, e in f.iter_elems():
        for (l, r, op, node) in ex.writes(e):
            ls = ex.strip(l)
            if ls is None or ls.get("k") != "mem" or op not in ("-=", "+=") or not ex.show(l).startswith("coder->"):
                continue
            n += 1
            ok = any(via(b, j, b.elems[j]) for j in range(len(b.elems)) if b.elems[j] is not None)
            path = None
            if not ok and b.id not in fresh:
                ok = True       # every path from the dispatch to this update has already stored the next state
            if not ok:
                ok, path = cfg.must_pass(f, cfg.succs(f, b.id), seekrets, via)
            ck.ob(rule, "%s@%d" % (ls["f"], n), ok, common.where(f, node),
                  "`%s` is followed by a store to coder->sequence before any LZMA_SEEK_NEEDED" % ex.show(node) if ok else
                  "file_info_decode(): after `%s` (line %s) LZMA_SEEK_NEEDED can be returned (lines %s) with coder->sequence "
                  "unchanged: on re-entry the same state body runs again and applies the update twice" % (
                      ex.show(node), ex.line(node), cfg.path_lines(f, path)), key="SEEKSTATE:%s" % ls["f"])
    ck.floor(rule, 8, "obligations")


def check_nonempty_base(ck, prog):
    """uncompressed_sum is cumulative within a Stream, a group's first Record continues from group->node.uncompressed_base
    (iter_set_info computes the Block's size from exactly that: `record == 0 ? group->node.uncompressed_base :
    records[record - 1].uncompressed_sum`).  The "is this Block empty" test of LZMA_INDEX_ITER_NONEMPTY_BLOCK has to use
    the same predecessor, otherwise an empty Block that happens to be the first Record of a later group is returned."""
    f = prog.fn("lzma_index_iter_next", IDX)
    ck.saw_function(f)

    def leaves(n, depth=0):
        n = ex.strip(n)
        if n is None:
            return []
        if n.get("k") == "cond":
            return leaves(n.get("t"), depth) + leaves(n.get("f"), depth)
        if n.get("k") == "var" and n.get("s") != "p" and depth < 3:
            out = []
            for b, i, e in f.iter_elems():
                d = ex.deref(e)
                if d.get("k") == "decl" and d.get("n") == n["n"] and d.get("init") is not None:
                    out += leaves(d["init"], depth + 1)
                for (l, r, op, node) in ex.writes(e):
                    ls = ex.strip(l)
                    if ls is not None and ls.get("k") == "var" and ls["n"] == n["n"] and r is not None and op == "=":
                        out += leaves(r, depth + 1)
            return out or [n]
        return [n]
    prev = []
    site = None
    for b in f.blocks.values():
        if not (b.term and "cond" in b.term):
            continue
        c = ex.strip(b.term["cond"])
        if c is None or c.get("k") != "bin" or c["op"] not in ("==", "!="):
            continue
        for me, other in ((c["l"], c["r"]), (c["r"], c["l"])):
            t = ex.show(ex.strip(me))
            if t.startswith("group->records[") and t.endswith(".uncompressed_sum") and "- 1" not in t:
                prev += leaves(other)
                site = site or c
    if not prev:
        raise AnalysisBroken("lzma_index_iter_next: the emptiness comparison of LZMA_INDEX_ITER_NONEMPTY_BLOCK was not found")
    txt = [ex.show(x) for x in prev]
    has_base = any("node.uncompressed_base" in t for t in txt)
    const = [t for x, t in zip(prev, txt) if ex.const_val(x) is not None]
    ok = has_base and not const
    ck.ob("C13-ITER", "nonempty-base", ok, common.where(f, site),
          "lzma_index_iter_next: emptiness of a Record is tested against %s" % sorted(set(txt)) if ok else
          "lzma_index_iter_next(): the emptiness test of LZMA_INDEX_ITER_NONEMPTY_BLOCK compares records[record].uncompressed_sum "
          "with %s; for the first Record of a group the predecessor is group->node.uncompressed_base (as iter_set_info "
          "computes the Block size): an empty Block at the start of a later group is not skipped" % sorted(set(txt)),
          key="ITER:nonempty-base")


def run(ck):
    ck.explanation = (
        "Field-coverage, aggregate-update, effect-ordering (strong guarantee) and limit-guard rules over "
        "index.c, and guarded-subtraction / who-writes rules over file_info.c, decided on the AST/CFG of the "
        "current tree.")
    ck.not_decided = ("tree balancing, locate/iteration results, equality with a model of the sizes, "
                      "file-info over arbitrary read sizes, xz --list figures.")
    prog = common.program(ck, ("liblzma",))
    check_dup(ck, prog)
    check_init(ck, prog)
    check_agg(ck, prog)
    check_strong(ck, prog)
    ck.rule("C13-LIMIT", "each limit of the format has its guard and the guard's failing edge returns the error")
    evaluate(ck, prog, "C13-LIMIT", LIMITS, floor=9)
    # the Index decoder ends (LZMA_STREAM_END, index handed to the caller) only through its CRC32 comparison, and checks
    # every field on the way (obligations shared with C05): a premature end gives the file-info decoder / xz --list a
    # NULL or partial index
    from . import C05
    ck.rule("C13-IDXDEC", "index_decode reaches LZMA_STREAM_END only through the Index checks")
    evaluate(ck, prog, "C13-IDXDEC", [t for t in C05.TABLE if getattr(t, "fn", "") == "index_decode"], floor=4)
    # "... for every read size": the Index decoder's running CRC32 covers exactly the bytes before the CRC32 field,
    # wherever a read ends (rule shared with C06)
    from . import C06
    C06.check_crc(ck, prog)
    check_iter(ck, prog)
    check_nonempty_base(ck, prog)
    check_seek(ck, prog)
    check_seek_state(ck, prog)
    check_treewalk(ck, prog)
    check_curpos(ck, prog)
    check_iterstate(ck, prog)
    check_total_limits(ck, prog)
    from . import reinit
    ck.rule("C13-APPLY", "an amount measured in this call (padding found, bytes used) is applied to the persistent "
                         "member it updates on every way out that the caller continues from")
    reinit.check_local_applied(ck, prog, "C13-APPLY", files={"file_info.c", "index_decoder.c", "index_hash.c"})
    ck.floor("C13-APPLY", 4)
    # "for every ... seek pattern" on a re-used handle: the file-info and Index decoders start from what their init
    # functions store
    ck.rule("C13-INITCONS", "file-info / Index decoders: a member initialised on some OK paths of the init function is initialised on all")
    reinit.check_init_consistency(ck, prog, "C13-INITCONS", files={"file_info.c", "index_decoder.c"})
    ck.floor("C13-INITCONS", 5)
    ck.rule("C13-READFIRST", "file-info / Index decoders: what the coding function can read before storing to it is stored by the init function on every path returning LZMA_OK")
    reinit.check_read_first(ck, prog, "C13-READFIRST", files={"file_info.c", "index_decoder.c"})
    ck.floor("C13-READFIRST", 8)
    prog_xz = common.program(ck, ("xz",), files=("/list.c",))
    check_provenance(ck, prog, prog_xz)
    # lzma_file_info_decoder() with LZMA_FINISH: after LZMA_SEEK_NEEDED the application supplies new input, so lzma_code()
    # has to leave its "finishing" state (transition relation of lzma_code, shared with C11)
    from . import C11 as _C11
    _C11.check_fsm(ck, prog)
