"""C16 — legacy .lzma, foreign .lz and auto-detection follow their format rules."""
from sa import ex, cfg, fd, guard, machine
from sa.compdb import AnalysisBroken
from . import common
from .oblig import MP, Present, evaluate, graph_for
import spec.lzip as LZ

LZF = "lzip_decoder.c"
LZREC = "lzma_lzip_coder@lzip_decoder.c"
FORMAT = ("LZMA_FORMAT_ERROR",)
DATA = ("LZMA_DATA_ERROR",)
END = ("LZMA_STREAM_END",)


def check_lzip_tables(ck, prog):
    ck.rule("C16-LZIP", ".lz header: dictionary-size byte table (256 values, exhaustive) equals the spec; "
            "magic bytes, versions, lc/lp/pb and footer sizes as specified")
    cg = common.callgraph(prog)
    rs = common.retsets(prog)
    f = prog.fn("lzip_decode", LZF)
    ck.saw_function(f)
    en = prog.enum_with("SEQ_DICT_SIZE", f.file)
    rets = prog.enum("lzma_ret")
    keys = [fd.Key("field", "sequence", rec=LZREC, domain=en.values(), label="seq"),
            fd.Key("var", "ds", domain=range(256), label="ds"),
            fd.Key("var", "b2log", label="b2log"), fd.Key("var", "fracnum", label="fracnum"),
            fd.Key("field", "dict_size", rec="lzma_options_lzma", label="dict"),
            fd.Key("retval", "$ret", label="$ret")]
    g = fd.FD(prog, f, keys, cg=cg, split=256, call_values=lambda c, s: rs.call_set(c, f))
    ds_state = frozenset([en["SEQ_DICT_SIZE"]])
    g.run([g.make_state(seq=[en["SEQ_DICT_SIZE"]], **{"$ret": [machine.NO_RETURN_YET]})],
          stop=lambda bid, s: g.get(s, "seq") != ds_state)
    accepted, rejected = {}, set()
    asg = None
    for b, i, e in f.iter_elems():
        for (l, r, op, node) in ex.writes(e):
            if keys[4].matches(l) and op == "=":
                asg = (b.id, i)
    if asg is None:
        raise AnalysisBroken("lzip_decode: assignment to options.dict_size not found")
    for n in g.nodes:
        if n[0] == asg[0]:
            for s_ in g.transfer_block(asg[0], n[1], upto=asg[1] + 1):
                dsv = g.get(s_, "ds")
                dv = g.get(s_, "dict")
                if dsv is not None and len(dsv) == 1 and dv is not None and len(dv) == 1:
                    accepted.setdefault(list(dsv)[0], set()).add(list(dv)[0])
        dsv = g.get(n[1], "ds")
        if dsv is None or len(dsv) != 1:
            continue
        d = list(dsv)[0]
        if n[0] == f.exit:
            rv = g.get(n[1], "$ret")
            sv = g.get(n[1], "seq")
            if rv is not None and rets["LZMA_DATA_ERROR"] in rv and sv == frozenset([en["SEQ_DICT_SIZE"]]):
                rejected.add(d)
    bad = []
    for d in range(256):
        want = LZ.dict_size(d)
        if want is None:
            if d in accepted or d not in rejected:
                bad.append((d, "accepted %s" % sorted(accepted.get(d, [])), "spec: invalid"))
        else:
            if accepted.get(d) != {want} or d in rejected:
                bad.append((d, "code %s%s" % (sorted(accepted.get(d, [])), " or rejected" if d in rejected else ""),
                            "spec %d" % want))
    ck.ob("C16-LZIP", "dict-byte", not bad, common.where(f),
          "all 256 dictionary-size bytes agree with the spec (%d valid codes, 4 KiB..512 MiB)" % (
              sum(1 for d in range(256) if LZ.dict_size(d) is not None)) if not bad else
          ".lz dictionary byte %#x: %s, %s (%d values differ)" % (bad[0][0], bad[0][1], bad[0][2], len(bad)),
          key="LZIP:dict-byte")
    ck.extra["lzip_dict_cases"] = 256
    # magic
    magic = None
    for b, i, e in f.iter_elems():
        if e.get("k") == "decl" and e["n"] == "lzip_id_string" and e.get("init") is not None:
            ini = ex.strip(e["init"])
            if ini.get("k") == "init":
                magic = [ex.const_val(x) for x in ini["e"]]
    ck.ob("C16-LZIP", "magic", magic == LZ.MAGIC, common.where(f),
          "ID string %s, spec %s" % (magic, LZ.MAGIC), key="LZIP:magic")
    # lc/lp/pb
    got = {}
    for b, i, e in f.iter_elems():
        for (l, r, op, node) in ex.writes(e):
            fk = ex.field_key(l)
            if fk and fk[0] == "lzma_options_lzma" and fk[1] in ("lc", "lp", "pb") and r is not None:
                got[fk[1]] = ex.const_val(r)
    ck.ob("C16-LZIP", "lclppb", got == {"lc": LZ.LC, "lp": LZ.LP, "pb": LZ.PB}, common.where(f),
          "lc/lp/pb = %s, spec 3/0/2" % got, key="LZIP:lclppb")
    # footer size by version
    fs = None
    for b, i, e in f.iter_elems():
        if e.get("k") == "decl" and e["n"] == "footer_size" and e.get("init") is not None:
            c = ex.strip(e["init"])
            if c.get("k") == "cond":
                cc = ex.strip(c["c"])
                if cc.get("k") == "bin" and cc["op"] == "==" and ex.is_const(cc["r"], 0) and \
                        ex.field_key(cc["l"]) and ex.field_key(cc["l"])[1] == "version":
                    fs = {0: ex.const_val(c["t"]), 1: ex.const_val(c["f"])}
    ck.ob("C16-LZIP", "footer-size", fs == LZ.FOOTER_SIZE, common.where(f),
          "footer sizes by version %s, spec %s" % (fs, LZ.FOOTER_SIZE), key="LZIP:footer-size")


K_FIRST = fd.Key("field", "first_member", rec=LZREC, domain=(0, 1), label="first")
K_ACTION = fd.Key("var", "action", domain=range(5), label="action")


def check_trail(ck, prog):
    ck.rule("C16-TRAIL", ".lz trailing data: a magic mismatch after the first member ends the stream "
            "without consuming the byte; at the first member it is a format error; input end between "
            "members ends only with LZMA_FINISH")
    cg = common.callgraph(prog)
    rs = common.retsets(prog)
    f = prog.fn("lzip_decode", LZF)
    rets = prog.enum("lzma_ret")
    names = {v: k for k, v in rets.items()}
    gs = guard.find_cmp(f, "idx:in", "idx:lzip_id_string")
    if not gs:
        ck.ob("C16-TRAIL", "mismatch-guard", False, common.where(f),
              "comparison of the input byte with the ID string not found", key="TRAIL:guard")
        return
    gd = gs[0]
    for first, want in ((1, {"LZMA_FORMAT_ERROR"}), (0, {"LZMA_STREAM_END"})):
        m = graph_for(prog, f, (K_FIRST, K_ACTION), {"first": (first,)}, ("SEQ_ID_STRING",), False, resume=False)
        g = m.g
        got = set()
        advanced = False
        for node in g.nodes:
            if node[0] != gd.bid or g.get(node[1], "first") != frozenset([first]):
                continue
            # nodes reachable through the failing edge, until exit
            st = [d for (d, l) in g.succ.get(node, ()) if l == gd.fail_label]
            seen = set()
            while st:
                y = st.pop()
                if y in seen:
                    continue
                seen.add(y)
                blk = f.blocks[y[0]]
                for e in blk.elems:
                    if e is None:
                        continue
                    for x in ex.walk(e, into_refs=False):
                        if x.get("k") == "un" and x["op"] in ex.ASSIGN_UN:
                            t = ex.strip(x["e"])
                            if t.get("k") == "un" and t["op"] == "*" and ex.reads_var(t["e"], "in_pos"):
                                advanced = True
                if y[0] == f.exit:
                    rv = g.get(y[1], "$ret")
                    got |= {names.get(v, str(v)) for v in (rv or [])} if rv is not None else {"?"}
                    continue
                for (d, l) in g.succ.get(y, ()):
                    if l != "resume":
                        st.append(d)
        ok = got == want and not advanced
        ck.ob("C16-TRAIL", "mismatch:first_member=%d" % first, ok, common.where(f, gd.line),
              "ID string mismatch with first_member=%d returns %s%s (expected %s, byte not consumed)" % (
                  first, sorted(got), " after advancing *in_pos" if advanced else "", sorted(want)),
              key="TRAIL:mismatch:%d" % first)
    # input end inside the ID string
    for first, action, want in ((0, 3, {"LZMA_STREAM_END"}), (0, 0, {"LZMA_OK"}), (1, 3, {"LZMA_OK"})):
        m = graph_for(prog, f, (K_FIRST, K_ACTION), {"first": (first,), "action": (action,)},
                      ("SEQ_ID_STRING",), False, resume=False)
        g = m.g
        # the return that follows the bounds test *in_pos >= in_size in SEQ_ID_STRING
        got = set()
        for b in f.blocks.values():
            t = b.term
            if not t or "cond" not in t or len(b.succs) != 2:
                continue
            c = ex.strip(t["cond"])
            if c.get("k") == "bin" and c["op"] in (">=",) and guard.pat_match(f, c, "deref:in_pos&var:in_size"):
                for node in g.nodes:
                    if node[0] != b.id or g.get(node[1], "seq") != frozenset([m.enum["SEQ_ID_STRING"]]) \
                            or g.get(node[1], "first") != frozenset([first]):
                        continue
                    for ex_node in guard.returns_after(g, node, "T"):
                        rv = g.get(ex_node[1], "$ret")
                        got |= {names.get(v, str(v)) for v in (rv or [])} if rv is not None else {"?"}
        ck.ob("C16-TRAIL", "input-end:first=%d,action=%d" % (first, action), got == want, common.where(f),
              "input ends inside the ID string (first_member=%d, action=%d): returns %s, expected %s" % (
                  first, action, sorted(got), sorted(want)), key="TRAIL:end:%d:%d" % (first, action))


def check_auto(ck, prog):
    ck.rule("C16-AUTO", "auto decoder: first byte 0xFD -> .xz, 0x4C -> .lz, anything else -> .lzma (picky); "
            "flags and memlimit forwarded; trailing input after .lzma with CONCATENATED is an error")
    cg = common.callgraph(prog)
    rs = common.retsets(prog)
    f = prog.fn("auto_decode", "auto_decoder.c")
    ck.saw_function(f)
    en = prog.enum_with("SEQ_INIT", f.file)
    kb = fd.Key("var", "$byte", domain=range(256), label="byte")
    kb.matches = lambda n: (ex.strip(n) is not None and ex.strip(n).get("k") == "idx"
                            and ex.show(ex.strip(n)) == "in[*in_pos]")
    keys = [fd.Key("field", "sequence", rec="lzma_auto_coder@auto_decoder.c", domain=en.values(), label="seq"),
            kb, fd.Key("retval", "$ret", label="$ret")]
    g = fd.FD(prog, f, keys, cg=cg, split=256, call_values=lambda c, s: rs.call_set(c, f))
    g.run([g.make_state(seq=[en["SEQ_INIT"]], byte=[v], **{"$ret": [machine.NO_RETURN_YET]})
           for v in range(256)])
    inits = {"lzma_stream_decoder_init": set(), "lzma_lzip_decoder_init": set(), "lzma_alone_decoder_init": set()}
    call_args = {}
    for n in g.nodes:
        bv = g.get(n[1], "byte")
        if bv is None or len(bv) != 1:
            continue
        for e in f.blocks[n[0]].elems:
            if e is None:
                continue
            for c in ex.calls(e, into_refs=False):
                if c.get("fn") in inits:
                    inits[c["fn"]].add(list(bv)[0])
                    call_args[c["fn"]] = c
    want = {"lzma_stream_decoder_init": {0xFD}, "lzma_lzip_decoder_init": {0x4C},
            "lzma_alone_decoder_init": set(range(256)) - {0xFD, 0x4C}}
    for fn_, w in want.items():
        ck.ob("C16-AUTO", "dispatch:" + fn_, inits[fn_] == w, common.where(f),
              "%s selected for first byte %s" % (fn_, _fmtset(inits[fn_])) +
              ("" if inits[fn_] == w else " — expected %s" % _fmtset(w)), key="AUTO:dispatch:" + fn_)
    ck.extra["auto_cases"] = 256
    # forwarded arguments
    for fn_ in ("lzma_stream_decoder_init", "lzma_lzip_decoder_init"):
        c = call_args.get(fn_)
        ok = c is not None and ex.show(c["args"][2]) == "coder->memlimit" and ex.show(c["args"][3]) == "coder->flags"
        ck.ob("C16-AUTO", "forward:" + fn_, ok, common.where(f, c),
              "%s(%s)" % (fn_, ", ".join(ex.show(a) for a in c["args"]) if c else "?"), key="AUTO:forward:" + fn_)
    c = call_args.get("lzma_alone_decoder_init")
    ok = c is not None and ex.show(c["args"][2]) == "coder->memlimit" and ex.is_const(c["args"][3], 1)
    ck.ob("C16-AUTO", "forward:lzma_alone_decoder_init", ok, common.where(f, c),
          "lzma_alone_decoder_init(..., %s) (picky must be true)" % (
              ", ".join(ex.show(a) for a in c["args"][2:]) if c else "?"), key="AUTO:forward:alone")


def _fmtset(s):
    s = sorted(s)
    if len(s) > 6:
        return "{%d values}" % len(s)
    return "{" + ",".join(hex(x) for x in s) + "}"


K_PICKY = fd.Key("field", "picky", rec="lzma_alone_coder@alone_decoder.c", domain=(0, 1), label="picky")

TABLE = [
    MP("auto:finish-only-for-alone", "auto_decode", "auto_decoder.c",
       [("cmp", "field:get_check", "const:0")], ("seq", "SEQ_FINISH"),
       src=("SEQ_INIT", "SEQ_CODE"), init_seq=("SEQ_INIT",),
       why="the state that turns leftover input into LZMA_DATA_ERROR is entered only when the format decoder is the .lzma one "
           "(next.get_check == NULL); the .xz and .lz decoders implement LZMA_CONCATENATED themselves and the .lz decoder "
           "legitimately leaves foreign trailing data unread"),
    MP("auto:finish-trailing", "auto_decode", "auto_decoder.c",
       [("rel", "deref:in_pos", "var:in_size", ("<",), "F")], ("ret", END),
       src=("SEQ_FINISH",), init_seq=("SEQ_INIT",), states=("SEQ_FINISH",), fail=DATA,
       why="input left after a finished .lzma stream with CONCATENATED is a data error"),
    MP("auto:finish-needs-finish", "auto_decode", "auto_decoder.c",
       [("cmp", "var:action", "enum:LZMA_FINISH")], ("ret", END),
       src=("SEQ_FINISH",), init_seq=("SEQ_INIT",), states=("SEQ_FINISH",),
       why="the end is reported only with LZMA_FINISH"),
    Present("alone:lclppb", "alone_decode", "alone_decoder.c",
            ("res", "lzma_lzma_lclppb_decode", ("false",)), FORMAT, init_seq=("SEQ_PROPERTIES",),
            why="invalid lc/lp/pb byte is a format error"),
    MP("alone:not-picky-accepts", "alone_decode", "alone_decoder.c",
       [("test", "call:lzma_lzma_lclppb_decode", "T")],
       ("ret", FORMAT, ("SEQ_PROPERTIES", "SEQ_DICTIONARY_SIZE", "SEQ_UNCOMPRESSED_SIZE")),
       src=("SEQ_PROPERTIES", "SEQ_DICTIONARY_SIZE", "SEQ_UNCOMPRESSED_SIZE"),
       init_seq=("SEQ_PROPERTIES",), keys=(K_PICKY,), init={"picky": (0,)},
       why="without picky the only format error is the lc/lp/pb byte (heuristics are picky-only)"),
    Present("alone:picky-dict", "alone_decode", "alone_decoder.c",
            ("cmp", "var:d", "field:dict_size"), FORMAT, init_seq=("SEQ_PROPERTIES",),
            keys=(K_PICKY,), init={"picky": (1,)}, why="picky: dictionary size shape heuristic"),
    Present("alone:picky-size", "alone_decode", "alone_decoder.c",
            ("rel", "field:uncompressed_size", "const:274877906944", (">=",), "F"), FORMAT,
            init_seq=("SEQ_PROPERTIES",), keys=(K_PICKY,), init={"picky": (1,)},
            why="picky: known uncompressed size below 256 GiB"),
]


def check_alone_fields(ck, prog):
    f = prog.fn("alone_decode", "alone_decoder.c")
    ck.saw_function(f)
    # header field widths: 1 + 4 + 8 bytes, little endian accumulation `|= in << (pos*8)`
    widths = {}
    for b in f.blocks.values():
        t = b.term
        if t and "cond" in t:
            c = ex.strip(t["cond"])
            if c.get("k") == "bin" and c["op"] in ("==", "<") and ex.field_key(ex.strip(c["l"]).get("e") if
                    ex.strip(c["l"]).get("k") == "un" else c["l"]) and ex.const_val(c["r"]) in (4, 8):
                widths[ex.const_val(c["r"])] = c["op"]
    ck.ob("C16-ALONE", "field-widths", set(widths) == {4, 8}, common.where(f),
          "dictionary size read as 4 bytes and uncompressed size as 8 bytes (%s)" % widths,
          key="ALONE:widths")
    shifts = 0
    for b, i, e in f.iter_elems():
        for (l, r, op, node) in ex.writes(e):
            if op == "|=" and r is not None:
                rs_ = ex.strip(r)
                if rs_.get("k") == "bin" and rs_["op"] == "<<":
                    sh = ex.strip(rs_["r"])
                    if sh.get("k") == "bin" and sh["op"] == "*" and ex.const_val(sh["r"]) == 8 \
                            and ex.field_key(sh["l"]) and ex.field_key(sh["l"])[1] == "pos":
                        shifts += 1
    ck.ob("C16-ALONE", "little-endian", shifts == 2, common.where(f),
          "%d little-endian accumulations `|= byte << (pos * 8)`" % shifts, key="ALONE:le")
    # EOPM allowed with known size; ext size set from the header
    flags = None
    for b, i, e in f.iter_elems():
        for (l, r, op, node) in ex.writes(e):
            fk = ex.field_key(l)
            if fk and fk[1] == "ext_flags":
                flags = ex.const_val(r)
    ck.ob("C16-ALONE", "allow-eopm", flags == 1, common.where(f),
          "options.ext_flags = %s (LZMA_LZMA1EXT_ALLOW_EOPM = 1)" % flags, key="ALONE:eopm")


def _u32_eval(n, env):
    n = ex.strip(n)
    k = n.get("k")
    M = 0xFFFFFFFF
    if k == "const":
        return n["v"] & M
    if k == "var":
        return env[n["n"]]
    if k == "mem":
        return env[ex.show(n)]
    if k == "bin":
        a, b = _u32_eval(n["l"], env), _u32_eval(n["r"], env)
        op = n["op"]
        if op == "-":
            return (a - b) & M
        if op == "+":
            return (a + b) & M
        if op == "|":
            return a | b
        if op == "&":
            return a & b
        if op == "^":
            return a ^ b
        if op == ">>":
            return a >> b if b < 32 else 0
        if op == "<<":
            return (a << b) & M if b < 32 else 0
    if k == "un" and n["op"] == "~":
        return ~_u32_eval(n["e"], env) & M
    raise AnalysisBroken("alone_decode: dictionary-size heuristic uses an expression form that is not evaluated: %s" % ex.show(n))


def check_alone_picky(ck, prog):
    """The picky (auto-detection) heuristic accepts exactly the dictionary sizes 2^n and 2^n + 2^(n-1).  The code rounds
    dict_size - 1 up with an OR/shift smear and compares; the smear `d |= d >> k ...` is the OR-linear operator
    bit_i = OR_{j in S} d_(i+j) with S the set of subset sums of the shift amounts, so S decides the accepted set exactly:
    S must be {0, 2, 3, ..., 31} (every distance except 1)."""
    f = prog.fn("alone_decode", "alone_decoder.c")
    ck.saw_function(f)
    blk = None
    for b in f.blocks.values():
        t = b.term
        if t and "cond" in t and len(b.succs) == 2:
            c = ex.strip(t["cond"])
            if c.get("k") == "bin" and c["op"] in ("!=", "==") and ex.show(c["r"]).endswith("options.dict_size") \
                    and ex.strip(c["l"]).get("k") == "var":
                blk, cmpn = b, c
    if blk is None:
        raise AnalysisBroken("alone_decode: the comparison of the rounded dictionary size vanished")
    var = ex.strip(cmpn["l"])["n"]
    DS = ex.show(cmpn["r"])
    elems = [e for e in blk.elems if e is not None and any(x.get("k") in ("var", "decl") and x.get("n") == var
                                                           for x in ex.walk(e))
             and (e.get("k") in ("decl", "asg") or (e.get("k") == "un" and e.get("op", "").endswith(("++", "--"))))]

    def run_code(x):
        env = {DS: x}
        for e in elems:
            k = e.get("k")
            if k == "decl" and e.get("n") == var:
                env[var] = _u32_eval(e["init"], env)
            elif k == "asg" and ex.strip(e["l"]).get("n") == var:
                v = _u32_eval(e["r"], env)
                op = e["op"]
                cur = env.get(var, 0)
                env[var] = {"=": v, "|=": cur | v, "&=": cur & v, "+=": (cur + v) & 0xFFFFFFFF,
                            "-=": (cur - v) & 0xFFFFFFFF, "^=": cur ^ v,
                            ">>=": cur >> v if v < 32 else 0, "<<=": (cur << v) & 0xFFFFFFFF}.get(op)
                if env[var] is None:
                    raise AnalysisBroken("alone_decode: operator %s on %s" % (op, var))
            elif k == "un" and e["op"] in ("pre++", "post++") and ex.strip(e["e"]).get("n") == var:
                env[var] = (env[var] + 1) & 0xFFFFFFFF
            elif k == "un" and e["op"] in ("pre--", "post--") and ex.strip(e["e"]).get("n") == var:
                env[var] = (env[var] - 1) & 0xFFFFFFFF
            else:
                raise AnalysisBroken("alone_decode: statement on %s that is not evaluated: %s" % (var, ex.show(e)[:60]))
        eq = env[var] == x
        return eq if cmpn["op"] == "!=" else not eq      # accepted <=> the reject edge is not taken

    def ref(x):
        if x == 0:
            return False        # 0 - 1 smears to all ones, + 1 == 0 == x: see below, handled by the code the same way
        n = x.bit_length() - 1
        return x == 1 << n or (n >= 1 and x == (1 << n) + (1 << (n - 1)))
    # structural route: the smear as a shift set
    S = {0}
    structural = True
    for e in elems:
        if e.get("k") == "asg" and e["op"] == "|=":
            r = ex.strip(e["r"])
            if r.get("k") == "bin" and r["op"] == ">>" and ex.strip(r["l"]).get("n") == var and ex.const_val(r["r"]) is not None:
                kk = ex.const_val(r["r"])
                S = {a for a in (S | {x + kk for x in S}) if a < 32}
                continue
            structural = False
        elif e.get("k") == "decl":
            i0 = ex.strip(e["init"])
            if not (i0.get("k") == "bin" and i0["op"] == "-" and ex.const_val(i0["r"]) == 1 and ex.show(i0["l"]) == DS):
                structural = False
        elif e.get("k") == "un" and e["op"] in ("pre++", "post++"):
            continue
        else:
            structural = False
    SREF = {0} | set(range(2, 32))
    cands = {0, 1, 2, 3, 0xFFFFFFFE}
    for a in range(32):
        cands.add(1 << a)
        cands.add((1 << a) - 1)
        for b in range(a):
            cands.add((1 << a) | (1 << b))
            for c in range(b):
                cands.add((1 << a) | (1 << b) | (1 << c))
    wit = None
    for x in sorted(cands):
        if x in (0, 0xFFFFFFFF):
            continue        # 0: d wraps to 0 == x in code and in the reference construction; UINT32_MAX is exempted before
        if run_code(x) != ref(x):
            wit = x
            break
    if structural and S == SREF and wit is not None:
        raise AnalysisBroken("alone_decode: shift set equals the reference but a sample differs (%#x)" % wit)
    if structural:
        ok = S == SREF
    else:
        if wit is None:
            raise AnalysisBroken("alone_decode: the dictionary-size rounding is no longer an OR/shift smear and no "
                                 "sample distinguishes it from the reference: cannot decide")
        ok = False
    ck.ob("C16-ALONE", "picky-dict-size-set", ok, common.where(f, cmpn),
          "picky mode accepts exactly 2^n and 2^n + 2^(n-1): smear distance set = every distance except 1 "
          "(%d sample sizes agree as well)" % len(cands) if ok else
          "alone_decode(): in picky mode (auto-detection) the dictionary size %#x is %s by the code but %s by the .lzma "
          "heuristic (2^n or 2^n + 2^(n-1)); smear distances %s" % (
              wit if wit is not None else -1, "accepted" if wit is not None and run_code(wit) else "rejected",
              "rejected" if wit is not None and run_code(wit) else "accepted",
              "lack %s / add %s" % (sorted(SREF - S), sorted(S - SREF)) if structural else "not derivable"),
          key="ALONE:picky-dict-size-set")


def check_xz_lzma_heur(ck, prog_xz, rule="C16-XZ"):
    """xz decides "is this a .lzma file?" itself (is_format_lzma) with the same dictionary-size heuristic as liblzma's
    picky mode: 2^n or 2^n + 2^(n-1).  Its smear `d |= d >> k` must have the same distance set (every distance except
    1), otherwise xz refuses .lzma files that lzmadec and the library decode (or feeds garbage to the decoder)."""
    f = prog_xz.fn("is_format_lzma", "coder.c", target="xz")
    ck.saw_function(f)
    var = None
    for b in f.blocks.values():
        t = b.term
        if t and "cond" in t:
            c = ex.strip(t["cond"])
            if c is not None and c.get("k") == "bin" and c["op"] in ("!=", "==") and ex.show(ex.strip(c["r"])) == "dict_size" \
                    and ex.strip(c["l"]).get("k") == "var":
                var = ex.strip(c["l"])["n"]
    if var is None:
        raise AnalysisBroken("is_format_lzma: the comparison of the rounded dictionary size with dict_size was not found")
    S = {0}
    nsh = 0
    other = None
    for b, i, e in f.iter_elems():
        for (l, r, op, node) in ex.writes(e):
            ls = ex.strip(l)
            if ls is None or ls.get("k") != "var" or ls["n"] != var:
                continue
            rr = ex.strip(r) if r is not None else None
            if op == "|=" and rr is not None and rr.get("k") == "bin" and rr["op"] == ">>" and \
                    ex.strip(rr["l"]).get("n") == var and ex.const_val(rr["r"]) is not None:
                kk = ex.const_val(rr["r"])
                S = {a for a in (S | {x + kk for x in S}) if a < 32}
                nsh += 1
            elif op in ("pre++", "post++", "="):
                continue
            else:
                other = node
    if nsh == 0 or other is not None:
        raise AnalysisBroken("is_format_lzma: the dictionary-size rounding is no longer an OR/shift smear")
    SREF = {0} | set(range(2, 32))
    ok = S == SREF
    ck.ob(rule, "xz-lzma-dict-size-set", ok, common.where(f),
          "xz is_format_lzma accepts exactly 2^n and 2^n + 2^(n-1) (smear distance set = every distance except 1)" if ok else
          "xz is_format_lzma(): the smear distances lack %s / add %s compared with the .lzma heuristic (2^n or 2^n + 2^(n-1)) "
          "that liblzma's picky mode and lzmadec use: xz reports `File format not recognized` for .lzma files with such "
          "dictionary sizes (e.g. 3 MiB) that the library decodes, or accepts sizes it should not" % (
              sorted(SREF - S), sorted(S - SREF)), key="XZ:lzma-dict-size-set")


def check_xz_lzma_size(ck, prog, prog_xz, rule="C16-XZ"):
    """The second half of the same heuristic: a known uncompressed size of 256 GiB or more means "not .lzma".  xz's constant
    has to be the library's (alone_decode, picky mode: `>= 1 << 38`): with a smaller one xz -- and through `xz -dcf` the
    xzgrep/xzdiff/xzless scripts -- pass a valid .lzma file through as if it were plain text."""
    def bound(f):
        out = []
        for b in f.blocks.values():
            if b.term and "cond" in b.term:
                c = ex.strip(b.term["cond"])
                if c is not None and c.get("k") == "bin" and c["op"] in (">", ">=") and "uncompressed_size" in ex.show(c["l"]) \
                        and ex.const_val(c["r"]) is not None:
                    out.append((ex.const_val(c["r"]), c))
        return out
    fx = prog_xz.fn("is_format_lzma", "coder.c", target="xz")
    fl = prog.fn("alone_decode", "alone_decoder.c")
    ck.saw_function(fx)
    ck.saw_function(fl)
    bx, bl = bound(fx), bound(fl)
    if not bx or not bl:
        raise AnalysisBroken("is_format_lzma / alone_decode: the bound on a known uncompressed size was not found")
    ok = {v for v, c in bx} == {v for v, c in bl}
    ck.ob(rule, "xz-lzma-size-limit", ok, common.where(fx, bx[0][1]),
          "xz is_format_lzma and liblzma's alone_decode use the same bound for a known uncompressed size (2^%d)" % (bx[0][0].bit_length() - 1) if ok else
          "xz is_format_lzma(): a known uncompressed size is compared with %d, liblzma's .lzma decoder uses %d: .lzma files with a "
          "declared size between the two are not recognised by xz although the library decodes them; `xz -dcf` (xzgrep, xzdiff, "
          "xzless) then copies the compressed bytes through as if they were the data" % (bx[0][0], bl[0][0]),
          key="XZ:lzma-size-limit")


def check_alone_extras(ck, prog, prog_xz):
    """Three conventions around the .lzma decoder that other code relies on:
    (1) auto_decode() recognises "the sub-decoder is the .lzma one" by `coder->next.get_check == NULL` (comment at the
        site) and only then applies the .lzma + LZMA_CONCATENATED rules (SEQ_FINISH: anything after the stream is an
        error): lzma_alone_decoder_init() must leave get_check unset;
    (2) lzma_decoder_init() takes the uncompressed size of LZMA1EXT (used for .lzma) as given: the only value meaning
        "unknown" is the all-ones one; turning other values into "unknown" makes an end marker acceptable where the
        declared size says the stream is longer;
    (3) xz puts the bytes it read beyond the end of the stream back (--single-stream, .lz trailing data): io_fix_src_pos()
        seeks back whenever rewind_size > 0, whether or not the end of the file was seen."""
    f = prog.fn("lzma_alone_decoder_init", "alone_decoder.c")
    ck.saw_function(f)
    st = [nd for b, i, e in f.iter_elems() for (l, r, op, nd) in ex.writes(e)
          if ex.strip(l) is not None and ex.strip(l).get("k") == "mem" and ex.strip(l)["f"] == "get_check"]
    ck.ob("C16-ALONE", "no-get_check", not st, common.where(f, st[0] if st else None),
          "lzma_alone_decoder_init leaves next->get_check NULL (auto_decode recognises .lzma by that)" if not st else
          "lzma_alone_decoder_init() sets next->get_check (`%s`): auto_decode() tells the .lzma sub-decoder from the others by "
          "get_check == NULL, so it no longer applies the .lzma rules -- trailing data after a .lzma stream is accepted with "
          "LZMA_CONCATENATED and the stream ends without LZMA_FINISH" % ex.show(st[0])[:60], key="ALONE:no-get_check")
    g = prog.fn("lzma_decoder_init", "lzma_decoder.c")
    ck.saw_function(g)
    dom = cfg.dominators(g)
    bad = None
    nst = 0
    for b, i, e in g.iter_elems():
        for (l, r, op, nd) in ex.writes(e):
            ls = ex.strip(l)
            if ls is None or ls.get("k") != "var" or ls["n"] != "uncomp_size" or r is None:
                continue
            nst += 1
            if ex.const_val(r) is None:
                continue
            for d in dom.get(b.id, ()):
                t = g.blocks[d].term
                if d != b.id and t and "cond" in t and any(x.get("k") == "var" and x["n"] == "uncomp_size" for x in ex.walk(t["cond"])):
                    bad = (nd, t["cond"])
    if nst == 0:
        raise AnalysisBroken("lzma_decoder_init: no store to uncomp_size found")
    ck.ob("C16-ALONE", "known-size-kept", bad is None, common.where(g, bad[0] if bad else None),
          "lzma_decoder_init: the declared uncompressed size is never replaced by a constant" if bad is None else
          "lzma_decoder_init(): `%s` under `%s` replaces a declared uncompressed size by a constant: a .lzma header whose size "
          "field is not the all-ones value is then decoded as if the size were unknown, so an end marker before the declared "
          "size ends the stream successfully" % (ex.show(bad[0])[:50], ex.show(ex.strip(bad[1]))[:50]), key="ALONE:known-size-kept")
    h = prog_xz.fn("io_fix_src_pos", "file_io.c", target="xz")
    ck.saw_function(h)
    ls_ = [b.id for b, i, e in h.iter_elems() for c in ex.calls(e, into_refs=False) if c.get("fn") == "lseek"]
    if not ls_:
        raise AnalysisBroken("io_fix_src_pos: lseek() not found")
    domh = cfg.dominators(h)
    extra = None
    for d in domh.get(ls_[0], ()):
        blk = h.blocks[d]
        if d == ls_[0] or not blk.term or "cond" not in blk.term or len(blk.succs) != 2:
            continue
        other = [y for y in blk.succs if y != ls_[0] and not (y is not None and ls_[0] in cfg.reachable(h, [y]))]
        if not other or other[0] is None or (other[0] != h.exit and h.exit not in cfg.reachable(h, [other[0]])):
            continue            # assertion edge
        names = {x["n"] for x in ex.walk(blk.term["cond"]) if x.get("k") == "var"} | \
                {x["f"] for x in ex.walk(blk.term["cond"]) if x.get("k") == "mem"}
        if names - {"rewind_size"}:
            extra = blk.term["cond"]
    ck.ob("C16-XZ", "rewind-unconditional", extra is None, common.where(h, extra),
          "io_fix_src_pos: the seek back depends only on rewind_size > 0" if extra is None else
          "io_fix_src_pos(): the seek back is skipped unless `%s`: after --single-stream or a .lz file with trailing data the "
          "input position is left behind the bytes that were read ahead, and the next reader of the descriptor loses them"
          % ex.show(ex.strip(extra)), key="XZ:rewind-unconditional")


def check_lzip_acct(ck, prog):
    """.lz member size accounting: a header byte taken with in[(*in_pos)++] is counted in coder->member_size before the
    function can return with a non-fatal code -- otherwise the Member Size check of the footer depends on where the
    caller's buffers ended (LZMA_GET_CHECK is a non-fatal return as well)."""
    f = prog.fn("lzip_decode", LZF)
    ck.saw_function(f)
    m = graph_for(prog, f, (), {}, None, False, resume=False)
    g = m.g
    nonfatal = {m.rets[x] for x in ("LZMA_OK", "LZMA_GET_CHECK", "LZMA_NO_CHECK", "LZMA_UNSUPPORTED_CHECK", "LZMA_STREAM_END")
                if x in m.rets}

    def is_consume(e):
        for x in ex.walk(e):
            if x.get("k") == "idx":
                i = ex.strip(x.get("i"))
                if i is not None and i.get("k") == "un" and i["op"] in ("post++", "pre++") and "in_pos" in ex.show(i["e"]):
                    return True
        return False

    def writes_ms(e):
        # unit increments only: an aggregate `member_size += *in_pos - in_start` counts what came after in_start
        for (l, r, op, nd) in ex.writes(e):
            if ex.show(l).endswith("->member_size") and op == "+=" and ex.const_val(r) == 1:
                return True
        for x in ex.walk(e):
            if x.get("k") == "un" and x["op"] in ("pre++", "post++") and ex.show(x["e"]).endswith("->member_size"):
                return True
        return False

    def samples_pos(e):
        # a local that records the current input position starts a region accounted as a difference of positions
        if e.get("k") == "decl" and e.get("init") is not None and ex.show(e["init"]).replace("(", "").replace(")", "") == "*in_pos":
            return True
        for (l, r, op, nd) in ex.writes(e):
            if op == "=" and r is not None and ex.strip(l).get("k") == "var" and \
                    ex.show(r).replace("(", "").replace(")", "") == "*in_pos":
                return True
        return False
    sampb = {b.id for b, i, e in f.iter_elems() if samples_pos(e)}
    if not sampb:
        raise AnalysisBroken("lzip_decode: `in_start = *in_pos` (start of the region accounted by difference) not found")
    msb = {b.id for b, i, e in f.iter_elems() if writes_ms(e)}
    n = 0
    for b in f.blocks.values():
        for i, e in enumerate(b.elems):
            if e is None or not is_consume(e):
                continue
            n += 1
            nm = e.get("n") if e.get("k") == "decl" else (ex.show(e["l"]).split("->")[-1] if e.get("k") == "asg" else str(n))
            same = any(writes_ms(b.elems[j]) for j in range(i + 1, len(b.elems)) if b.elems[j] is not None)
            path = None
            if not same:
                src = [d for nd in g.nodes if nd[0] == b.id for (d, lab) in g.succ.get(nd, ())]

                def dstp(node):
                    if node[0] in sampb:
                        return "start a region counted as `*in_pos - in_start` (line %s)" % (
                            f.blocks[node[0]].first_line() if hasattr(f.blocks[node[0]], "first_line") else "?")
                    if node[0] != f.exit:
                        return None
                    rv = g.get(node[1], "$ret")
                    hit = set(rv or ()) & nonfatal
                    return ("return " + ",".join(m.retnames[v] for v in sorted(hit))) if hit else None
                path, hit = guard.cut_reach(g, src, set(), dstp, cut_blocks=msb)
            ck.ob("C16-LZIP", "member-size:%s" % nm, path is None, common.where(f, e),
                  "lzip_decode: the byte consumed at line %s is added to member_size before any non-fatal return" % ex.line(e)
                  if path is None else
                  "lzip_decode(): the byte consumed by `%s` (line %s) is not yet counted in coder->member_size when the "
                  "function can `%s` (path %s): if the caller continues from there the Member Size field of the footer "
                  "no longer matches" % (ex.show(e)[:50], ex.line(e), hit, m.describe_path(path)),
                  key="LZIP:member-size:%s" % nm)
    if n < 2:
        raise AnalysisBroken("lzip_decode: fewer than 2 single-byte reads in[(*in_pos)++] found")


def check_xz_magic(ck, prog, prog_all):
    ck.rule("C16-XZ", "xz's format sniffers use the same magic bytes as liblzma")
    hdr = prog.glob("lzma_header_magic", "stream_flags_common.c")
    lib_xz = [ex.const_val(x) for x in ex.strip(hdr["init"])["e"]]
    for fname, lib, label in (("is_format_xz", lib_xz, "lzma_header_magic"),
                              ("is_format_lzip", LZ.MAGIC, "lzip ID string")):
        f = prog_all.fn(fname, "coder.c", target="xz")
        ck.saw_function(f)
        got = None
        for b, i, e in f.iter_elems():
            if e.get("k") == "decl" and e["n"] == "magic" and e.get("init") is not None:
                got = [ex.const_val(x) for x in ex.strip(e["init"])["e"]]
        if got is None:
            g_ = [g for g in prog_all.globals.get("magic", []) if g["file"].endswith("coder.c")]
            for g in g_:
                if g.get("init") and fname == ("is_format_xz" if len(ex.strip(g["init"])["e"]) == 6 else "is_format_lzip"):
                    got = [ex.const_val(x) for x in ex.strip(g["init"])["e"]]
        ck.ob("C16-XZ", fname, got == lib, common.where(f),
              "%s magic %s == %s %s" % (fname, got, label, lib), key="XZ:" + fname)
        usesall = any(c.get("fn") == "memcmp" for b, i, e in f.iter_elems() for c in ex.calls(e, into_refs=False))
        ck.ob("C16-XZ", fname + ":memcmp", usesall, common.where(f),
              "%s compares the whole magic with memcmp" % fname, key="XZ:%s:memcmp" % fname)


def run(ck):
    ck.explanation = (
        "Finite-domain abstract evaluation of the .lz dictionary-size byte (256 values) and of the auto decoder's "
        "first-byte dispatch (256 values) against spec tables; effect rule for .lz trailing data (mismatch after the "
        "first member ends the stream without consuming the byte); .lzma header field widths/endianness, picky-only "
        "heuristics, EOPM allowed with known size; xz's sniffers use liblzma's magic bytes.")
    ck.not_decided = ("decoded content; arithmetic of the .lzma plausibility heuristics; lzmainfo; "
                      "Stream Padding rule is decided under C05 (padding4 obligations).")
    ck.exhaustive = True
    prog = common.program(ck, ("liblzma",))
    check_lzip_tables(ck, prog)
    ck.floor("C16-LZIP", 4)
    check_trail(ck, prog)
    ck.floor("C16-TRAIL", 5)
    check_auto(ck, prog)
    ck.floor("C16-AUTO", 6)
    ck.rule("C16-ALONE", ".lzma header layout and picky-only heuristics; auto SEQ_FINISH rules")
    evaluate(ck, prog, "C16-ALONE", TABLE)
    check_alone_fields(ck, prog)
    check_alone_picky(ck, prog)
    check_lzip_acct(ck, prog)
    from . import C06
    C06.check_resume(ck, prog, RULE="C16-RESUME", only_files={"lzma_decoder.c", "lz_decoder.c", "alone_decoder.c", "lzip_decoder.c", "auto_decoder.c", "microlzma_decoder.c"}, floor=5)
    # re-use and re-entry of the .lzma / .lz / auto decoders
    from . import reinit
    FILES = {"auto_decoder.c", "alone_decoder.c", "lzip_decoder.c", "microlzma_decoder.c"}
    ck.rule("C16-INITONCE", "the format-specific decoder is initialised once: coder->sequence is advanced before any "
                            "non-fatal return (LZMA_NO_CHECK / LZMA_GET_CHECK included)")
    reinit.check_init_once(ck, prog, "C16-INITONCE", files=FILES)
    ck.floor("C16-INITONCE", 5)
    ck.rule("C16-INITCONS", "a re-used .lzma/.lz/auto decoder starts like a fresh one: members initialised on some init "
                            "paths are initialised on all")
    reinit.check_init_consistency(ck, prog, "C16-INITCONS", files=FILES)
    ck.floor("C16-INITCONS", 8)
    ck.rule("C16-READFIRST", ".lzma/.lz/auto decoders: what the coding function can read before storing to it is stored by the init function on every path returning LZMA_OK")
    reinit.check_read_first(ck, prog, "C16-READFIRST", files=FILES)
    ck.floor("C16-READFIRST", 12)
    ck.rule("C16-STALENEXT", "entry points other than code() use a lazily initialised nested decoder only behind a test of "
                             "coder->sequence")
    reinit.check_stale_nested(ck, prog, "C16-STALENEXT", files=FILES)
    ck.floor("C16-STALENEXT", 2)
    # "Streams may be concatenated with zero padding in multiples of four bytes": the padding length survives the
    # slicing of the input (accumulator rule shared with C05/C06)
    ck.rule("C16-ACCUM", "a member that a resumable state tests and stores to while it can be re-entered is updated from its old value")
    reinit.check_accumulators(ck, prog, "C16-ACCUM", files={"stream_decoder.c", "stream_decoder_mt.c", "lzip_decoder.c",
                                                            "alone_decoder.c", "auto_decoder.c"})
    ck.floor("C16-ALONE", 9)
    prog_xz = common.program(ck, ("xz",), files=("/coder.c",))
    check_xz_magic(ck, prog, prog_xz)
    check_xz_lzma_heur(ck, prog_xz)
    check_xz_lzma_size(ck, prog, prog_xz)
    check_alone_extras(ck, prog, common.program(ck, ("xz",), files=("/file_io.c",)))
    ck.floor("C16-XZ", 6)
    # "concatenation rules hold": xz accepts a .lzma / raw stream only when nothing follows it (rule shared with C17)
    from . import C17
    C17.check_fail(ck, prog_xz)
    # ".lzma: nothing may follow the stream": lzmadec accepts the end only after a further read found the end of the file
    # (rule shared with C18)
    from . import C18 as _C18
    ck.rule("C16-LZMADEC", "lzmadec: LZMA_STREAM_END is accepted only with avail_in == 0, fread() == 0 and feof()")
    _C18.check_lzmadec_trailing(ck, common.program(ck, ("lzmadec",), files=("xzdec.c",)), rule="C16-LZMADEC")
