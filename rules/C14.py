"""C14 — CRC32, CRC64 and SHA-256 equal their standard definitions (tables, constants, wiring).

C14-TAB   every entry of the CRC slice tables, the CLMUL fold/Barrett constants, the shuffle masks, the
          SHA-256 round constants and initial state, and check_sizes[] equals a value computed
          independently from the mathematical definition (spec/crc.py, spec/sha256.py).
C14-SHA   the Sigma/sigma macro expansions evaluated as GF(2)-linear maps, Ch/Maj truth tables,
          message-schedule indices and the 16 + 3*16 round structure equal FIPS 180-4.
C14-DISP  dispatch wiring: resolvers choose between exactly the two implementations; check.c maps
          each Check ID to its function and stores little-endian.
"""
from sa import ex, cfg
from sa.compdb import AnalysisBroken
from . import common
import spec.crc as CRC
import spec.sha256 as SHA


def arr(n):
    n = ex.strip(n)
    if n is None or n.get("k") != "init":
        return None
    out = []
    for x in n["e"]:
        xs = ex.strip(x)
        if xs is not None and xs.get("k") == "init":
            out.append(arr(xs))
        else:
            out.append(ex.const_val(x))
    return out


def check_tab(ck, prog):
    ck.rule("C14-TAB", "data tables and constants equal independently computed values (exhaustive per entry)")
    n = 0
    for name, P, bits, count in (("lzma_crc32_table", CRC.P32, 32, 8), ("lzma_crc64_table", CRC.P64, 64, 4)):
        g = prog.glob(name)
        got = arr(g["init"])
        want = CRC.slice_tables(P, bits, count)
        bad = None
        total = 0
        if got is None or len(got) != count:
            bad = ("shape", len(got) if got else None, count)
        else:
            for s in range(count):
                if len(got[s]) != 256:
                    bad = ("row %d length" % s, len(got[s]), 256)
                    break
                for b in range(256):
                    total += 1
                    v = got[s][b] & ((1 << bits) - 1) if got[s][b] is not None else None
                    if v != want[s][b] and bad is None:
                        bad = ("[%d][%d]" % (s, b), hex(v) if v is not None else None, hex(want[s][b]))
        n += total
        ck.ob("C14-TAB", name, bad is None, "%s:%d" % (common.relpath(g["file"]), g["line"]),
              "%s: all %d entries equal the reflected CRC-%d slice tables computed from the polynomial" % (
                  name, total, bits) if bad is None else
              "%s%s = %s but the CRC-%d definition gives %s" % (name, bad[0], bad[1], bits, bad[2]),
              key="TAB:" + name)
    # CLMUL constants
    for fname, bits in (("crc32_arch_optimized", 32), ("crc64_arch_optimized", 64)):
        f = prog.fn(fname, None, required=False)
        if f is None:
            ck.skip("C14-TAB: %s not compiled in this configuration" % fname)
            continue
        ck.saw_function(f)
        want = CRC.clmul_constants(bits)
        got = {}
        for b, i, e in f.iter_elems():
            if e.get("k") == "decl" and e["n"] in want and e.get("init") is not None:
                c = ex.strip(e["init"])
                if c.get("k") == "call" and c.get("fn") == "_mm_set_epi64x":
                    got[e["n"]] = tuple((ex.const_val(a) or 0) & ((1 << 64) - 1) for a in c["args"])
        for k, w in want.items():
            w64 = tuple(x & ((1 << 64) - 1) for x in w)
            n += 2
            ck.ob("C14-TAB", "%s:%s" % (fname, k), got.get(k) == w64, common.where(f),
                  "%s %s = (%s) equals x^k mod P / Barrett constants of CRC-%d" % (
                      fname, k, ", ".join(hex(x) for x in w64), bits) if got.get(k) == w64 else
                  "%s %s = %s, definition gives %s" % (
                      fname, k, tuple(hex(x) for x in got.get(k, ())), tuple(hex(x) for x in w64)),
                  key="TAB:%s:%s" % (fname, k))
    vm = prog.glob("vmasks", required=False)
    if vm is not None:
        got = arr(vm["init"])
        want = [0] * 16 + [0xFF] * 16 + list(range(16)) + [0xFF] * 16
        n += 64
        ck.ob("C14-TAB", "vmasks", got == want, "%s:%d" % (common.relpath(vm["file"]), vm["line"]),
              "vmasks[64] = 16x00, 16xFF, 0..15, 16xFF", key="TAB:vmasks")
    # SHA-256
    g = prog.glob("SHA256_K", "sha256.c")
    got = arr(g["init"])
    want = SHA.K()
    bad = [i for i in range(64) if got is None or i >= len(got) or got[i] != want[i]]
    n += 64
    ck.ob("C14-TAB", "SHA256_K", not bad, "%s:%d" % (common.relpath(g["file"]), g["line"]),
          "SHA256_K[0..63] equal the cube-root constants of FIPS 180-4" if not bad else
          "SHA256_K[%d] = %s, FIPS 180-4: %s" % (bad[0], hex(got[bad[0]]) if got and bad[0] < len(got) else None,
                                                 hex(want[bad[0]])), key="TAB:SHA256_K")
    f = prog.fn("lzma_sha256_init", "sha256.c")
    ck.saw_function(f)
    h0 = None
    for b, i, e in f.iter_elems():
        if e.get("k") == "decl" and e["n"] == "s" and e.get("init") is not None:
            h0 = arr(e["init"])
    if h0 is None:
        for gl in prog.globals.get("s", []):
            if gl["file"].endswith("sha256.c") and gl.get("init"):
                h0 = arr(gl["init"])
    n += 8
    ck.ob("C14-TAB", "SHA256_H0", h0 == SHA.H0(), common.where(f),
          "initial state equals the square-root constants of FIPS 180-4" if h0 == SHA.H0() else
          "initial state %s != %s" % (h0, SHA.H0()), key="TAB:SHA256_H0")
    # check sizes
    cs = None
    f2 = prog.fn("lzma_check_size", "check.c")
    for b, i, e in f2.iter_elems():
        if e.get("k") == "decl" and e["n"] == "check_sizes" and e.get("init") is not None:
            cs = arr(e["init"])
    if cs is None:
        for gl in prog.globals.get("check_sizes", []):
            if gl.get("init"):
                cs = arr(gl["init"])
    want = [0, 4, 4, 4, 8, 8, 8, 16, 16, 16, 32, 32, 32, 64, 64, 64]
    n += 16
    ck.ob("C14-TAB", "check_sizes", cs == want, common.where(f2),
          "check_sizes[] = %s (xz-file-format 2.1.1.2)" % cs, key="TAB:check_sizes")
    ck.extra["table_entries_compared"] = n
    ck.exhaustive = True
    ck.floor("C14-TAB", 8)


def lin_eval(n, x, leaf_txt):
    """Evaluate a rotate/shift/xor expression on the 32-bit value x; the macro argument is the
    leaf (all leaves must have the same text)."""
    n = ex.strip(n)
    k = n.get("k")
    if k == "call" and n.get("fn") == "rotr_32":
        v = lin_eval(n["args"][0], x, leaf_txt)
        a = ex.const_val(n["args"][1])
        if a is None:
            raise ValueError("non-constant rotation")
        return ((v >> a) | (v << (32 - a))) & 0xFFFFFFFF
    if k == "bin" and n["op"] == "^":
        return lin_eval(n["l"], x, leaf_txt) ^ lin_eval(n["r"], x, leaf_txt)
    if k == "bin" and n["op"] == ">>":
        a = ex.const_val(n["r"])
        if a is None:
            raise ValueError("non-constant shift")
        return lin_eval(n["l"], x, leaf_txt) >> a
    t = ex.show(n)
    if leaf_txt[0] is None:
        leaf_txt[0] = t
    if t != leaf_txt[0]:
        raise ValueError("two different operands: %s / %s" % (t, leaf_txt[0]))
    return x



class _PadUnknown(Exception):
    pass


class _PadOOB(Exception):
    pass


_PADNAME = {"D": "a message byte", "S": "a stale byte of an earlier block", "P": "0x80", "Z": "0x00",
            "L": "part of the length field", "X": "an unknown value"}


def _sha_finish_blocks(fin, p0):
    """Concrete evaluation of lzma_sha256_finish() with size = p0 (mod 64) over an abstract 64-cell buffer; returns the
    buffer contents at each process() call."""
    env = {}
    buf = ["D"] * p0 + ["S"] * (64 - p0)
    out = []
    SIZE = p0 + 64 * 5

    def is_buf(n, member):
        n = ex.strip(n)
        return n is not None and n.get("k") == "mem" and n.get("f") == member and ex.show(n).endswith("buffer." + member)

    def ev(n):
        n = ex.strip(n)
        if n is None:
            raise _PadUnknown("empty expression")
        k = n.get("k")
        if k == "const":
            return n["v"]
        if k == "paren":
            return ev(n["e"])
        if k == "var":
            if n["n"] in env:
                return env[n["n"]]
            raise _PadUnknown("value of `%s`" % n["n"])
        if k == "mem":
            if ex.show(n).endswith("sha256.size"):
                return SIZE
            raise _PadUnknown("value of `%s`" % ex.show(n))
        if k == "un":
            op = n["op"]
            if op in ("post++", "post--", "pre++", "pre--", "++", "--"):
                tgt = ex.strip(n["e"])
                if tgt.get("k") != "var":
                    raise _PadUnknown(ex.show(n))
                old = ev(tgt)
                new_ = old + (1 if "++" in op else -1)
                env[tgt["n"]] = new_
                return old if op.startswith("post") else new_
            v = ev(n["e"])
            if op == "-":
                return -v
            if op == "!":
                return int(not v)
            if op == "~":
                return ~v
            if op == "+":
                return v
            raise _PadUnknown(ex.show(n))
        if k == "bin":
            op = n["op"]
            if op == "&&":
                return int(bool(ev(n["l"])) and bool(ev(n["r"])))
            if op == "||":
                return int(bool(ev(n["l"])) or bool(ev(n["r"])))
            a, b = ev(n["l"]), ev(n["r"])
            try:
                return {"+": lambda: a + b, "-": lambda: a - b, "*": lambda: a * b, "/": lambda: a // b,
                        "%": lambda: a % b, "&": lambda: a & b, "|": lambda: a | b, "^": lambda: a ^ b,
                        "<<": lambda: a << b, ">>": lambda: a >> b, "==": lambda: int(a == b),
                        "!=": lambda: int(a != b), "<": lambda: int(a < b), "<=": lambda: int(a <= b),
                        ">": lambda: int(a > b), ">=": lambda: int(a >= b)}[op]()
            except (KeyError, ZeroDivisionError):
                raise _PadUnknown(ex.show(n))
        if k == "cond":
            return ev(n["t_"]) if ev(n["c"]) else ev(n["f_"])
        raise _PadUnknown(ex.show(n))

    def bufptr(n):
        """offset into buffer.u8 designated by a pointer expression, or None"""
        n = ex.strip(n)
        if n is None:
            return None
        if is_buf(n, "u8"):
            return 0
        if n.get("k") == "bin" and n["op"] in ("+", "-"):
            o = bufptr(n["l"])
            if o is not None:
                return o + ev(n["r"]) * (1 if n["op"] == "+" else -1)
            if n["op"] == "+":
                o = bufptr(n["r"])
                if o is not None:
                    return o + ev(n["l"])
            return None
        if n.get("k") == "un" and n["op"] == "&":
            t = ex.strip(n["e"])
            if t is not None and t.get("k") == "idx" and is_buf(t["b"], "u8"):
                return ev(t["i"])
        return None

    def cell(v):
        return {128: "P", 0: "Z"}.get(v, "X")

    def store(lo, n_, val):
        if n_ < 0 or lo < 0 or lo + n_ > 64:
            raise _PadOOB("a store of %s bytes at offset %d of check->buffer leaves the 64-byte block" % (
                n_ if n_ >= 0 else "%d (as size_t: 2^64%d)" % (n_, n_), lo))
        for j in range(lo, lo + n_):
            buf[j] = val

    def do(e):
        e = ex.deref(e)
        k = e.get("k")
        if k == "decl":
            if e.get("init") is not None:
                try:
                    env[e["n"]] = ev(e["init"])
                except _PadUnknown:
                    env.pop(e["n"], None)
            return
        if k == "asg":
            l = ex.strip(e["l"])
            op = e["op"]
            if l.get("k") == "var":
                try:
                    r = ev(e["r"])
                    if op == "=":
                        env[l["n"]] = r
                    elif op == "+=":
                        env[l["n"]] = ev(l) + r
                    elif op == "-=":
                        env[l["n"]] = ev(l) - r
                    else:
                        raise _PadUnknown(ex.show(e))
                except _PadUnknown:
                    env.pop(l["n"], None)
                return
            if l.get("k") == "idx" and is_buf(l["b"], "u8"):
                r = ev(e["r"]) if op == "=" else None
                i = ev(l["i"])
                store(i, 1, cell(r) if r is not None else "X")
                return
            if l.get("k") == "idx" and is_buf(l["b"], "u64"):
                i = ev(l["i"])
                def _mentions_size(n):
                    from sa import guard as _guard
                    for x in ex.walk(n):
                        if "sha256.size" in ex.show(x):
                            return True
                        if x.get("k") == "var" and x.get("s") == "l":
                            d_ = _guard.single_def(fin, x.get("id"))
                            if d_ is not None and any("sha256.size" in ex.show(y) for y in ex.walk(d_)):
                                return True
                    return False
                is_len = op == "=" and _mentions_size(e["r"])
                store(8 * i, 8, "L" if is_len else "X")
                return
            if l.get("k") == "idx" and is_buf(l["b"], "u32"):
                if not out:
                    store(4 * ev(l["i"]), 4, "X")
                return
            if "sha256.size" in ex.show(l) or "sha256.state" in ex.show(l):
                return
            raise _PadUnknown("store to `%s`" % ex.show(l))
        if k == "call":
            fn = e.get("fn")
            if fn == "process":
                out.append("".join(buf))
                return
            if fn in ("memset", "__builtin_memset", "__builtin___memset_chk"):
                o = bufptr(e["args"][0])
                if o is None:
                    raise _PadUnknown(ex.show(e))
                store(o, ev(e["args"][2]), cell(ev(e["args"][1])))
                return
            if fn in ("__builtin_bswap64", "__builtin_bswap32", "bswap64", "bswap32", "conv64be", "conv32be"):
                return
            raise _PadUnknown("call of %s()" % fn)
        if k == "un":
            ev(e)
            return
        if k in ("bin", "ret", "const", "var", "mem", "idx", "cast", "paren", "cond"):
            return
        raise _PadUnknown("statement `%s`" % ex.show(e))

    refd = set()
    for b in fin.blocks.values():
        for e in b.elems:
            for x in ex.walk(e, into_refs=False):
                if x.get("k") == "eref" and x is not e:
                    refd.add((x.get("b"), x.get("i")))
    cur = fin.entry
    steps = 0
    while True:
        steps += 1
        if steps > 2000:
            raise _PadUnknown("evaluation does not terminate for length = %d (mod 64)" % p0)
        b = fin.blocks[cur]
        for i, e in enumerate(b.elems):
            if (cur, i) in refd:
                continue
            if i == len(b.elems) - 1 and len(b.succs) == 2 and b.term is not None and "cond" in b.term:
                continue
            do(e)
        if not b.succs:
            break
        if len(b.succs) == 1:
            cur = b.succs[0]
            continue
        if b.term is None or "cond" not in b.term or len(b.succs) != 2:
            raise _PadUnknown("branch in block %d" % cur)
        cur = b.succs[0] if ev(b.term["cond"]) else b.succs[1]
    return out


def check_sha(ck, prog):
    ck.rule("C14-SHA", "Sigma/sigma expansions as linear maps, Ch/Maj truth tables, schedule indices, round structure")
    f = prog.fn("transform", "sha256.c")
    ck.saw_function(f)
    ref = {"S0": SHA.Sigma0, "S1": SHA.Sigma1, "s0": SHA.sigma0, "s1": SHA.sigma1}
    sites = {k: 0 for k in ref}
    bad = {}

    def macro_of(n):
        if n.get("k") == "call":
            return n.get("m")
        if n.get("k") == "bin":
            return n.get("om")
        return None

    # roots: nodes of a Sigma/sigma expansion that are not operands of a node of the same expansion
    allnodes = {}
    child_of_same = set()
    for b, i, e in f.iter_elems():
        for x in ex.walk(e, into_refs=True):
            allnodes[id(x)] = x
            mx = macro_of(x)
            if mx in ref:
                for c in ex.children(x):
                    cs = ex.strip(c)
                    if cs is not None and macro_of(cs) == mx:
                        child_of_same.add(id(cs))
    for nid, n in allnodes.items():
        m = macro_of(n)
        if m not in ref or nid in child_of_same:
            continue
        sites[m] += 1
        try:
            for bit in range(32):
                leaf = [None]
                if lin_eval(n, 1 << bit, leaf) != ref[m](1 << bit):
                    bad.setdefault(m, (ex.line(n), bit))
                    break
            leaf = [None]
            if lin_eval(n, 0xFFFFFFFF, leaf) != ref[m](0xFFFFFFFF):
                bad.setdefault(m, (ex.line(n), "all-ones"))
        except ValueError as e_:
            bad.setdefault(m, (ex.line(n), str(e_)))
    for m, cnt in sorted(sites.items()):
        need = 32 if m in ("S0", "S1") else 16
        ok = m not in bad and cnt >= need
        ck.ob("C14-SHA", "linear:" + m, ok, common.where(f, bad[m][0] if m in bad else None),
              "%s: %d expansions, each equals the FIPS 180-4 function as a GF(2)-linear map (32 basis vectors)" % (
                  m, cnt) if ok else
              "%s expansion at line %s differs from FIPS 180-4 (bit %s); %d expansions found" % (
                  m, bad.get(m, ("?",))[0], bad.get(m, ("", "?"))[1], cnt), key="SHA:linear:" + m)
    # Ch / Maj truth tables: find one expansion each and evaluate over the 8 bit combinations
    for m, refn in (("Ch", SHA.Ch), ("Maj", SHA.Maj)):
        node = None
        inner = set()
        for b, i, e in f.iter_elems():
            for x in ex.walk(e, into_refs=True):
                if x.get("om") == m and x.get("k") == "bin":
                    for c in ex.children(x):
                        cs = ex.strip(c)
                        if cs is not None and cs.get("om") == m:
                            inner.add(id(cs))
        for b, i, e in f.iter_elems():
            for x in ex.walk(e, into_refs=True):
                if x.get("om") == m and x.get("k") == "bin" and id(x) not in inner and node is None:
                    node = x
        ok = False
        why = "expansion not found"
        if node is not None:
            # operands: the three distinct leaf texts T[..]
            leaves = []
            for x in ex.walk(node):
                if x.get("k") == "idx":
                    t = ex.show(x)
                    if t not in leaves:
                        leaves.append(t)
            if len(leaves) == 3:
                import itertools
                ok = True
                for perm in itertools.permutations(range(3)):
                    good = True
                    for bits in itertools.product((0, 1), repeat=3):
                        env = {leaves[j]: bits[perm[j]] for j in range(3)}
                        try:
                            v = _beval(node, env)
                        except ValueError:
                            good = False
                            break
                        if v != (refn(bits[0], bits[1], bits[2]) & 1):
                            good = False
                            break
                    if good:
                        ok = True
                        break
                    ok = False
                why = "truth table over 8 bit combinations equals FIPS 180-4" if ok else "truth table differs"
        ck.ob("C14-SHA", "truth:" + m, ok, common.where(f, node), "%s: %s" % (m, why), key="SHA:truth:" + m)
    # schedule indices: W[i & 15] += s1(W[(i-2)&15]) + W[(i-7)&15] + s0(W[(i-15)&15])
    nsched = 0
    badidx = None
    for b, i, e in f.iter_elems():
        for (l, r, op, node) in ex.writes(e):
            ls = ex.strip(l)
            if op == "+=" and ls is not None and ls.get("k") == "idx" and ex.show(ls["b"]) == "W":
                tgt = ex.const_val(ls["i"])
                idxs = sorted({ex.const_val(x["i"]) for x in ex.walk(r)
                               if x.get("k") == "idx" and ex.show(x["b"]) == "W"})
                nsched += 1
                want = sorted([(tgt - 2) & 15, (tgt - 7) & 15, (tgt - 15) & 15])
                if idxs != want and badidx is None:
                    badidx = (tgt, idxs, want)
    ck.ob("C14-SHA", "schedule-indices", nsched == 16 and badidx is None, common.where(f),
          "16 schedule updates W[i] += s1(W[i-2]) + W[i-7] + s0(W[i-15]) (mod 16)" if badidx is None else
          "W[%d] is updated from W%s, FIPS 180-4 needs W%s" % badidx, key="SHA:schedule")
    # blk0: W[i] = conv32be(data[i]) for i = 0..15 (big-endian load)
    loads = 0
    for b, i, e in f.iter_elems():
        for (l, r, op, node) in ex.writes(e):
            ls = ex.strip(l)
            if op == "=" and ls is not None and ls.get("k") == "idx" and ex.show(ls["b"]) == "W" and r is not None:
                if any(x.get("k") == "call" and x.get("fn") in ("__builtin_bswap32", "bswap32", "conv32be")
                       for x in ex.walk(r)) and ex.const_val(ls["i"]) is not None:
                    src = [ex.const_val(x["i"]) for x in ex.walk(r) if x.get("k") == "idx" and ex.show(x["b"]) == "data"]
                    if src == [ex.const_val(ls["i"])]:
                        loads += 1
    ck.ob("C14-SHA", "big-endian-load", loads == 16, common.where(f),
          "%d of 16 message words are loaded big-endian from data[i]" % loads, key="SHA:load")
    # round constant index and loop structure
    kidx = []
    for b, i, e in f.iter_elems():
        for x in ex.walk(e, into_refs=False):
            if x.get("k") == "idx" and ex.show(x["b"]) == "SHA256_K":
                kidx.append(ex.show(x["i"]))
    first16 = sorted(int(t) for t in kidx if t.isdigit())
    loopk = sorted(t for t in kidx if not t.isdigit())
    okk = first16 == list(range(16)) and loopk == sorted("%d + j" % i for i in range(16))
    loop = [b for b in f.blocks.values() if b.term and b.term.get("kind") == "ForStmt" and "cond" in b.term
            and ex.show(b.term["cond"]) == "j < 64"]
    init16 = any(e.get("k") == "decl" and e["n"] == "j" and ex.is_const(e.get("init"), 16) for b, i, e in f.iter_elems())
    step16 = any(ex.show(n) == "j += 16" for b, i, e in f.iter_elems() for (l, r, op, n) in ex.writes(e))
    ck.ob("C14-SHA", "rounds", okk and bool(loop) and init16 and step16, common.where(f),
          "64 rounds: K[0..15] unrolled, then K[i + j] for j = 16, 32, 48", key="SHA:rounds")
    # length in bits big-endian at offset 56
    fin = prog.fn("lzma_sha256_finish", "sha256.c")
    ck.saw_function(fin)
    okf = False
    for b, i, e in fin.iter_elems():
        for (l, r, op, node) in ex.writes(e):
            if "u64[7]" in ex.show(l) and r is not None and any(
                    x.get("k") == "call" and "bswap64" in (x.get("fn") or "") for x in ex.walk(r)):
                okf = True
    mul8 = any(ex.show(l) == "check->state.sha256.size" and op == "*=" and ex.const_val(r) == 8
               for b, i, e in fin.iter_elems() for (l, r, op, n) in ex.writes(e))
    if not mul8:
        # ... or the value that goes into the length field is (a local holding) size * 8 / size << 3
        from sa import guard as _guard
        for b, i, e in fin.iter_elems():
            for (l, r, op, node) in ex.writes(e):
                if "u64[7]" in ex.show(l) and r is not None:
                    exprs = [r]
                    for x in ex.walk(r):
                        if x.get("k") == "var" and x.get("s") == "l":
                            d_ = _guard.single_def(fin, x.get("id"))
                            if d_ is not None:
                                exprs.append(d_)
                    for ee in exprs:
                        for x in ex.walk(ee):
                            if x.get("k") == "bin" and "sha256.size" in ex.show(x) and (
                                    (x["op"] == "*" and 8 in (ex.const_val(x["l"]), ex.const_val(x["r"]))) or
                                    (x["op"] == "<<" and ex.const_val(x["r"]) == 3)):
                                mul8 = True
    # padding: after the 0x80 byte, a second block is needed exactly when fewer than 8 bytes are left for the length,
    # i.e. when (size mod 64) >= 56.  Finite-domain evaluation of the padding code for all 64 residues.
    from sa import fd as _fd
    pcalls = sorted({(ex.line(c), b.id) for b, i, e in fin.iter_elems() for c in ex.calls(e, into_refs=False)
                     if c.get("fn") == "process"})
    helpers = {c.get("fn") for b, i, e in fin.iter_elems() for c in ex.calls(e, into_refs=False)} - {
        "process", "memzero", "memset", "memcpy", "conv64be", "conv32be", "bswap64", "bswap32", "__builtin_bswap64",
        "__builtin_bswap32", None}
    if not pcalls or (len(pcalls) < 2 and helpers):
        raise AnalysisBroken("lzma_sha256_finish: expected a conditional and a final process() call (found %d, helpers %s)" % (
            len(pcalls), sorted(helpers)))
    early = {bid for (ln, bid) in pcalls[:-1]}
    wrong = []
    if len(pcalls) < 2:
        # a single, unconditional process(): the second padding block that lengths >= 56 (mod 64) need cannot exist
        wrong = list(range(56, 64))
    for p0 in (range(64) if len(pcalls) >= 2 else ()):
        g = _fd.FD(prog, fin, [_fd.Key("var", "pos", domain=range(0, 66), label="pos")], cg=common.callgraph(prog))
        g.value_hook = lambda n, p0=p0: (frozenset([p0]) if ex.show(n) == "check->state.sha256.size" else None)
        g.run([g.top_state()])
        extra = any(nd[0] in early for nd in g.nodes)
        if extra != (p0 >= 56):
            wrong.append(p0)
    ck.ob("C14-SHA", "padding-blocks", not wrong, common.where(fin),
          "lzma_sha256_finish: an extra padding block is processed exactly for message lengths = 56..63 (mod 64) "
          "(all 64 residues evaluated)" if not wrong else
          "lzma_sha256_finish(): for message length = %s (mod 64) the number of padding blocks differs from FIPS 180-4 "
          "(a second block is needed iff length mod 64 >= 56): the digest is not SHA-256 for those lengths" % wrong[:6],
          key="SHA:padding-blocks")
    # padding content: concrete evaluation of lzma_sha256_finish for each of the 64 residues with an abstract buffer
    # (D = message byte, S = stale byte from an earlier block, P = 0x80, Z = 0x00, L = length field): every block handed
    # to process() must be D* P Z* [L^8] as FIPS 180-4 section 5.1.1 describes it
    badpad = []
    for p0 in range(64):
        try:
            blocks = _sha_finish_blocks(fin, p0)
        except _PadUnknown as e_:
            raise AnalysisBroken("lzma_sha256_finish: padding code not understood (%s)" % e_)
        except _PadOOB as e_:
            badpad.append((p0, str(e_)))
            continue
        if p0 < 56:
            want = ["D" * p0 + "P" + "Z" * (55 - p0) + "L" * 8]
        else:
            want = ["D" * p0 + "P" + "Z" * (63 - p0), "Z" * 56 + "L" * 8]
        if blocks != want:
            what = "%d block(s) instead of %d" % (len(blocks), len(want))
            for bi, (g_, w_) in enumerate(zip(blocks, want)):
                d_ = [j for j in range(64) if g_[j] != w_[j]]
                if d_:
                    what = "byte %d of padding block %d is %s, FIPS 180-4 needs %s" % (
                        d_[0], bi + 1, _PADNAME.get(g_[d_[0]], g_[d_[0]]), _PADNAME.get(w_[d_[0]], w_[d_[0]]))
                    break
            badpad.append((p0, what))
    ck.ob("C14-SHA", "padding-content", not badpad, common.where(fin),
          "lzma_sha256_finish: for all 64 residues of the message length, each block handed to process() is the message "
          "tail, 0x80, zeros and (in the last block) the 64-bit length" if not badpad else
          "lzma_sha256_finish(): for message length = %d (mod 64) %s (%d residues affected): the digest is not SHA-256 "
          "for those lengths" % (badpad[0][0], badpad[0][1], len(badpad)), key="SHA:padding-content")
    ck.ob("C14-SHA", "length-field", okf and mul8, common.where(fin),
          "message length is converted to bits and stored big-endian in the last 8 bytes", key="SHA:length")
    # the message length counter is 64 bits wide (FIPS 180-4: length < 2^64 bits; a 32-bit byte counter wraps at 4 GiB,
    # a 32-bit bit counter at 512 MiB)
    srec = prog.records.get("lzma_sha256_state")
    if not srec:
        raise AnalysisBroken("record lzma_sha256_state not found")
    sty = [fd_.get("ty") for fd_ in srec["fields"] if fd_["n"] == "size"]
    ck.ob("C14-SHA", "length-counter-64", sty == ["uint64_t"], "src/liblzma/check/check.h",
          "lzma_sha256_state.size is uint64_t" if sty == ["uint64_t"] else
          "lzma_sha256_state.size has type %s instead of uint64_t: the message length that goes into the last block wraps for "
          "long inputs and the digest is not SHA-256" % sty, key="SHA:length-counter-64")
    ck.floor("C14-SHA", 10)


def check_checkflow(ck, prog):
    """The integrity-check interface returns the standard value of THE DATA only if the Block coders feed it every byte
    exactly once and finish it exactly once:
    (update) in block_encode()/block_decode() every return that can follow the nested coder's call with a non-constant
    status passes lzma_check_update() or the guard that says nothing was consumed/produced (or that the check is ignored);
    (finish) lzma_check_finish() is not idempotent (SHA-256 pads inside the buffer it hashes): after it, coder->sequence is
    advanced before any non-fatal return, so that a re-entered state cannot finish twice."""
    from . import reinit
    ck.rule("C14-FLOW", "Block coders: lzma_check_update() on every continuing path after the nested coder ran; "
            "lzma_check_finish() is followed by a state advance before any non-fatal return")
    for fn, file in (("block_encode", "block_encoder.c"), ("block_decode", "block_decoder.c")):
        f = prog.fn(fn, file)
        ck.saw_function(f)
        calls = [b.id for b, i, e in f.iter_elems() for c in ex.calls(e, into_refs=False)
                 if c.get("callee") is not None and ex.show(c["callee"]).endswith("next.code") and len(c.get("args", ())) == 9]
        upd = {b.id for b, i, e in f.iter_elems() for c in ex.calls(e, into_refs=False) if c.get("fn") == "lzma_check_update"}
        if not calls or not upd:
            raise AnalysisBroken("%s: nested coder call / lzma_check_update() not found" % fn)
        guards = {b.id for b in f.blocks.values() if b.term and "cond" in b.term and
                  any(t in ex.show(b.term["cond"]) for t in ("in_used", "out_used", "ignore_check"))}
        seen, st, hit = set(), [y for y in f.blocks[calls[0]].succs if y is not None], None
        while st:
            x = st.pop()
            if x in seen or x in upd or x in guards or x is None:
                continue
            seen.add(x)
            for e in f.blocks[x].elems:
                d = ex.deref(e) if e is not None else {}
                if d.get("k") == "ret" and d.get("e") is not None and ex.const_val(d["e"]) is None:
                    hit = e
            if hit is not None:
                break
            st.extend(f.blocks[x].succs)
        ck.ob("C14-FLOW", fn + ":update", hit is None, common.where(f, hit),
              "%s: after the nested coder ran, every `return ret` has passed lzma_check_update() or its nothing-to-hash guard" % fn
              if hit is None else
              "%s(): `%s` (line %s) is reachable after the nested coder consumed/produced data without lzma_check_update() and "
              "without the guard that nothing was processed: those bytes are missing from the Check value" % (
                  fn, ex.show(hit), ex.line(hit)), key="FLOW:%s:update" % fn)
    reinit.check_init_once(ck, prog, "C14-FLOW", files={"block_decoder.c", "block_encoder.c"}, one_shot=("lzma_check_finish",))
    ck.floor("C14-FLOW", 4)


def _beval(n, env):
    n = ex.strip(n)
    k = n.get("k")
    if k == "idx":
        t = ex.show(n)
        if t in env:
            return env[t]
        raise ValueError(t)
    if k == "bin":
        a, b = _beval(n["l"], env), _beval(n["r"], env)
        op = n["op"]
        if op == "^":
            return a ^ b
        if op == "&":
            return a & b
        if op == "|":
            return a | b
        if op == "+":
            r = a + b
            if r > 1:
                raise ValueError("carry")
            return r
    if k == "un" and n["op"] == "~":
        return 1 - _beval(n["e"], env)
    raise ValueError(ex.show(n))


def check_disp(ck, prog):
    ck.rule("C14-DISP", "dispatch wiring of CRC implementations and of check.c")
    for bits in (32, 64):
        r = prog.fn("crc%d_resolve" % bits, "crc%d_fast.c" % bits, required=False)
        if r is None:
            ck.skip("crc%d_resolve not compiled" % bits)
            continue
        ck.saw_function(r)
        refs = sorted({x["n"] for b, i, e in r.iter_elems() for x in ex.walk(e)
                       if x.get("k") == "var" and x.get("s") == "f" and x["n"] != "is_arch_extension_supported"})
        want = sorted(["crc%d_arch_optimized" % bits, "lzma_crc%d_generic" % bits])
        ck.ob("C14-DISP", "resolve%d" % bits, refs == want, common.where(r),
              "crc%d_resolve chooses between %s" % (bits, refs), key="DISP:resolve%d" % bits)
        g = prog.fn("lzma_crc%d_generic" % bits, "crc%d_fast.c" % bits)
        ck.saw_function(g)
        inv = [ex.show(n) for b, i, e in g.iter_elems() for (l, r_, op, n) in ex.writes(e)
               if ex.show(l) == "crc" and r_ is not None and ex.show(r_) == "~crc"]
        rets = [ex.show(e.get("e")) for b, i, e in cfg.returns(g)]
        ck.ob("C14-DISP", "generic%d-complement" % bits, len(inv) >= 1 and any("~crc" in r_ for r_ in rets),
              common.where(g), "generic CRC-%d complements crc on entry and on exit" % bits,
              key="DISP:generic%d" % bits)
    upd = prog.fn("lzma_check_update", "check.c")
    ck.saw_function(upd)
    m = {}
    for b in upd.blocks.values():
        lb = b.label
        if lb and lb.get("kind") == "case" and lb.get("n"):
            calls = [c.get("fn") for e in b.elems if e for c in ex.calls(e, into_refs=False)]
            m[lb["n"]] = calls
    want = {"LZMA_CHECK_CRC32": "lzma_crc32", "LZMA_CHECK_CRC64": "lzma_crc64", "LZMA_CHECK_SHA256": "lzma_sha256_update"}
    ok = all(w in m.get(k, []) for k, w in want.items())
    ck.ob("C14-DISP", "check_update", ok, common.where(upd), "lzma_check_update: %s" % m, key="DISP:check_update")
    fin = prog.fn("lzma_check_finish", "check.c")
    ck.saw_function(fin)
    st = [ex.show(n) for b, i, e in fin.iter_elems() for (l, r, op, n) in ex.writes(e)]
    ok = any("u32[0]" in s and "state.crc32" in s for s in st) and any("u64[0]" in s and "state.crc64" in s for s in st)
    ck.ob("C14-DISP", "check_finish", ok, common.where(fin),
          "lzma_check_finish stores crc32 into buffer.u32[0] and crc64 into buffer.u64[0] (little-endian host: "
          "conv32le/conv64le are the identity): %s" % st, key="DISP:check_finish")
    ini = prog.fn("lzma_check_init", "check.c")
    st = [ex.show(n) for b, i, e in ini.iter_elems() for (l, r, op, n) in ex.writes(e)]
    ok = "check->state.crc32 = 0" in st and "check->state.crc64 = 0" in st
    ck.ob("C14-DISP", "check_init", ok, common.where(ini), "lzma_check_init zeroes the CRC states: %s" % st,
          key="DISP:check_init")
    ck.floor("C14-DISP", 5)


W64 = ("size_t", "uint64_t", "lzma_vli", "uintptr_t", "unsigned long")


def _is64(prog, f, n):
    n = ex.strip(n)
    if n is None:
        return False
    k = n.get("k")
    if k == "var":
        for v in f.vars:
            if v["n"] == n["n"] and v.get("id") == n.get("id"):
                return (v.get("ty") or "").replace("const ", "") in W64
    if k == "mem":
        rec = prog.records.get(n.get("rec")) or {"fields": []}
        for fd_ in rec["fields"]:
            if fd_["n"] == n["f"]:
                return (fd_.get("ty") or "").replace("const ", "") in W64
    if k == "cast":
        return (n.get("ty") or "").replace("const ", "") in W64
    if k == "bin" and n["op"] not in ("<<", ">>", "==", "!=", "<", ">", "<=", ">=", "&&", "||"):
        return _is64(prog, f, n["l"]) or _is64(prog, f, n["r"])
    return False


def check_state_width(ck, prog, rule="C14-STATEW"):
    """lzma_crc64_generic(): the 64-bit CRC state is updated as `crc = table[..][byte ^ low(crc)] ^ (crc >> 8)` (and
    `S32(crc)` in the four-byte loop).  The shifted remainder has to keep all 64 bits: a cast of `crc` to a 32-bit type anywhere
    in the new value outside a table index drops the upper half of the state."""
    ck.rule(rule, "lzma_crc64_generic: no narrowing cast of the 64-bit state in the value assigned back to it (table indices excepted)")
    f = prog.fn("lzma_crc64_generic", "crc64_fast.c", required=False)
    if f is None:
        raise AnalysisBroken("lzma_crc64_generic vanished")
    ck.saw_function(f)
    NARROW = ("uint32_t", "uint16_t", "uint8_t", "unsigned int", "int", "unsigned char", "unsigned short", "int32_t")
    n, bad = 0, None

    def scan(x, in_index):
        nonlocal bad
        x = ex.deref(x)
        if not isinstance(x, dict):
            return
        if x.get("k") == "idx":
            scan(x["b"], in_index)
            scan(x["i"], True)
            return
        if x.get("k") == "cast" and not in_index and (x.get("ty") or "").replace("const ", "") in NARROW and any(
                y.get("k") == "var" and y.get("n") == "crc" for y in ex.walk(x["e"])):
            bad = bad or x
        for c in ex.children(x):
            scan(c, in_index)
    for b, i, e in f.iter_elems():
        for (l, r, op, node) in ex.writes(e):
            if ex.show(l) == "crc" and r is not None and op == "=" and any(
                    y.get("k") == "var" and y.get("n") == "crc" for y in ex.walk(r)):
                n += 1
                scan(r, False)
    if n < 3:
        raise AnalysisBroken("lzma_crc64_generic: only %d state updates found" % n)
    ck.ob(rule, "lzma_crc64_generic", bad is None, common.where(f, bad),
          "lzma_crc64_generic: %d state updates keep the shifted remainder in 64 bits" % n if bad is None else
          "lzma_crc64_generic(): the new state contains `%s`%s: the upper 32 bits of the CRC64 state are dropped, so the result is "
          "not CRC-64/XZ" % ("(%s)%s" % (bad.get("ty"), ex.show(bad)), (" (macro %s)" % bad.get("m")) if bad.get("m") else ""), key="STATEW:lzma_crc64_generic")


def check_maskw(ck, prog):
    """`size & ~63U`: the complement is computed in 32 bits and zero-extended, so it also clears bits 32..63 of a 64-bit
    size.  A check function then silently skips multiples of 4 GiB of its input."""
    ck.rule("C14-MASKW", "no 64-bit byte count or address is ANDed with a mask that was complemented in 32 bits")
    n = 0
    for f in sorted(prog.all_functions(), key=lambda f: (f.file, f.line)):
        if not f.blocks:
            continue
        for b, i, e in f.iter_elems():
            for x in ex.walk(e, into_refs=False):
                ops = None
                if x.get("k") == "bin" and x["op"] == "&":
                    ops = (x["l"], x["r"])
                elif x.get("k") == "asg" and x["op"] == "&=":
                    ops = (x["l"], x["r"])
                if not ops:
                    continue
                for a, c in (ops, ops[::-1]):
                    cv = ex.const_val(c)
                    if cv is None or not _is64(prog, f, a):
                        continue
                    n += 1
                    trunc = 0xFFFF0000 <= cv < 0xFFFFFFFF and ((cv | (cv - 1)) & 0xFFFFFFFF) == 0xFFFFFFFF
                    if trunc:
                        ck.saw_function(f)
                        ck.ob("C14-MASKW", "%s@%s" % (f.name, ex.line(x)), False, common.where(f, x),
                              "%s(): `%s` masks a 64-bit quantity with %#x -- a mask complemented in 32-bit arithmetic; it also "
                              "clears bits 32..63, so sizes of 4 GiB and more are processed only partially" % (
                                  f.name, ex.show(x), cv), key="MASKW:%s" % f.name)
    ck.ob("C14-MASKW", "all", True, "src/liblzma/check", "%d AND operations on 64-bit sizes/addresses examined" % n,
          key="MASKW:all")
    if n < 8:
        raise AnalysisBroken("C14-MASKW: only %d AND operations on 64-bit operands found" % n)


def check_datapath(ck, prog):
    """Structural clauses of the table-driven CRC loops and of the SHA-256 buffering."""
    ck.rule("C14-PATH", "generic CRC: the alignment prologue cannot consume more bytes than the size guard leaves; "
                        "SHA-256 update: the buffer offset is recomputed from the running byte count for every piece")
    for fn, file in (("lzma_crc32_generic", "crc32_fast.c"), ("lzma_crc64_generic", "crc64_fast.c")):
        f = prog.fn(fn, file, required=False)
        if f is None:
            raise AnalysisBroken("%s vanished" % fn)
        ck.saw_function(f)
        guardv = maskv = None
        for b in f.blocks.values():
            if not (b.term and "cond" in b.term):
                continue
            c = ex.strip(b.term["cond"])
            if c.get("k") == "bin" and c["op"] == ">" and ex.show(c["l"]) == "size" and ex.const_val(c["r"]) is not None:
                guardv = ex.const_val(c["r"])
            if c.get("k") == "bin" and c["op"] == "&" and "buf" in ex.show(c["l"]) and ex.const_val(c["r"]) is not None \
                    and b.term.get("kind") == "WhileStmt":
                maskv = ex.const_val(c["r"])
        ok = guardv is not None and maskv is not None and maskv <= guardv
        ck.ob("C14-PATH", fn + ":prologue", ok, common.where(f),
              "%s: the alignment loop (address & %s) consumes at most %s bytes and runs only when size > %s" % (
                  fn, maskv, maskv, guardv) if ok else
              "%s(): the alignment loop (address & %s) can consume up to %s bytes but is entered when size > %s: for short "
              "unaligned input `size` wraps around and the function reads past the buffer / returns a wrong CRC" % (
                  fn, maskv, maskv, guardv), key="PATH:%s:prologue" % fn)
    f = prog.fn("lzma_sha256_update", "sha256.c")
    ck.saw_function(f)
    in_loop = set()
    for b in f.blocks.values():
        if b.id in cfg.reachable(f, cfg.succs(f, b.id)):
            in_loop.add(b.id)
    # the names of the locals are taken from the memcpy() into the block buffer: memcpy(check->buffer.u8 + OFF, buf, LEN)
    offn = lenn = None
    for b, i, e in f.iter_elems():
        for c in ex.calls(e, into_refs=False):
            if c.get("fn") in ("memcpy", "__builtin_memcpy", "__builtin___memcpy_chk") and len(c["args"]) >= 3:
                d0 = ex.strip(c["args"][0])
                if d0 is not None and d0.get("k") == "bin" and d0["op"] == "+" and "buffer.u8" in ex.show(d0["l"]):
                    o_, l_ = ex.strip(d0["r"]), ex.strip(c["args"][2])
                    if o_ is not None and o_.get("k") == "var" and l_ is not None and l_.get("k") == "var":
                        offn, lenn = o_["n"], l_["n"]
    if offn is None:
        raise AnalysisBroken("lzma_sha256_update: memcpy(check->buffer.u8 + offset, buf, length) with local offset/length not found")
    cs = [(b.id, ex.deref(e)) for b, i, e in f.iter_elems() if ex.deref(e).get("k") == "decl" and ex.deref(e)["n"] == offn]
    adv = [(b.id, ex.show(n), ex.show(r)) for b, i, e in f.iter_elems() for (l, r, op, n) in ex.writes(e)
           if ex.show(l) == "check->state.sha256.size" and op == "+="]
    ok = len(cs) == 1 and cs[0][0] in in_loop and cs[0][1].get("init") is not None and \
        "sha256.size" in ex.show(cs[0][1]["init"]) and len(adv) == 1 and adv[0][0] in in_loop and adv[0][2] == lenn
    ck.ob("C14-PATH", "sha256_update:offset", ok, common.where(f),
          "lzma_sha256_update: copy_start = size & 63 is recomputed in every iteration and the byte count advances by "
          "copy_size inside the loop" if ok else
          "lzma_sha256_update(): the offset into the 64-byte block buffer is not recomputed from the running byte count "
          "in every iteration (copy_start: %s; size updates: %s): an update that crosses a block boundary starting at "
          "a non-zero offset hashes the following pieces at the wrong offset" % (
              [(bid in in_loop) for bid, _ in cs], adv), key="PATH:sha256_update:offset")
    ck.floor("C14-PATH", 3)


def run(ck):
    ck.explanation = (
        "Every entry of the CRC32/CRC64 slice tables (3072 values), the CLMUL folding and Barrett constants, the "
        "shuffle masks, the SHA-256 round constants and initial state and check_sizes[] is compared with a value "
        "computed independently from the polynomial / FIPS 180-4 definitions; the SHA-256 Sigma/sigma macro expansions "
        "are evaluated as GF(2)-linear maps on all 32 basis vectors, Ch/Maj by truth table; schedule indices, round "
        "structure, big-endian load/length; dispatch wiring.")
    ck.not_decided = ("the CLMUL folding data path and the generic slice-by-N loops as functions of all inputs, "
                      "alignments and split points (only their constants, tables and wiring are decided).")
    prog = common.program(ck, ("liblzma",), files=("/check/",))
    check_tab(ck, prog)
    check_sha(ck, prog)
    check_disp(ck, prog)
    check_maskw(ck, prog)
    check_state_width(ck, prog)
    check_datapath(ck, prog)
    check_checkflow(ck, common.program(ck, ("liblzma",)))
