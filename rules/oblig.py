"""Table-driven validation obligations (E-GUARD front end).

Spec forms (tuples), used in `via` and `bypass` lists:
  ("cmp", A, B)                 equality comparison / memcmp between A and B
  ("rel", A, B, ops, pass)      relational comparison A op B, pass = 'T'|'F'
  ("test", PAT, pass[, ops])    branch whose condition contains PAT
  ("res", CALL, (codes...))     result of CALL tested against a pass code
                                (CALL 'slot:code' = call through a `code` slot;
                                 codes ('false',) for bool helpers that return true on error)
Destinations (`dst`):
  ("ret", (codes...))           return whose value may be one of the codes
  ("retval", (ints...))         return of an integer value (bool helpers)
  ("seq", NAME)                 assignment  state-field = NAME
  ("call", NAME)                call to NAME ('slot:code' for a code-slot call)
"""
from sa import ex, cfg, fd, guard, machine
from sa.compdb import AnalysisBroken
from . import common


class MP:
    """Must-pass obligation: every path src -> dst traverses a passing edge of `via`
    (or a `bypass` edge)."""

    def __init__(self, oid, fn, file, via, dst, src=None, init_seq=None, bypass=(),
                 init=None, keys=(), fail=None, plain=False, why="", min_guards=1, states=None,
                 resume=True, cut_calls=(), target=None, cut_writes=()):
        self.cut_writes = cut_writes
        self.states = states
        self.resume = resume
        self.cut_calls = cut_calls
        self.target = target
        self.oid, self.fn, self.file = oid, fn, file
        self.via, self.dst, self.src = via, dst, src
        self.init_seq, self.bypass = init_seq, bypass
        self.init, self.keys = init or {}, keys
        self.fail, self.plain, self.why = fail, plain, why
        self.min_guards = min_guards


class Present:
    """A guard must exist and its violating edge must lead only to `fail` returns."""

    def __init__(self, oid, fn, file, spec, fail, keys=(), init=None, init_seq=None,
                 plain=False, why="", count=1):
        self.oid, self.fn, self.file, self.spec, self.fail = oid, fn, file, spec, fail
        self.keys, self.init, self.init_seq, self.plain, self.why = keys, init or {}, init_seq, plain, why
        self.count = count


def find_guards(prog, f, spec):
    kind = spec[0]
    if kind == "cmp":
        return guard.find_cmp(f, spec[1], spec[2])
    if kind == "rel":
        return guard.find_cmp(f, spec[1], spec[2], ops=spec[3], rel_pass=spec[4])
    if kind == "test":
        return guard.find_test(f, spec[1], spec[2], ops=spec[3] if len(spec) > 3 else None)
    if kind == "res":
        gs, sites = guard.find_res(f, spec[1], spec[2], prog)
        return gs
    raise AnalysisBroken("bad guard spec %r" % (spec,))


class PlainGraph:
    """Product graph of a non-resumable function (keys: ret, ret_, $ret + extras)."""

    def __init__(self, prog, fn, cg, rs, extra_keys=(), init=None):
        self.prog, self.fn = prog, fn
        self.rets = prog.enum("lzma_ret")
        self.retnames = {v: k for k, v in self.rets.items()}
        keys = [fd.Key("var", "ret", domain=self.rets.values(), label="ret"),
                fd.Key("var", "ret_", domain=self.rets.values(), label="ret_"),
                fd.Key("retval", "$ret", label="$ret")]
        keys += list(extra_keys)
        keys += [fd.Key("var", v["n"], domain=(0, 1), label=v["n"]) for v in fn.vars
                 if v["n"].startswith("mythread_i_") or v["n"].startswith("mythread_j_")]
        self.g = fd.FD(prog, fn, keys, cg=cg, call_values=lambda c, s: rs.call_set(c, fn))
        self.g.value_hook = lambda n: rs._value(fn, n)
        st = self.g.make_state(**{"$ret": [machine.NO_RETURN_YET]})
        for lab, vals in (init or {}).items():
            st = self.g.state_with(st, lab, vals)
        self.inits = [st]
        self.g.run([st])
        self.names = {}
        self.enum = {}

    def entry_nodes(self, seq_names=None):
        return [(self.fn.entry, s) for s in self.inits]

    def seq_name(self, s):
        return ""

    def describe_path(self, path, limit=12):
        out = []
        last = None
        for n in path:
            lo, hi = cfg.block_lines(self.fn, n[0])
            tag = "%s" % (lo if lo else "B%d" % n[0])
            if tag != last:
                out.append(tag)
                last = tag
        if len(out) > limit:
            out = out[:limit // 2] + ["..."] + out[-limit // 2:]
        return " -> ".join(out)


_graphs = {}


def graph_for(prog, f, keys, init, init_seq, plain, resume=True):
    cg = common.callgraph(prog)
    rs = common.retsets(prog)
    kk = (id(prog), f.key, tuple((k.kind, k.name, k.rec, k.label) for k in keys),
          tuple(sorted((a, tuple(b)) for a, b in init.items())),
          tuple(init_seq) if init_seq else None, plain, resume)
    if kk not in _graphs:
        if plain:
            _graphs[kk] = PlainGraph(prog, f, cg, rs, extra_keys=keys, init=init)
        else:
            _graphs[kk] = machine.Machine(prog, f, cg, rs, extra_keys=keys, init=init,
                                          seq_init=init_seq, resume_edges=resume)
    return _graphs[kk]


def make_dst(m, f, dst):
    g = m.g
    kind = dst[0]
    if kind == "ret":
        vals = {m.rets[n] for n in dst[1]}
        only_states = {m.enum[x] for x in dst[2]} if len(dst) > 2 else None

        def pred(node):
            if node[0] != f.exit:
                return None
            if only_states is not None:
                sv = g.get(node[1], "seq")
                if sv is None or not (set(sv) <= only_states):
                    return None
            rv = g.get(node[1], "$ret")
            if rv is None:
                return "return <unknown>"
            hit = set(rv) & vals
            if hit:
                return "return " + ",".join(m.retnames[v] for v in sorted(hit))
            return None
        return pred
    if kind == "retval":
        vals = set(dst[1])

        def pred(node):
            if node[0] != f.exit:
                return None
            rv = g.get(node[1], "$ret")
            if rv is None:
                return "return <unknown>"
            hit = set(rv) & vals
            return ("return %s" % sorted(hit)) if hit else None
        return pred
    if kind == "exit":
        def pred(node):
            return "return" if node[0] == f.exit else None
        return pred
    if kind == "retexpr":
        blocks = set()
        for b, i, e in f.iter_elems():
            if e.get("k") == "ret" and e.get("e") is not None and guard.pat_match(f, e["e"], dst[1]):
                blocks.add(b.id)
        if not blocks:
            raise AnalysisBroken("%s: no return matching %s" % (f.name, dst[1]))

        def pred(node):
            return ("return <%s>" % dst[1]) if node[0] in blocks else None
        return pred
    if kind == "seq":
        target = m.enum[dst[1]]
        blocks = {}
        for b, i, e in f.iter_elems():
            for (l, r, op, node) in ex.writes(e):
                if g.keys[0].matches(l) and r is not None:
                    blocks.setdefault(b.id, []).append((i, r))

        def pred(node):
            for (i, r) in blocks.get(node[0], ()):
                for s in g.transfer_block(node[0], node[1], upto=i):
                    v = g.aeval(r, s)
                    if v is None or target in v:
                        return "sequence = %s" % dst[1]
            return None
        return pred
    if kind == "call":
        name = dst[1]
        blocks = set()
        for b, i, e in f.iter_elems():
            for c in ex.calls(e, into_refs=False):
                if c.get("fn") == name or (name.startswith("slot:") and guard._is_slot_call(c, name[5:])):
                    blocks.add(b.id)
        if not blocks:
            raise AnalysisBroken("%s: destination call %s not found" % (f.name, name))

        def pred(node):
            return ("call " + name) if node[0] in blocks else None
        return pred
    if kind == "write":
        blocks = set()
        for b, i, e in f.iter_elems():
            for (l, r, op, node) in ex.writes(e):
                if guard.pat_match(f, l, "&".join("d_" + p_ if not p_.startswith("d_") else p_
                                                  for p_ in dst[1].split("&"))):
                    blocks.add(b.id)
        if not blocks:
            raise AnalysisBroken("%s: no store matching %s" % (f.name, dst[1]))

        def pred(node):
            return ("store to <%s>" % dst[1]) if node[0] in blocks else None
        return pred
    raise AnalysisBroken("bad dst %r" % (dst,))


def check_fail_side(m, f, g_, fail_names):
    """The violating edge of guard g_ leads only to returns within fail_names."""
    if not fail_names:
        return True, ""
    g = m.g
    fail_vals = {m.rets[n] for n in fail_names if n in m.rets}
    extra_ints = {n for n in fail_names if isinstance(n, int)}
    bad = []
    seen_any = False
    for node in list(g.nodes):
        if node[0] != g_.bid:
            continue
        for ex_node in guard.returns_after(g, node, g_.fail_label):
            seen_any = True
            rv = g.get(ex_node[1], "$ret")
            if rv is None:
                bad.append("unknown")
            else:
                for v in rv:
                    if v not in fail_vals and v not in extra_ints and v != machine.NO_RETURN_YET:
                        bad.append(m.retnames.get(v, str(v)))
    if bad:
        return False, "violating edge can return %s" % ",".join(sorted(set(bad)))
    return True, ""


def evaluate(ck, prog, rule, table, floor=None):
    for ob in table:
        f = prog.fn(ob.fn, ob.file, target=getattr(ob, "target", None))
        ck.saw_function(f)
        m = graph_for(prog, f, ob.keys, ob.init, ob.init_seq, ob.plain, getattr(ob, "resume", True))
        key = "%s:%s" % (rule, ob.oid)
        if isinstance(ob, Present):
            gs = find_guards(prog, f, ob.spec)
            gs = [x for x in gs if any(n[0] == x.bid for n in m.g.nodes)]
            if len(gs) < ob.count:
                ck.ob(rule, ob.oid, False, common.where(f),
                      "validation missing in %s: %s (%s); found %d of %d" % (
                          ob.fn, _spec_text(ob.spec), ob.why, len(gs), ob.count), key=key)
                continue
            okall = True
            msgs = []
            for x in gs:
                ok, why = check_fail_side(m, f, x, ob.fail)
                if not ok:
                    okall = False
                    msgs.append("line %d `%s`: %s" % (x.line, x.text, why))
            ck.ob(rule, ob.oid, okall, common.where(f, gs[0].line),
                  ("%s: %s" % (ob.why, "; ".join(msgs))) if not okall else
                  "%s: `%s` -> %s" % (ob.why, gs[0].text, "/".join(str(z) for z in (ob.fail or ()))), key=key)
            continue
        # must-pass
        cut = set()
        found = []
        for spec in ob.via:
            gs = find_guards(prog, f, spec)
            gs = [x for x in gs if any(n[0] == x.bid for n in m.g.nodes)]
            if ob.states:
                sv = {m.enum[x] for x in ob.states}
                gs = [x for x in gs if all(set(m.g.get(n[1], "seq") or ()) <= sv
                                           for n in m.g.nodes if n[0] == x.bid)]
            found.extend(gs)
            for x in gs:
                cut.add((x.bid, x.pass_label))
        nvia = len(found)
        if nvia < ob.min_guards:
            ck.ob(rule, ob.oid, False, common.where(f),
                  "validation missing in %s: no branch matching %s (%s)" % (
                      ob.fn, " / ".join(_spec_text(s) for s in ob.via), ob.why), key=key)
            continue
        for spec in ob.bypass:
            for x in find_guards(prog, f, spec):
                cut.add((x.bid, x.pass_label))
        # fail side
        failmsg = []
        if ob.fail:
            for x in found:
                ok, why = check_fail_side(m, f, x, ob.fail)
                if not ok:
                    failmsg.append("line %d `%s`: %s" % (x.line, x.text, why))
        src = m.entry_nodes(ob.src)
        if not src:
            raise AnalysisBroken("%s/%s: no source nodes" % (rule, ob.oid))
        dstp = make_dst(m, f, ob.dst)
        cut_blocks = set()
        if getattr(ob, "cut_calls", None):
            for b_, i_, e_ in f.iter_elems():
                if any(c.get("fn") in ob.cut_calls for c in ex.calls(e_, into_refs=False)):
                    cut_blocks.add(b_.id)
        for pat in getattr(ob, "cut_writes", ()) or ():
            for b_, i_, e_ in f.iter_elems():
                for (l_, r_, op_, n_) in ex.writes(e_):
                    if guard.pat_match(f, l_, "&".join("d_" + p_ for p_ in pat.split("&"))):
                        cut_blocks.add(b_.id)
        path, hit = guard.cut_reach(m.g, src, cut, dstp, cut_blocks=cut_blocks)
        ok = path is None and not failmsg
        if path is not None:
            msg = ("%s: `%s` is reachable in %s from %s without passing %s; path %s" % (
                ob.why, hit, ob.fn, ",".join(ob.src) if ob.src else "entry",
                " / ".join(_spec_text(s) for s in ob.via), m.describe_path(path)))
        elif failmsg:
            msg = "%s: %s" % (ob.why, "; ".join(failmsg))
        else:
            msg = "%s: %d guard(s) [%s] cut every path to %s" % (
                ob.why, nvia, "; ".join("%d:`%s`" % (x.line, x.text[:70]) for x in found[:3]),
                _dst_text(ob.dst))
        ck.ob(rule, ob.oid, ok, common.where(f, found[0].line) if found else common.where(f), msg, key=key)
    if floor:
        ck.floor(rule, floor)


def _spec_text(s):
    if s[0] == "cmp":
        return "compare(%s, %s)" % (s[1], s[2])
    if s[0] == "rel":
        return "compare(%s %s %s)" % (s[1], "/".join(s[3]), s[2])
    if s[0] == "test":
        return "test(%s)" % s[1]
    if s[0] == "res":
        return "result of %s == %s" % (s[1], "/".join(s[2]))
    return str(s)


def _dst_text(d):
    if d[0] == "write":
        return "store to " + d[1]
    if d[0] in ("ret", "retval"):
        return "return " + "/".join(str(x) for x in d[1])
    return " ".join(str(x) for x in d)


class Consume:
    """In the given states every consumption of input (advance of *posvar) happens in the
    condition of a discharging guard, or only after passing one, or on a path that can only
    return `fail` codes."""

    def __init__(self, oid, fn, file, states, spec, fail, posvar="in_pos", init_seq=None,
                 keys=(), init=None, why="", guard_fails=True):
        self.guard_fails = guard_fails
        self.oid, self.fn, self.file, self.states, self.spec, self.fail = oid, fn, file, states, spec, fail
        self.posvar, self.init_seq, self.keys, self.init, self.why = posvar, init_seq, keys, init or {}, why


def _advances(f, posvar):
    out = []
    for b, i, e in f.iter_elems():
        for x in ex.walk(e, into_refs=False):
            k = x.get("k")
            t = None
            if k == "un" and x["op"] in ex.ASSIGN_UN:
                t = ex.strip(x["e"])
            elif k == "asg":
                t = ex.strip(x["l"])
            if t is not None and t.get("k") == "un" and t["op"] == "*" and ex.reads_var(t["e"], posvar):
                out.append((b.id, i, e))
            if k == "call":
                for a in x["args"]:
                    a = ex.strip(a)
                    if a is not None and a.get("k") == "var" and a["n"] == posvar:
                        out.append((b.id, i, e))
    return out


def evaluate_consume(ck, prog, rule, table):
    for ob in table:
        f = prog.fn(ob.fn, ob.file)
        ck.saw_function(f)
        m = graph_for(prog, f, ob.keys, ob.init, ob.init_seq, False)
        g = m.g
        svals = {m.enum[s] for s in ob.states}
        key = "%s:%s" % (rule, ob.oid)
        gs = find_guards(prog, f, ob.spec)
        # guards reached in the given states
        def in_states(bid):
            for n in g.nodes:
                if n[0] == bid:
                    sv = g.get(n[1], "seq")
                    if sv and set(sv) <= svals:
                        return True
            return False
        gs = [x for x in gs if in_states(x.bid)]
        if not gs:
            ck.ob(rule, ob.oid, False, common.where(f),
                  "validation missing in %s states %s: %s (%s)" % (
                      ob.fn, ",".join(ob.states), _spec_text(ob.spec), ob.why), key=key)
            continue
        msgs = []
        for x in gs:
            if not ob.guard_fails:
                break
            ok, why = check_fail_side(m, f, x, ob.fail)
            if not ok:
                msgs.append("line %d `%s`: %s" % (x.line, x.text, why))
        gb = {x.bid for x in gs}
        cut = {(x.bid, x.pass_label) for x in gs}
        src = [n for n in g.nodes if n[0] == f.entry and (g.get(n[1], "seq") or set()) and
               set(g.get(n[1], "seq")) <= svals]
        fail_vals = {m.rets[n] for n in ob.fail}
        nadv = 0
        for (bid, i, e) in _advances(f, ob.posvar):
            if not in_states(bid):
                continue
            nadv += 1
            if bid in gb:
                continue
            # reachable only through a guard's passing edge?
            nodes_b = [n for n in g.nodes if n[0] == bid and set(g.get(n[1], "seq") or ()) <= svals]
            dstset = set(nodes_b)
            path, hit = guard.cut_reach(g, src, cut, lambda n: "advance" if n in dstset else None,
                                        follow_resume=False)
            if path is None:
                continue
            # only failing returns afterwards?
            onlyfail = True
            for n in nodes_b:
                st = [n]
                seen = set()
                while st:
                    y = st.pop()
                    if y in seen:
                        continue
                    seen.add(y)
                    if y[0] == f.exit:
                        rv = g.get(y[1], "$ret")
                        if rv is None or any(v not in fail_vals for v in rv):
                            onlyfail = False
                        continue
                    for (d, l) in g.succ.get(y, ()):
                        if l != "resume":
                            st.append(d)
            if not onlyfail:
                msgs.append("input consumed at line %d in state %s without %s" % (
                    ex.line(e), ",".join(ob.states), _spec_text(ob.spec)))
        ck.ob(rule, ob.oid, not msgs, common.where(f, gs[0].line),
              ("%s: " % ob.why) + ("; ".join(msgs) if msgs else
                                   "`%s` guards all %d consumption site(s) in %s" % (
                                       gs[0].text, nadv, ",".join(ob.states))), key=key)


class HasCmp:
    """The function contains an equality comparison between A and B (anywhere, also as a value)."""

    def __init__(self, oid, fn, file, a, b, why=""):
        self.oid, self.fn, self.file, self.a, self.b, self.why = oid, fn, file, a, b, why


def evaluate_hascmp(ck, prog, rule, table):
    for ob in table:
        f = prog.fn(ob.fn, ob.file)
        ck.saw_function(f)
        found = None
        for b, i, e in f.iter_elems():
            for x in ex.walk(e, into_refs=False):
                if x.get("k") == "bin" and x["op"] in ("==", "!="):
                    if (guard.pat_match(f, x["l"], ob.a) and guard.pat_match(f, x["r"], ob.b)) or \
                       (guard.pat_match(f, x["l"], ob.b) and guard.pat_match(f, x["r"], ob.a)):
                        found = x
        ck.ob(rule, ob.oid, found is not None, common.where(f, found) if found else common.where(f),
              "%s: %s" % (ob.why, ("`%s`" % ex.show(found)) if found else
                          "no comparison of %s with %s in %s" % (ob.a, ob.b, ob.fn)),
              key="%s:%s" % (rule, ob.oid))
