"""Shared lock-discipline rules for the threaded decoder (C07) and encoder (C08)."""
from sa import ex, cfg, fd, lock
from sa.compdb import AnalysisBroken
from . import common


_lg_cache = {}


def lockgraph(prog, f, cg, role, cfgd):
    k = (id(prog), f.key, cfgd["file"])
    if k not in _lg_cache:
        _lg_cache[k] = lock.LockGraph(prog, f, cg, role)
    return _lg_cache[k]


def make_role(cfgd):
    roles = cfgd["roles"]

    def role(n):
        fk = ex.field_key(n)
        if fk and fk[1] == "mutex":
            return roles.get(fk[0])
        return None
    return role


def cond_role(cfgd, n):
    a = ex.strip(n)
    if a is not None and a.get("k") == "un" and a["op"] == "&":
        a = ex.strip(a["e"])
    fk = ex.field_key(a)
    if fk and fk[1] == "cond":
        return cfgd["roles"].get(fk[0])
    return None


def _after_call(fn, blk, idx, callee):
    """Every path from entry to (blk, idx) ... approximated: (blk, idx) is reachable from a call
    to `callee`, and no call to `callee` is reachable from it."""
    sites = []
    for b, i, e in fn.iter_elems():
        if any(c.get("fn") == callee for c in ex.calls(e, into_refs=False)):
            sites.append((b.id, i))
    if not sites:
        return False
    for (cb, ci) in sites:
        if cb == blk.id:
            if ci >= idx:
                return False
            continue
        if blk.id not in cfg.reachable(fn, [cb]):
            continue
        if cb in cfg.reachable(fn, cfg.succs(fn, blk.id)):
            return False
    return any(cb == blk.id or blk.id in cfg.reachable(fn, [cb]) for (cb, ci) in sites)


def _dominated_by_call(fn, blk, idx, callee):
    dom = cfg.dominators(fn)
    for b, i, e in fn.iter_elems():
        if any(c.get("fn") == callee for c in ex.calls(e, into_refs=False)):
            if b.id == blk.id and i < idx:
                return True
            if b.id != blk.id and b.id in dom.get(blk.id, ()):
                return True
    return False


def _all_paths_call(fn, blk, idx, callees):
    def via(bb, ii, ee):
        if bb.id == blk.id and ii >= idx:
            return False
        return any(c.get("fn") in callees for c in ex.calls(ee, into_refs=False))
    if any(via(blk, j, blk.elems[j]) for j in range(0, idx) if blk.elems[j] is not None):
        return True
    ok, path = cfg.must_pass(fn, [fn.entry], [blk.id], via)
    return ok


def _all_paths_test(fn, blk, callee):
    tests = set()
    for b in fn.blocks.values():
        if b.term and "cond" in b.term and any(
                c.get("fn") == callee for c in ex.calls(b.term["cond"])):
            tests.add(b.id)
    if not tests:
        return False
    seen = set()
    st = [fn.entry]
    while st:
        x = st.pop()
        if x in seen or x in tests:
            continue
        seen.add(x)
        if x == blk.id:
            return False
        st.extend(cfg.succs(fn, x))
    return True


def _before_call(fn, blk, idx, callee):
    """No call to `callee` can have happened before (blk, idx)."""
    for b, i, e in fn.iter_elems():
        if any(c.get("fn") == callee for c in ex.calls(e, into_refs=False)):
            if b.id == blk.id:
                if i < idx:
                    return False
                continue
            if blk.id in cfg.reachable(fn, [b.id]):
                return False
    return True


def check_prot(ck, prog, cfgd, rule):
    ck.rule(rule, "every access to a shared field happens with the protecting mutex held, or is a "
            "frozen exception whose structural condition (pre-publication, post-join, idle thread, "
            "quiescent state, owner-thread read) is re-verified")
    cg = common.callgraph(prog)
    role = make_role(cfgd)
    prot = cfgd["prot"]
    nacc = 0
    exc_used = set()
    for f in prog.fns_in(cfgd["file"]):
        ck.saw_function(f)
        extra = ()
        inits = None
        if f.name == cfgd["main_fn"]:
            en = prog.enum_with(cfgd["quiescent_any"], f.file)
            extra = (fd.Key("field", "sequence", rec=cfgd["coder_rec"], domain=en.values(), label="seq"),)
            inits = [{"seq": [v]} for v in sorted(en.values())]
            names = {v: k for k, v in en.items()}
        lg = lock.LockGraph(prog, f, cg, role, extra_keys=extra, inits=inits)
        seen = {}
        for node, blk, i, e, held in lg.node_sites():
            for m, w, rmw in lock.accesses(e):
                fk = (m.get("rec"), m["f"])
                if fk not in prot:
                    continue
                need = prot[fk]["w" if w else "r"]
                if need is None:
                    continue
                mode = "W" if w else "R"
                ok = bool(set(need) & held) if isinstance(need, tuple) else (need in held)
                why = "held=%s" % ",".join(sorted(held)) if held else "no lock held"
                excn = None
                if not ok:
                    for x in cfgd["exceptions"]:
                        if x["fn"] != f.name or m["f"] not in x["fields"]:
                            continue
                        if x.get("rec") and x["rec"] != fk[0]:
                            continue
                        if x.get("mode") and mode not in x["mode"]:
                            continue
                        kind = x["kind"]
                        good = False
                        if kind == "post-join":
                            good = _after_call(f, blk, i, "mythread_join")
                        elif kind == "pre-create":
                            good = _before_call(f, blk, i, "mythread_create")
                        elif kind == "after-threads-end":
                            good = _dominated_by_call(f, blk, i, "threads_end") or \
                                _dominated_by_call(f, blk, i, "lzma_alloc")
                        elif kind == "after-stop-or-end":
                            good = _all_paths_call(f, blk, i, ("threads_stop", "threads_end")) or \
                                _dominated_by_call(f, blk, i, "lzma_alloc")
                        elif kind == "after-outq-empty":
                            good = _all_paths_test(f, blk, "lzma_outq_is_empty")
                        elif kind == "quiescent-state":
                            sv = lg.g.get(node[1], "seq")
                            good = sv is not None and all(names.get(v) in cfgd["quiescent"] for v in sv)
                            why = "state %s" % ",".join(sorted(names.get(v, str(v)) for v in (sv or ())))
                        elif kind in ("idle-thread", "owner-read", "documented"):
                            good = True
                        if good:
                            ok = True
                            excn = x
                            exc_used.add(id(x))
                            break
                key = "PROT:%s:%s:%s" % (f.name, m["f"], mode)
                inst = "%s:%s:%s" % (f.name, ex.show(m), mode)
                prev = seen.get((inst, ex.line(m)))
                if prev is True or (prev is False and not ok):
                    continue
                seen[(inst, ex.line(m))] = ok if prev is None else (prev and ok)
                nacc += 1
                ck.ob(rule, inst, ok, common.where(f, ex.line(m) or ex.line(e)),
                      ("%s of %s: %s" % (mode, ex.show(m),
                                         ("exception %s (%s)" % (excn["kind"], excn["reason"])) if excn
                                         else "mutex %s held" % (need,)))
                      if ok else
                      "%s of shared field %s in %s() without %s (%s): other threads access it under "
                      "that mutex — data race" % (
                          "write" if w else "read", ex.show(m), f.name,
                          "mutex role " + str(need), why),
                      key=key)
    # contradicting beliefs (Engler et al.): an unlocked read excused as "only this thread writes the member" cannot
    # stand next to a store to the same member in a worker-thread function
    wfns = set((cfgd.get("stop_ack") or {}).get("worker_fns", ()))
    for x in cfgd["exceptions"]:
        if x.get("kind") != "owner-read" or not wfns:
            continue
        for fld in sorted(x["fields"]):
            wr = None
            for wf in sorted(wfns):
                g = prog.fn(wf, cfgd["file"])
                for b, i, e in g.iter_elems():
                    for m, w, rmw in lock.accesses(e):
                        if w and m["f"] == fld and (not x.get("rec") or m.get("rec") == x["rec"]) and \
                                (m.get("rec"), m["f"]) in prot:
                            wr = (g, m)
            nacc += 1
            ck.ob(rule, "owner-read:%s:%s" % (x["fn"], fld), wr is None, common.where(*wr) if wr else cfgd["file"],
                  "%s is read without its mutex in %s() on the ground that only that thread writes it; no worker function "
                  "writes it" % (fld, x["fn"]) if wr is None else
                  "%s() reads %s without its mutex because \"only the main thread modifies it\", but the worker function %s() "
                  "stores to it (line %s): the unlocked read and that store are a data race" % (
                      x["fn"], fld, wr[0].name, ex.line(wr[1])), key="PROT:owner-read:%s:%s" % (x["fn"], fld))
    return nacc


def check_requires(ck, prog, cfgd, rule):
    ck.rule(rule, "functions documented as needing the mutex are called with it held")
    cg = common.callgraph(prog)
    role = make_role(cfgd)
    n = 0
    for f in prog.fns_in(cfgd["file"]):
        lg = None
        for b, i, e in f.iter_elems():
            if any(c.get("fn") in cfgd["requires"] for c in ex.calls(e, into_refs=False)):
                lg = lg or lockgraph(prog, f, cg, role, cfgd)
        if lg is None:
            continue
        for blk, i, e, held in lg.sites():
            for c in ex.calls(e, into_refs=False):
                need = cfgd["requires"].get(c.get("fn"))
                if not need:
                    continue
                n += 1
                exc = cfgd.get("requires_except", {}).get((f.name, c["fn"]))
                ok = need in held or exc is not None
                ck.ob(rule, "%s->%s" % (f.name, c["fn"]), ok, common.where(f, c),
                      "%s() called %s" % (c["fn"], ("with %s held" % need) if need in held else
                                          ("exception: " + exc) if exc else
                                          "WITHOUT mutex %s (documented as required: it reads outbuf state "
                                          "that workers modify)" % need),
                      key="REQ:%s:%s" % (f.name, c["fn"]))
    return n


def check_order(ck, prog, cfgd, rule):
    ck.rule(rule, "lock order is coder mutex -> thread mutex only; no lock is held at return")
    cg = common.callgraph(prog)
    role = make_role(cfgd)
    # functions that take T, called while holding T or M
    takes = {}
    for f in prog.fns_in(cfgd["file"]):
        lg = lockgraph(prog, f, cg, role, cfgd)
        acq = set()
        for (h, r, ln) in lg.order:
            pass
        for b, i, e in f.iter_elems():
            for c in ex.calls(e, into_refs=False):
                if c.get("fn") == lock.LOCK:
                    r = lg._mutex_arg(c)
                    if r:
                        acq.add(r)
        takes[f.name] = acq
    n = 0
    for f in prog.fns_in(cfgd["file"]):
        lg = lockgraph(prog, f, cg, role, cfgd)
        pairs = set((h, r) for (h, r, ln) in lg.order)
        # calls made while holding a lock to functions that acquire locks
        for blk, i, e, held in lg.sites():
            for c in ex.calls(e, into_refs=False):
                for r in takes.get(c.get("fn"), ()):
                    for h in held:
                        pairs.add((h, r))
                # callbacks passed to lzma_outq_enable_partial_output
                for a in c["args"]:
                    a2 = ex.strip(a)
                    if a2 is not None and a2.get("k") == "un" and a2["op"] == "&":
                        a2 = ex.strip(a2["e"])
                    if a2 is not None and a2.get("k") == "var" and a2.get("s") == "f":
                        for r in takes.get(a2["n"], ()):
                            for h in held:
                                pairs.add((h, r))
        for (h, r) in sorted(pairs):
            n += 1
            ok = (h, r) in cfgd["order_ok"]
            ck.ob(rule, "%s:%s->%s" % (f.name, h, r), ok, common.where(f),
                  "%s acquires %s while holding %s%s" % (f.name, r, h,
                                                         "" if ok else ": inverse of the established order (deadlock)"),
                  key="ORDER:%s:%s:%s" % (f.name, h, r))
        for held in sorted(set(lg.exit_held()), key=lambda h: sorted(h)):
            ck.ob(rule, "%s:exit" % f.name, not held, common.where(f),
                  "%s returns with %s" % (f.name, "no lock held" if not held else
                                          "mutex %s still held" % ",".join(sorted(held))),
                  key="ORDER:%s:exit" % f.name)
    return n


def check_wait(ck, prog, cfgd, rule):
    ck.rule(rule, "every condition wait is inside a loop that re-tests the predicate, with the paired "
            "mutex held; every write (under the mutex) to a field of a wait predicate is followed by a "
            "signal on the paired condition before the mutex is released")
    cg = common.callgraph(prog)
    role = make_role(cfgd)
    nw = 0
    for f in prog.fns_in(cfgd["file"]):
        ws = lock.wait_sites(f)
        if not ws and not cfgd["waited"]:
            continue
        lg = lockgraph(prog, f, cg, role, cfgd)
        held_at = {}
        for blk, i, e, held in lg.sites():
            held_at[(blk.id, i)] = held
        for (b, i, c) in ws:
            nw += 1
            cr = cond_role(cfgd, c["args"][0])
            mr = role(ex.strip(c["args"][1])["e"] if ex.strip(c["args"][1]).get("k") == "un" else c["args"][1])
            looped = lock.in_loop(f, b.id) and _retests(f, lg, b, c, mr, cfgd["requires"])
            held = held_at.get((b.id, i), frozenset())
            ok = looped and cr is not None and cr == mr and mr in held
            ck.ob(rule, "%s:wait@%s" % (f.name, cr), ok, common.where(f, c),
                  "%s(cond %s, mutex %s): %s" % (c["fn"], cr, mr,
                                                 "in a re-testing loop with the mutex held" if ok else
                                                 "not in a loop / wrong mutex / mutex not held: lost or spurious wake-up "
                                                 "is not handled"),
                  key="WAIT:%s:%s" % (f.name, cr))
        # signal after write
        for blk, i, e, held in lg.sites():
            for m, w, rmw in lock.accesses(e):
                fk = (m.get("rec"), m["f"])
                cr = cfgd["waited"].get(fk)
                if not w or cr is None or cr not in held:
                    continue
                exc = None
                for x in cfgd.get("signal_except", ()):
                    if x["fn"] == f.name and m["f"] in x["fields"]:
                        exc = x
                # must pass a signal on cond role cr before unlocking cr
                def is_signal(bb, ii, ee, cr=cr):
                    if bb.id == blk.id and ii <= i:
                        return False
                    for c in ex.calls(ee, into_refs=False):
                        if c.get("fn") == lock.SIGNAL and cond_role(cfgd, c["args"][0]) == cr:
                            return True
                        if c.get("fn") in cfgd.get("signalling_fns", ()):
                            return True
                    return False
                unlock_blocks = set()
                same_block_ok = False
                for bb, ii, ee in f.iter_elems():
                    for c in ex.calls(ee, into_refs=False):
                        if c.get("fn") == lock.UNLOCK and lg._mutex_arg(c) == cr:
                            unlock_blocks.add(bb.id)
                        if c.get("fn") in lock.WAITS and bb.id != blk.id:
                            # waiting releases the mutex too
                            mr = lg._mutex_arg(c, 1)
                            if mr == cr:
                                unlock_blocks.add(bb.id)
                # signal later in the same block?
                for j in range(i + 1, len(blk.elems)):
                    if blk.elems[j] is not None and is_signal(blk, j, blk.elems[j]):
                        same_block_ok = True
                ok = same_block_ok
                if not ok:
                    ok, path = cfg.must_pass(f, cfg.succs(f, blk.id), unlock_blocks - {blk.id}, is_signal)
                    if blk.id in unlock_blocks and not same_block_ok:
                        # unlock in the same block after the write without a signal in between
                        for j in range(i + 1, len(blk.elems)):
                            ee = blk.elems[j]
                            if ee is None:
                                continue
                            if any(c.get("fn") == lock.UNLOCK and lg._mutex_arg(c) == cr
                                   for c in ex.calls(ee, into_refs=False)):
                                ok = False
                if exc is not None:
                    ok = True
                ck.ob(rule, "%s:signal:%s" % (f.name, m["f"]), ok, common.where(f, m),
                      "write to %s (read by waiters on cond %s) %s" % (
                          ex.show(m), cr,
                          ("exception: " + exc["reason"]) if exc else
                          "is followed by a signal before the mutex is released" if ok else
                          "can reach the unlock without mythread_cond_signal: a waiter sleeps forever (lost wake-up)"),
                      key="SIGNAL:%s:%s" % (f.name, m["f"]))
    return nw


def _retests(f, lg, b, c, mr, requires=()):
    """After the wait returns, every path to an unlock of the mutex (or to the exit) first
    re-executes a branch that dominates the wait (i.e. re-tests the decision to wait).  The
    non-zero (timed out) edge of a timed wait is exempt."""
    dom = cfg.dominators(f)
    def shared_cond(d):
        t = f.blocks[d].term
        if not t or "cond" not in t or len(f.blocks[d].succs) != 2:
            return False
        # conditions over locals only (mythread_sync's loop variables, counters) re-test nothing
        return any(x.get("k") in ("mem", "call") or
                   (x.get("k") == "un" and x["op"] == "*") for x in ex.walk(t["cond"]))
    via_blocks = {d for d in dom.get(b.id, ()) if d != b.id and shared_cond(d)}
    # the other operands of a short-circuit loop condition that is on a cycle with the wait
    cyc = cfg.reachable(f, cfg.succs(f, b.id))
    for d, blk in f.blocks.items():
        if d in cyc and b.id in cfg.reachable(f, [d]) and blk.term and \
                blk.term.get("kind") in ("BinaryOperator", "WhileStmt", "DoStmt", "ForStmt") and shared_cond(d):
            via_blocks.add(d)
    # dominating calls of functions that read the shared state under the mutex
    for bb, ii, ee in f.iter_elems():
        if bb.id in dom.get(b.id, ()) and bb.id != b.id and any(
                cc.get("fn") in requires for cc in ex.calls(ee, into_refs=False)):
            via_blocks.add(bb.id)
    dst = {f.exit}
    for bb, ii, ee in f.iter_elems():
        for cc in ex.calls(ee, into_refs=False):
            if cc.get("fn") == lock.UNLOCK and lg._mutex_arg(cc) == mr:
                dst.add(bb.id)
    srcs = cfg.succs(f, b.id)
    t = b.term
    if c.get("fn") == "mythread_cond_timedwait" and t and "cond" in t and len(b.succs) == 2:
        cnd = ex.strip(t["cond"])
        if cnd is not None and cnd.get("k") == "bin" and cnd["op"] == "!=" and ex.is_const(cnd["r"], 0):
            srcs = [b.succs[1]] if b.succs[1] is not None else []
    # search the path-sensitive product graph (the local `ret` is tracked there)
    g = lg.g
    allowed_first = set(srcs)
    seen = set()
    st = []
    for n in g.nodes:
        if n[0] == b.id:
            for (d, label) in g.succ.get(n, ()):
                if d[0] in allowed_first:
                    st.append(d)
    while st:
        x = st.pop()
        if x in seen or x[0] in via_blocks:
            continue
        seen.add(x)
        if x[0] in dst:
            return False
        for (d, label) in g.succ.get(x, ()):
            st.append(d)
    return True


def _must_pass_blocks(f, srcs, dst, via_blocks):
    seen = set()
    st = [s for s in srcs]
    while st:
        x = st.pop()
        if x in seen or x in via_blocks:
            continue
        seen.add(x)
        if x in dst:
            return False, [x]
        st.extend(cfg.succs(f, x))
    return True, None


def check_end(ck, prog, cfgd, rule):
    ck.rule(rule, "threads are told to exit and joined before their array, the queue and the coder are freed")
    f = prog.fn("threads_end", cfgd["file"])
    ck.saw_function(f)
    dom = cfg.dominators(f)
    join_blocks = [b.id for b, i, e in f.iter_elems()
                   if any(c.get("fn") == "mythread_join" for c in ex.calls(e, into_refs=False))]
    free_sites = [(b, i, e) for b, i, e in f.iter_elems()
                  if any(c.get("fn") == "lzma_free" for c in ex.calls(e, into_refs=False))]
    ok = False
    why = "no join loop / no free"
    if join_blocks and free_sites:
        jb = join_blocks[0]
        # loop header: a block dominating the join block that has a back edge from its region
        headers = [h for h in dom.get(jb, ()) if h in cfg.reachable(f, [jb]) and
                   f.blocks[h].term and "cond" in f.blocks[h].term]
        fb = free_sites[0][0].id
        ok = any(h in dom.get(fb, ()) for h in headers) and jb not in cfg.reachable(f, [fb])
        why = "join loop header dominates lzma_free(coder->threads) and no join happens after it" if ok \
            else "lzma_free(coder->threads) is not dominated by the join loop"
    ck.ob(rule, "threads_end:join-before-free", ok, common.where(f), why, key="END:join-before-free")
    # exit request precedes join
    exit_blocks = []
    for b, i, e in f.iter_elems():
        for (l, r, op, node) in ex.writes(e):
            if ex.field_key(l) and ex.field_key(l)[1] == "state" and r is not None and \
                    (ex.strip(r).get("n") == "THR_EXIT"):
                exit_blocks.append(b.id)
    ok2 = bool(exit_blocks) and bool(join_blocks) and \
        join_blocks[0] in cfg.reachable(f, [exit_blocks[0]]) and \
        exit_blocks[0] not in cfg.reachable(f, [join_blocks[0]])
    ck.ob(rule, "threads_end:exit-before-join", ok2, common.where(f),
          "THR_EXIT is published to every thread before the join loop" if ok2 else
          "join can run before the thread was told to exit", key="END:exit-before-join")
    # the end function: threads_end before outq_end and before freeing the coder
    g = prog.fn(cfgd["end_fn"], cfgd["file"])
    ck.saw_function(g)
    order = []
    for b, i, e in g.iter_elems():
        for c in ex.calls(e, into_refs=False):
            if c.get("fn") in ("threads_end", "lzma_outq_end", "lzma_free", "mythread_mutex_destroy",
                               "mythread_cond_destroy"):
                order.append((ex.line(c), c["fn"]))
    order.sort()
    names = [n for (ln, n) in order]
    ok3 = "threads_end" in names and all(
        names.index("threads_end") < k for k, n in enumerate(names) if n != "threads_end")
    ck.ob(rule, "%s:threads-first" % cfgd["end_fn"], ok3, common.where(g),
          "%s: %s" % (cfgd["end_fn"], " -> ".join(names)), key="END:%s:threads-first" % cfgd["end_fn"])


_sg = {}

UNLOCKING = ("mythread_mutex_unlock", "mythread_cond_wait", "mythread_cond_timedwait")


def _same_critical_section(fn, src, dst, dst_idx):
    """No unlock / wait on any path from block src to element dst_idx of block dst."""
    if src == dst:
        between = {dst}
    else:
        fwd = cfg.reachable(fn, [src], stop=[dst])
        back = cfg.reachable(fn, [dst], stop=[src], forward=False)
        between = (set(fwd) & set(back)) | {src, dst}
    for bid in between:
        blk = fn.blocks[bid]
        for j, e in enumerate(blk.elems):
            if e is None or (bid == dst and j >= dst_idx):
                continue
            if any(c.get("fn") in UNLOCKING for c in ex.calls(e, into_refs=False)):
                # an unlock inside a cycle through dst does not count when it lies after dst on the way round
                if bid == dst and j >= dst_idx:
                    continue
                return False
    return True


def _state_graph(prog, f, cfgd, en):
    k = (id(prog), f.key)
    if k not in _sg:
        keys = [fd.Key("field", "state", rec=cfgd["thr_rec"], domain=en.values(), label="tstate"),
                fd.Key("var", "state", domain=en.values(), label="lstate")]
        g = fd.FD(prog, f, keys, cg=common.callgraph(prog))
        g.run([g.top_state()])
        _sg[k] = g
    return _sg[k]


def check_stop_ack(ck, prog, cfgd, rule):
    """threads_stop(wait) returns when every worker's state is the idle state.  A worker may therefore publish the
    idle state only when nothing that the main thread relies on being finished follows: a store `state = IDLE` that is
    followed (before the worker waits again) by accesses to data protected by the coder mutex must not be executed
    when the worker has been told to stop."""
    ck.rule(rule, "a stopped worker reports idle only after its last access to coder-mutex protected data")
    sa_ = cfgd["stop_ack"]
    f = prog.fn(sa_["worker_fn"], cfgd["file"])
    ck.saw_function(f)
    en = prog.enum_with(sa_["idle"], f.file)
    idle_v, stop_v = en[sa_["idle"]], en.get(sa_.get("stop"))
    prot = cfgd["prot"]
    mprot = {fk for fk, v in prot.items() if "M" in (v["w"] if isinstance(v["w"], tuple) else (v["w"],))
             and fk[0] != cfgd["thr_rec"]}
    doms = cfg.dominators(f)
    n = 0
    for b, i, e in (f.iter_elems() if sa_.get("handshake", True) else ()):
        for (l, r, op, node) in ex.writes(e):
            fk = ex.field_key(l)
            if not fk or fk != (cfgd["thr_rec"], "state") or r is None or ex.const_val(r) != idle_v:
                continue
            # accesses to M-protected data after this store, before the worker waits again (path-sensitive in the
            # worker's state variable and its local copy, so that the idle store in the wait loop is seen to lead
            # to the wait and not out of the loop)
            after = None
            g = _state_graph(prog, f, cfgd, en)
            seen = set()
            st = []

            def scan(bid, i0):
                blk = f.blocks[bid]
                for j in range(i0, len(blk.elems)):
                    ee = blk.elems[j]
                    if ee is None:
                        continue
                    if any(c.get("fn") == "mythread_cond_wait" for c in ex.calls(ee, into_refs=False)):
                        return "wait", None
                    for m, w, rmw in lock.accesses(ee):
                        if (m.get("rec"), m["f"]) in mprot:
                            return "hit", (ex.line(m) or ex.line(ee), ex.show(m))
                return None, None
            kind, info = scan(b.id, i + 1)
            if kind == "hit":
                after = info
            elif kind is None:
                for pn in [nd for nd in g.nodes if nd[0] == b.id]:
                    for (dst, label) in g.succ.get(pn, ()):
                        if dst not in seen:
                            seen.add(dst)
                            st.append(dst)
                while st and after is None:
                    pn = st.pop()
                    kind, info = scan(pn[0], 0)
                    if kind == "hit":
                        after = info
                        break
                    if kind == "wait":
                        continue
                    for (dst, label) in g.succ.get(pn, ()):
                        if dst not in seen:
                            seen.add(dst)
                            st.append(dst)
            n += 1
            if after is None:
                ck.ob(rule, "%s:idle@%d" % (f.name, n), True, common.where(f, node),
                      "%s: `%s` is followed by no access to coder-mutex data before the next wait" % (f.name, ex.show(node)),
                      key="STOPACK:%s:%d" % (f.name, n))
                continue
            # guarded by state != STOP ?
            guarded = False
            for d in doms.get(b.id, ()):
                blk = f.blocks[d]
                t = blk.term
                if not t or "cond" not in t or len(blk.succs) != 2:
                    continue
                c = ex.strip(t["cond"])
                if c.get("k") == "bin" and c["op"] in ("!=", "==") and ex.field_key(c["l"]) == (cfgd["thr_rec"], "state") \
                        and ex.const_val(c["r"]) == stop_v:
                    want = blk.succs[0] if c["op"] == "!=" else blk.succs[1]
                    if want is not None and (want == b.id or want in doms.get(b.id, ())):
                        guarded = True
            ck.ob(rule, "%s:idle@%d" % (f.name, n), guarded, common.where(f, node),
                  "%s: `%s` (followed by the access to %s at line %s) is not executed when the state is %s" % (
                      f.name, ex.show(node), after[1], after[0], sa_["stop"]) if guarded else
                  "%s(): the worker stores %s to its state and only afterwards accesses %s (line %s) under the coder "
                  "mutex; when it has been told to stop, threads_stop() may return -- and the main thread may "
                  "re-initialise that data -- before the worker has touched it" % (f.name, sa_["idle"], after[1], after[0]),
                  key="STOPACK:%s:idle-before-publish" % f.name)
    if n == 0 and sa_.get("handshake", True):
        raise AnalysisBroken("%s: no store of %s to the worker state found" % (f.name, sa_["idle"]))
    # the exit request is absorbing: a worker never overwrites it
    exit_v = en[sa_["exit"]]
    for wn in sa_.get("worker_fns", (sa_["worker_fn"],)):
        w = prog.fn(wn, cfgd["file"])
        wd = cfg.dominators(w)
        k = 0
        for b, i, e in w.iter_elems():
            for (l, r, op, node) in ex.writes(e):
                fk = ex.field_key(l)
                if not fk or fk != (cfgd["thr_rec"], "state") or r is None or ex.const_val(r) == exit_v:
                    continue
                k += 1
                guarded = False
                for d in wd.get(b.id, ()):
                    blk = w.blocks[d]
                    t = blk.term
                    if not t or "cond" not in t or len(blk.succs) != 2:
                        continue
                    c = ex.strip(t["cond"])
                    if c.get("k") == "bin" and c["op"] in ("!=", "==") and \
                            ex.field_key(c["l"]) == (cfgd["thr_rec"], "state") and ex.const_val(c["r"]) is not None:
                        v = ex.const_val(c["r"])
                        if c["op"] == "!=" and v == exit_v:
                            want = blk.succs[0]
                        elif c["op"] == "==" and v != exit_v:
                            want = blk.succs[0]
                        elif c["op"] == "==" and v == exit_v:
                            want = blk.succs[1]
                        else:
                            continue
                        if want is not None and (want == b.id or want in wd.get(b.id, ())) and \
                                _same_critical_section(w, want, b.id, i):
                            guarded = True
                ck.ob(rule, "%s:no-overwrite-exit@%d" % (wn, k), guarded, common.where(w, node),
                      "%s: `%s` is executed only when the state is not %s" % (wn, ex.show(node), sa_["exit"]) if guarded
                      else "%s(): `%s` can overwrite a pending %s request from lzma_end()/threads_end(): the worker "
                           "then waits forever and mythread_join() never returns" % (wn, ex.show(node), sa_["exit"]),
                      key="STOPACK:%s:overwrites-exit" % wn)


def check_init_quiesce(ck, prog, cfgd, rule):
    """The init function may store to coder members that worker threads access only after the old workers were
    stopped or ended (or when the coder record was just allocated)."""
    ck.rule(rule, "re-initialisation stores to worker-visible members only after the old workers are quiescent")
    q = cfgd["init_quiesce"]
    f = prog.fn(q["init_fn"], cfgd["file"])
    ck.saw_function(f)
    visible = {}
    for wn in q["worker_fns"]:
        w = prog.fn(wn, cfgd["file"])
        for b, i, e in w.iter_elems():
            for m, wr, rmw in lock.accesses(e):
                if m.get("rec") == cfgd["coder_rec"]:
                    visible.setdefault(m["f"], wn)
    if len(visible) < 3:
        raise AnalysisBroken("%s: worker functions access only %d coder members" % (cfgd["file"], len(visible)))
    n = 0
    seen = set()
    for b, i, e in f.iter_elems():
        for (l, r, op, node) in ex.writes(e):
            for x in ex.walk(l):
                if x.get("k") == "mem" and x.get("rec") == cfgd["coder_rec"] and x["f"] in visible:
                    if x["f"] in seen:
                        continue
                    ok = _all_paths_call(f, b, i, q["calls"]) or _dominated_by_call(f, b, i, "lzma_alloc")
                    if not ok and x["f"] in q.get("except", {}):
                        ck.ob(rule, "%s:%s" % (f.name, x["f"]), True, common.where(f, node),
                              "exception: " + q["except"][x["f"]], key="QUIESCE:%s:%s" % (f.name, x["f"]))
                        seen.add(x["f"])
                        continue
                    if ok:
                        continue
                    seen.add(x["f"])
                    n += 1
                    ck.ob(rule, "%s:%s" % (f.name, x["f"]), False, common.where(f, node),
                          "%s() stores to coder->%s (line %s) on a path where the worker threads of the previous "
                          "session have not been stopped or ended yet, while %s() accesses that member" % (
                              f.name, x["f"], ex.line(node), visible[x["f"]]),
                          key="QUIESCE:%s:%s" % (f.name, x["f"]))
    for fld in sorted(visible):
        if fld not in seen:
            ck.ob(rule, "%s:%s" % (f.name, fld), True, common.where(f),
                  "%s: every store to coder->%s (used by %s) follows %s or the allocation of the coder" % (
                      f.name, fld, visible[fld], "/".join(q["calls"])), key="QUIESCE:%s:%s" % (f.name, fld))


def check_waitpred(ck, prog, cfgd, rule):
    """Every field whose writers signal condition C (the `waited` table) is tested by the predicate of at
    least one wait on C: a wake-up for a change that no waiter's predicate looks at sends the waiter back
    to sleep."""
    mentioned = {}
    sites = {}
    outq_fns = set(cfgd.get("requires", ())) | {"lzma_outq_has_buf", "lzma_outq_is_readable", "lzma_outq_is_empty"}
    for f in prog.fns_in(cfgd["file"]):
        for (b, i, c) in lock.wait_sites(f):
            cr = cond_role(cfgd, c["args"][0])
            if cr is None:
                continue
            dom = cfg.dominators(f)
            cyc = cfg.reachable(f, cfg.succs(f, b.id))
            blocks = set()
            for d, blk in f.blocks.items():
                if not blk.term or "cond" not in blk.term:
                    continue
                if (d in cyc and b.id in cfg.reachable(f, [d])) or d in dom.get(b.id, ()):
                    blocks.add(d)
            got = mentioned.setdefault(cr, set())
            sites.setdefault(cr, []).append(common.where(f, c))
            # locals that hold a snapshot of a field (in_filled = thr->in_filled) stand for it
            snap = {}
            for bb, ii, ee in f.iter_elems():
                for (l, r, op, node) in ex.writes(ee):
                    ls, rs = ex.strip(l), ex.strip(r)
                    if ls is not None and ls.get("k") == "var" and rs is not None and rs.get("k") == "mem":
                        snap.setdefault(ls["n"], set()).add((rs.get("rec"), rs["f"]))
            for d in blocks:
                cnd = f.blocks[d].term["cond"]
                for x in ex.walk(cnd):
                    if x.get("k") == "mem":
                        got.add((x.get("rec"), x["f"]))
                    if x.get("k") == "call" and x.get("fn") in outq_fns:
                        got.add(("call", "outq"))
                    if x.get("k") == "var":
                        got.update(snap.get(x["n"], ()))
    n = 0
    for (rec, fld), cr in sorted(cfgd["waited"].items()):
        if cr not in mentioned:
            continue
        n += 1
        got = mentioned[cr]
        ok = (rec, fld) in got or (rec == cfgd.get("outbuf_rec", "lzma_outbuf_s") and ("call", "outq") in got)
        ck.ob(rule, "waitpred:%s.%s" % (rec.split("@")[0], fld), ok, sites[cr][0],
              "writers of %s.%s signal condition %s; %s" % (
                  rec.split("@")[0], fld, cr,
                  "a wait on it tests the field" if ok else
                  "no wait on that condition tests the field in its predicate: the woken thread goes back to sleep "
                  "and the change (e.g. a worker's error) is not acted upon"),
              key="WAITPRED:%s:%s" % (cr, fld))
    return n
