"""C09 — memory limits are honoured and memory estimates are upper bounds (structural clauses).

C09-GUARD   the memlimit comparison precedes, on every path of the product graph, every call that
            allocates for the new Block / Index / member; LZMA_MEMLIMIT_ERROR is returned only in the
            state that begins with the test (so lzma_memlimit_set + lzma_code retries).
C09-CFG     every memconfig function reports usage and old limit on all paths, refuses a new limit
            below the usage before storing it, and never stores zero; inits store max(1, memlimit);
            lzma_memlimit_set maps 0 to 1.
C09-TAB     filter tables: LZ-based filters have memusage functions, the rest are in the <= 1 KiB
            class; lzma_raw_coder_memusage adds LZMA_MEMUSAGE_BASE and propagates UINT64_MAX.
C09-XZ      xz: coder_set_compression_settings returns only with usage <= limit, or through the
            documented soft-limit escape, or calls memlimit_too_small() (noreturn).
"""
from sa import ex, cfg, fd, guard, resume
from sa.compdb import AnalysisBroken
from . import common
from .oblig import MP, Present, evaluate, graph_for, PlainGraph

MEMLIMIT = ("LZMA_MEMLIMIT_ERROR",)

TABLE = [
    MP("stream:block-init", "stream_decode", "stream_decoder.c",
       [("rel", "var:memusage", "field:memlimit", (">",), "F")], ("call", "lzma_block_decoder_init"),
       src=("SEQ_BLOCK_INIT", "SEQ_BLOCK_HEADER"), init_seq=("SEQ_STREAM_HEADER",),
       why="Block decoder (filter chain allocation) initialised only after memusage <= memlimit"),
    MP("alone:init", "alone_decode", "alone_decoder.c",
       [("rel", "field:memusage", "field:memlimit", (">",), "F")], ("call", "lzma_next_filter_init"),
       src=("SEQ_PROPERTIES",), init_seq=("SEQ_PROPERTIES",),
       why=".lzma: LZMA decoder allocated only after memusage <= memlimit"),
    MP("lzip:init", "lzip_decode", "lzip_decoder.c",
       [("rel", "field:memusage", "field:memlimit", (">",), "F")], ("call", "lzma_next_filter_init"),
       src=("SEQ_ID_STRING",), init_seq=("SEQ_ID_STRING",),
       why=".lz: LZMA decoder allocated only after memusage <= memlimit"),
    MP("index:prealloc", "index_decode", "index_decoder.c",
       [("rel", "call:lzma_index_memusage", "field:memlimit", (">",), "F")], ("call", "lzma_index_prealloc"),
       src=("SEQ_INDICATOR",), init_seq=("SEQ_INDICATOR",),
       why="Index: Records are allocated only after lzma_index_memusage(count) <= memlimit"),
    MP("index:append", "index_decode", "index_decoder.c",
       [("rel", "call:lzma_index_memusage", "field:memlimit", (">",), "F")], ("call", "lzma_index_append"),
       src=("SEQ_INDICATOR",), init_seq=("SEQ_INDICATOR",),
       why="Index: Records are appended only after the memory usage test"),
    MP("mt:stop-direct", "stream_decode_mt", "stream_decoder_mt.c",
       [("rel", "field:mem_next_filters", "field:memlimit_stop", (">",), "F")],
       ("call", "lzma_block_decoder_init"), src=("SEQ_BLOCK_INIT", "SEQ_BLOCK_HEADER"),
       init_seq=("SEQ_STREAM_HEADER",),
       why="threaded decoder, direct mode: filters allocated only after mem_next_filters <= memlimit_stop"),
    MP("mt:stop-thread", "stream_decode_mt", "stream_decoder_mt.c",
       [("rel", "field:mem_next_filters", "field:memlimit_stop", (">",), "F")],
       ("call", "get_thread"), src=("SEQ_BLOCK_INIT", "SEQ_BLOCK_HEADER"), init_seq=("SEQ_STREAM_HEADER",),
       why="threaded decoder: a worker is prepared only after mem_next_filters <= memlimit_stop"),
    MP("mt:threading", "stream_decode_mt", "stream_decoder_mt.c",
       [("rel", "field:mem_next_block", "field:memlimit_threading", (">",), "F")],
       ("seq", "SEQ_BLOCK_THR_INIT"), src=("SEQ_BLOCK_INIT",), init_seq=("SEQ_STREAM_HEADER",),
       why="threaded mode is chosen only when the Block fits in memlimit_threading"),
]

TABLE += [
    MP("stream:memusage-reported", "stream_decode", "stream_decoder.c", [], ("ret", MEMLIMIT),
       src=("SEQ_BLOCK_INIT", "SEQ_BLOCK_HEADER"), init_seq=("SEQ_STREAM_HEADER",), min_guards=0,
       cut_writes=("field:memusage",),
       why="LZMA_MEMLIMIT_ERROR is returned only after coder->memusage was set to what the Block needs (lzma_memusage() "
           "and lzma_memlimit_get/set report it so that the application can raise the limit to exactly that)"),
]

# (function, file, init state, states in which MEMLIMIT_ERROR may be returned)
RESTART = [
    ("stream_decode", "stream_decoder.c", "SEQ_STREAM_HEADER", {"SEQ_BLOCK_INIT"}),
    ("alone_decode", "alone_decoder.c", "SEQ_PROPERTIES", {"SEQ_CODER_INIT"}),
    ("lzip_decode", "lzip_decoder.c", "SEQ_ID_STRING", {"SEQ_CODER_INIT"}),
    ("index_decode", "index_decoder.c", "SEQ_INDICATOR", {"SEQ_MEMUSAGE"}),
    ("stream_decode_mt", "stream_decoder_mt.c", "SEQ_STREAM_HEADER", {"SEQ_BLOCK_INIT"}),
]


def check_restart(ck, prog):
    for fn, file, init, allowed in RESTART:
        f = prog.fn(fn, file)
        ck.saw_function(f)
        m = graph_for(prog, f, (), {}, (init,), False)
        g = m.g
        V = m.rets["LZMA_MEMLIMIT_ERROR"]
        seen = set()
        for node in g.nodes:
            if node[0] != f.exit:
                continue
            rv = g.get(node[1], "$ret")
            if rv is not None and V in rv:
                for v in (g.get(node[1], "seq") or ()):
                    seen.add(m.names.get(v, str(v)))
        ok = bool(seen) and seen <= allowed
        ck.ob("C09-GUARD", "restart:" + fn, ok, common.where(f),
              "LZMA_MEMLIMIT_ERROR returned in state(s) %s (restartable state: %s)" % (
                  sorted(seen), sorted(allowed)) if ok else
              "LZMA_MEMLIMIT_ERROR can be returned in state(s) %s: after lzma_memlimit_set() the next lzma_code() "
              "would not re-run the test/allocation (expected only %s)" % (sorted(seen), sorted(allowed)),
              key="GUARD:restart:" + fn)
        # the restart state begins with the test: the case block of that state reaches the
        # comparison before consuming input
        for st in allowed:
            pass


MEMCONFIG = [
    ("stream_decoder_memconfig", "stream_decoder.c", "field:memusage"),
    ("alone_decoder_memconfig", "alone_decoder.c", "field:memusage"),
    ("lzip_decoder_memconfig", "lzip_decoder.c", "field:memusage"),
    ("index_decoder_memconfig", "index_decoder.c", "deref:memusage"),
    ("stream_decoder_mt_memconfig", "stream_decoder_mt.c", "deref:memusage"),
    ("auto_decoder_memconfig", "auto_decoder.c", "deref:memusage"),
    ("file_info_decoder_memconfig", "file_info.c", None),
]


def check_cfg(ck, prog):
    ck.rule("C09-CFG", "memconfig functions: outputs written on every path; new limit refused below usage "
            "before it is stored; zero never stored; inits store max(1, memlimit)")
    cg = common.callgraph(prog)
    rs = common.retsets(prog)
    for fname, file, usage in MEMCONFIG:
        f = prog.fn(fname, file, required=False)
        if f is None:
            raise AnalysisBroken("memconfig function %s vanished" % fname)
        ck.saw_function(f)
        # outputs written on every path to a return of OK / MEMLIMIT_ERROR (product graph:
        # mythread_sync regions are exact, error returns before the outputs are exempt)
        pg0 = PlainGraph(prog, f, cg, rs)
        okvals = {pg0.rets["LZMA_OK"], pg0.rets["LZMA_MEMLIMIT_ERROR"]}
        for outp in ("memusage", "old_memlimit"):
            vb = set()
            for bb, ii, ee in f.iter_elems():
                hit = False
                for (l, r, op, node) in ex.writes(ee):
                    ls = ex.strip(l)
                    if ls is not None and ls.get("k") == "un" and ls["op"] == "*" and ex.reads_var(ls["e"], outp):
                        hit = True
                for c in ex.calls(ee, into_refs=False):
                    if not c.get("fn") and any(ex.strip(a) is not None and ex.strip(a).get("k") == "var"
                                               and ex.strip(a)["n"] == outp for a in c["args"]):
                        hit = True
                if hit:
                    vb.add(bb.id)

            def dstp(node, pg0=pg0):
                if node[0] != f.exit:
                    return None
                rv = pg0.g.get(node[1], "$ret")
                return "return" if rv is None or (set(rv) & okvals) else None
            path, hit = guard.cut_reach(pg0.g, pg0.entry_nodes(), set(), dstp, cut_blocks=vb)
            ok = path is None and bool(vb)
            ck.ob("C09-CFG", "%s:*%s" % (fname, outp), ok, common.where(f),
                  "*%s is written on every path of %s that returns OK/MEMLIMIT_ERROR" % (outp, fname) if ok else
                  "%s can return success without writing *%s (lzma_memusage()/lzma_memlimit_get() would read garbage)" % (
                      fname, outp), key="CFG:%s:%s" % (fname, outp))
        # the store of the new limit
        stores = []
        for b, i, e in f.iter_elems():
            for (l, r, op, node) in ex.writes(e):
                fk = ex.field_key(l)
                if fk and fk[1].startswith("memlimit") and r is not None and ex.reads_var(r, "new_memlimit"):
                    stores.append((b, i, node))
        if fname == "file_info_decoder_memconfig":
            pass
        if not stores:
            ck.ob("C09-CFG", "%s:store" % fname, False, common.where(f),
                  "%s never stores the new limit" % fname, key="CFG:%s:store" % fname)
            continue
        pg = PlainGraph(prog, f, cg, rs)
        # non-zero guard and usage guard cut every path to the store
        for label, specs in (("nonzero", [("rel", "var:new_memlimit", "const:0", ("!=",), "T"),
                                          ("test", "var:new_memlimit&const:0", "T", ("!=",))]),
                             ("not-below-usage", [("rel", "var:new_memlimit", "any", ("<",), "F"),
                                                  ("test", "var:ret&enum:LZMA_OK", "T", ("==",))])):
            cut = set()
            for spec in specs:
                for x in (guard.find_cmp(f, spec[1], spec[2], ops=spec[3], rel_pass=spec[4])
                          if spec[0] == "rel" else guard.find_test(f, spec[1], spec[2], ops=spec[3])):
                    cut.add((x.bid, x.pass_label))
            sb = {b.id for (b, i, n) in stores}
            path, hit = guard.cut_reach(pg.g, pg.entry_nodes(), cut,
                                        lambda n: "store" if n[0] in sb else None)
            ck.ob("C09-CFG", "%s:%s" % (fname, label), path is None and bool(cut), common.where(f, stores[0][2]),
                  "the new limit is stored only after the `%s` test" % label if path is None and cut else
                  "%s can store a new limit without the `%s` test" % (fname, label),
                  key="CFG:%s:%s" % (fname, label))
    # lzma_memlimit_set: 0 -> 1
    f = prog.fn("lzma_memlimit_set", "/common.c")
    ck.saw_function(f)
    ok = False
    for b, i, e in f.iter_elems():
        for (l, r, op, node) in ex.writes(e):
            if ex.show(l) == "new_memlimit" and ex.is_const(r, 1):
                for p in b.preds:
                    t = f.blocks[p].term
                    if t and "cond" in t and ex.show(t["cond"]) == "new_memlimit == 0" and f.blocks[p].succs[0] == b.id:
                        ok = True
    ck.ob("C09-CFG", "lzma_memlimit_set:zero", ok, common.where(f),
          "lzma_memlimit_set maps 0 to 1" if ok else "lzma_memlimit_set no longer maps 0 to 1",
          key="CFG:memlimit_set:zero")
    # inits store max(1, memlimit)
    n = 0
    for f in prog.all_functions("liblzma"):
        if not any(p["n"] == "memlimit" for p in f.params):
            continue
        for b, i, e in f.iter_elems():
            for (l, r, op, node) in ex.writes(e):
                fk = ex.field_key(l)
                if fk and fk[1] == "memlimit" and r is not None and ex.reads_var(r, "memlimit"):
                    rs_ = ex.strip(r)
                    good = rs_.get("k") == "cond" and ex.is_const(rs_["t"], 1) and \
                        ex.show(rs_["f"]) == "memlimit" and ex.show(rs_["c"]) in ("1 > memlimit", "memlimit < 1")
                    n += 1
                    ck.saw_function(f)
                    ck.ob("C09-CFG", "init:" + f.name, good, common.where(f, node),
                          "%s stores %s" % (f.name, ex.show(r)), key="CFG:init:" + f.name)
    if n < 4:
        raise AnalysisBroken("C09-CFG: only %d init stores of memlimit found" % n)
    ck.floor("C09-CFG", 25)


LZ_IDS = ("LZMA_FILTER_LZMA1", "LZMA_FILTER_LZMA1EXT", "LZMA_FILTER_LZMA2", "LZMA_FILTER_DELTA")


def check_tab(ck, prog):
    ck.rule("C09-TAB", "filter tables: memusage function present exactly for the filters that allocate "
            "(LZMA1, LZMA1EXT, LZMA2, delta); raw memusage adds the base and propagates UINT64_MAX")
    ids = {}
    for file, tab in (("filter_decoder.c", "decoders"), ("filter_encoder.c", "encoders")):
        g = prog.glob(tab, file)
        rows = ex.strip(g["init"])["e"]
        for row in rows:
            row = ex.strip(row)
            fields = row.get("fields") or []
            vals = dict(zip(fields, row["e"]))
            idv = ex.const_val(vals.get("id"))
            mu = ex.strip(vals.get("memusage"))
            has = mu is not None and not ex.is_const(mu, 0) and mu.get("k") != "zero"
            ids.setdefault(idv, {})[tab] = has
    # ids of the LZ/delta filters from the public enum-like macros are folded constants:
    LZMA1, LZMA1EXT, LZMA2, DELTA = 0x4000000000000001, 0x4000000000000002, 0x21, 0x03
    need = {LZMA1, LZMA1EXT, LZMA2, DELTA}
    for idv, d in sorted(ids.items()):
        for tab, has in sorted(d.items()):
            want = idv in need
            ck.ob("C09-TAB", "%s:%#x" % (tab, idv), has == want, "filter tables",
                  "%s[%#x] memusage function %s" % (tab, idv, "present" if has else "absent (<= 1 KiB class)") +
                  ("" if has == want else " — expected %s" % ("present" if want else "absent")),
                  key="TAB:%s:%#x" % (tab, idv))
    f = prog.fn("lzma_raw_coder_memusage", "filter_common.c")
    ck.saw_function(f)
    rets = [ex.show(e.get("e")) for b, i, e in cfg.returns(f)]
    ok = any("total + " in r for r in rets) and rets.count("18446744073709551615") >= 3
    base_ok = any(ex.strip(e.get("e")).get("k") == "bin" and ex.const_val(ex.strip(e["e"])["r"]) == 32768
                  for b, i, e in cfg.returns(f) if ex.strip(e.get("e")) is not None)
    ck.ob("C09-TAB", "raw_memusage", ok and base_ok, common.where(f),
          "lzma_raw_coder_memusage returns %s" % rets, key="TAB:raw_memusage")
    small = False
    for b, i, e in f.iter_elems():
        for (l, r, op, node) in ex.writes(e):
            if ex.show(l) == "total" and op == "+=" and ex.const_val(r) == 1024:
                small = True
    ck.ob("C09-TAB", "raw_memusage:1KiB", small, common.where(f),
          "filters without a memusage function are counted as 1 KiB", key="TAB:raw_memusage:1k")
    ck.floor("C09-TAB", 20)


XZ_TABLE = [
    MP("settings-return", "coder_set_compression_settings", "coder.c",
       [("rel", "any", "var:memory_limit", ("<=",), "T")], ("exit",), plain=True, target="xz",
       keys=(fd.Key("var", "i", domain=range(16), label="i"),),
       bypass=[("test", "call:hardware_memlimit_mtenc_is_default", "T"),
               ("test", "var:chains_used_mask", "F")],
       cut_calls=("memlimit_too_small", "message_bug", "message_fatal"), min_guards=3,
       why="xz returns from coder_set_compression_settings only with usage <= limit established "
           "(or the documented soft-limit escape / unused chain)"),
]


def check_xz(ck, prog_xz):
    ck.rule("C09-XZ", "xz coder_set_compression_settings: every normal return after the memory usage was "
            "computed happens with usage <= limit established, or through the documented soft-limit escape")
    evaluate(ck, prog_xz, "C09-XZ", XZ_TABLE)
    g = prog_xz.fn("memlimit_too_small", "coder.c", target="xz")
    ck.saw_function(g)
    noret = not cfg.returns(g) and any(
        c.get("fn") in ("message_fatal", "tuklib_exit", "exit")
        for b, i, e in g.iter_elems() for c in ex.calls(e, into_refs=False))
    ck.ob("C09-XZ", "too-small-noreturn", noret, common.where(g),
          "memlimit_too_small() ends in message_fatal() and has no return statement", key="XZ:noreturn")
    # which of the two user limits applies: the compression limit only when compressing; --decompress, --test and
    # --list all decode and obey --memlimit-decompress
    h = prog_xz.fn("hardware_memlimit_get", "hardware.c", target="xz")
    ck.saw_function(h)
    en = prog_xz.enum_with("MODE_COMPRESS", h.file)
    sel = None
    for b, i, e in h.iter_elems():
        d = ex.deref(e)
        cand = d.get("init") if d.get("k") == "decl" else (d.get("e") if d.get("k") == "ret" else None)
        for (l, r, op, node) in ex.writes(e):
            cand = cand or r
        c0 = ex.strip(cand) if cand is not None else None
        if c0 is not None and c0.get("k") == "cond" and "memlimit_" in ex.show(c0):
            sel = (c0, e)
    if sel is None or not en:
        raise AnalysisBroken("hardware_memlimit_get: the selection between memlimit_compress and memlimit_decompress was not found")
    gq = fd.FD(prog_xz, h, [fd.Key("var", "mode", domain=en.values(), label="mode")])
    wrong = []
    for nm, mv in sorted(en.items(), key=lambda kv: kv[1]):
        v = gq.aeval(sel[0]["c"], gq.make_state(mode=[mv]))
        if v is None or len(v) != 1:
            raise AnalysisBroken("hardware_memlimit_get: cannot evaluate `%s` for mode %s" % (ex.show(sel[0]["c"]), nm))
        arm = ex.show(ex.strip(sel[0]["t"] if list(v)[0] else sel[0]["f"]))
        want = "memlimit_compress" if nm == "MODE_COMPRESS" else "memlimit_decompress"
        if arm != want:
            wrong.append((nm, arm, want))
    ck.ob("C09-XZ", "limit-by-mode", not wrong, common.where(h, sel[1]),
          "hardware_memlimit_get: MODE_COMPRESS -> memlimit_compress, every other mode -> memlimit_decompress" if not wrong else
          "hardware_memlimit_get(): for %s the limit used is %s instead of %s: --memlimit-decompress is ignored in that mode "
          "(e.g. xz --list / --test run without the user's limit)" % wrong[0], key="XZ:limit-by-mode")


# (id, function, file, selector: the expression/condition that mentions all of `select`, required members, why)
TERMS = [
    ("mt:admission", "read_output_and_wait", "stream_decoder_mt.c", "cond", ("memlimit_threading", "mem_next_block"),
     [("lzma_stream_coder@stream_decoder_mt.c", "mem_in_use"), ("lzma_outq", "mem_in_use")],
     "a new Block may start only if memlimit_threading minus the memory of the running workers AND of the output "
     "buffers in use still covers mem_next_block"),
    ("mt:trim-outq-cache", "stream_decode_mt", "stream_decoder_mt.c", "cond", ("mem_max", "!thr"),
     [("lzma_outq", "mem_allocated")],
     "the cache of output buffers is trimmed when in-use + cached + all allocated output buffers exceed the head-room"),
    ("mt:trim-thread-cache", "stream_decode_mt", "stream_decoder_mt.c", "cond", ("mem_max", "thr"),
     [("lzma_outq", "mem_in_use")],
     "cached Block decoders are freed when in-use + cached + output buffers in use exceed the head-room"),
    ("mt:memusage-report", "stream_decoder_mt_memconfig", "stream_decoder_mt.c", "store:memusage", ("mem_in_use",),
     [("lzma_stream_coder@stream_decoder_mt.c", "mem_direct_mode"), ("lzma_stream_coder@stream_decoder_mt.c", "mem_in_use"),
      ("lzma_stream_coder@stream_decoder_mt.c", "mem_cached"), ("lzma_outq", "mem_allocated")],
     "the reported usage is the sum of all four accounting counters"),
    ("file-info:index-limit", "file_info_decode", "file_info.c", "callarg:lzma_index_decoder_init:3", (),
     [("lzma_file_info_coder@file_info.c", "memlimit")],
     "each Stream's Index decoder gets only what the Indexes decoded so far have left of the limit"),
]


def check_terms(ck, prog, prog_xz):
    ck.rule("C09-TERMS", "memory comparisons and reports contain every accounting counter they are documented to contain")
    for (oid, fn, file, sel, select, required, why) in TERMS:
        f = prog.fn(fn, file)
        ck.saw_function(f)
        exprs = []
        if sel == "cond":
            # the whole condition of the if statement: collect the chain of branch blocks on the same line range
            for b in f.blocks.values():
                if b.term and "cond" in b.term:
                    c = b.term.get("whole") or b.term["cond"]
                    exprs.append(c)
            # conditions are split at && / ||: group the pieces that belong to one statement (same `ln` of the term)
            groups = {}
            for b in f.blocks.values():
                if b.term and "cond" in b.term:
                    groups.setdefault(b.term.get("ln"), []).append(b.term["cond"])
            exprs = list(groups.values())
        elif sel.startswith("store:"):
            name = sel.split(":", 1)[1]
            for b, i, e in f.iter_elems():
                for (l, r, op, node) in ex.writes(e):
                    if name in ex.show(l) and r is not None and op == "=" and any(x.get("k") == "mem" for x in ex.walk(r)):
                        exprs.append([r])
        elif sel.startswith("callarg:"):
            _, cn, ai = sel.split(":")
            for b, i, e in f.iter_elems():
                for c in ex.calls(e, into_refs=False):
                    if c.get("fn") == cn and len(c["args"]) > int(ai):
                        exprs.append([c["args"][int(ai)]])

        def mentions(group, name):
            for g_ in group:
                for x in guard_nodes(f, g_):
                    if (x.get("k") == "mem" and x["f"] == name) or (x.get("k") == "var" and x["n"] == name):
                        return True
            return False

        def has_member(group, rec, fld):
            for g_ in group:
                for x in guard_nodes(f, g_):
                    if x.get("k") == "mem" and x["f"] == fld and (x.get("rec") == rec or rec is None):
                        return True
            return False
        cands = [g_ for g_ in exprs if all((not mentions(g_, s_[1:])) if s_.startswith("!") else mentions(g_, s_)
                                           for s_ in select)]
        if sel.startswith("callarg:") and oid == "file-info:index-limit":
            # the argument must be a difference: memlimit - (memory already used by the combined Index)
            ok = bool(cands) and all(
                any(x.get("k") == "bin" and x["op"] == "-" for g_ in grp for x in ex.walk(g_)) and
                has_member(grp, required[0][0], required[0][1]) and mentions(grp, "memused") for grp in cands)
            ck.ob("C09-TERMS", oid, ok, common.where(f), "%s: %s (%s)" % (
                fn, why, " ; ".join(ex.show(g_) for grp in cands for g_ in grp)) if ok else
                "%s(): lzma_index_decoder_init() is given `%s` as its memory limit: %s" % (
                    fn, " ; ".join(ex.show(g_) for grp in cands for g_ in grp), why), key="TERMS:" + oid)
            continue
        if not cands:
            raise AnalysisBroken("%s: expression for %s not found" % (fn, oid))
        missing = [(r_, fl) for grp in cands for (r_, fl) in required if not has_member(grp, r_, fl)]
        ck.ob("C09-TERMS", oid, not missing, common.where(f, cands[0][0]),
              "%s: %s" % (fn, why) if not missing else
              "%s(): the expression `%s` lacks %s: %s" % (
                  fn, " && ".join(ex.show(g_) for g_ in cands[0]), ", ".join("%s.%s" % m_ for m_ in missing), why),
              key="TERMS:" + oid)
    # xz: the single-threaded fallback must really select the single-threaded encoder: wherever the memory usage
    # is re-estimated for the single-threaded encoder (mt argument NULL) although threading is on
    # (hardware_threads_is_mt() was true on the way), hardware_threads_set(1) must have been called first
    g = prog_xz.fn("coder_set_compression_settings", "coder.c", target="xz")
    doms = cfg.dominators(g)
    mt_true = {}
    for b_ in g.blocks.values():
        if b_.term and "cond" in b_.term and len(b_.succs) == 2 and \
                any(c.get("fn") == "hardware_threads_is_mt" for c in ex.calls(b_.term["cond"])):
            neg = ex.show(b_.term["cond"]).startswith("!")
            mt_true[b_.id] = b_.succs[1] if neg else b_.succs[0]
    sites = 0
    bad = None
    for b_, i, e in g.iter_elems():
        for c in ex.calls(e, into_refs=False):
            if c.get("fn") != "get_chains_memusage" or len(c["args"]) < 3:
                continue
            if not ex.is_const(c["args"][1], 0):
                continue
            in_mt = any(t_ is not None and (t_ == b_.id or t_ in doms.get(b_.id, ())) for t_ in mt_true.values())
            if not in_mt:
                continue
            sites += 1

            def via(bb, ii, ee):
                if bb.id == b_.id and ii >= i:
                    return False
                return any(x.get("fn") == "hardware_threads_set" and x["args"] and ex.const_val(x["args"][0]) == 1
                           for x in ex.calls(ee, into_refs=False))
            ok = any(via(b_, j, b_.elems[j]) for j in range(0, i) if b_.elems[j] is not None)
            if not ok:
                srcs = [t_ for t_ in mt_true.values() if t_ is not None and (t_ == b_.id or t_ in doms.get(b_.id, ()))]
                ok, _p = cfg.must_pass(g, srcs, [b_.id], via)
            if not ok:
                bad = ex.line(c)
    init = prog_xz.fn("coder_init", "coder.c", target="xz", required=False)
    uses = init is not None and any(c.get("fn") == "hardware_threads_is_mt" for b_, i, e in init.iter_elems()
                                    for c in ex.calls(e))
    if sites == 0:
        raise AnalysisBroken("xz coder.c: single-threaded re-estimation under threading not found")
    ck.ob("C09-TERMS", "xz:single-thread-fallback", bad is None and uses, common.where(g),
          "xz: every single-threaded re-estimation of the memory usage made while threading is on (%d site(s)) follows "
          "hardware_threads_set(1), which is what coder_init() consults when it chooses the encoder" % sites
          if bad is None and uses else
          "xz: coder_set_compression_settings() re-estimates the memory usage for the single-threaded encoder at line %s "
          "without hardware_threads_set(1): coder_init() still creates the threaded encoder, which needs more memory "
          "than the usage that was compared with the limit" % bad, key="TERMS:xz:single-thread-fallback")
    # the limit that the estimated usage is compared with is the one of the operation being set up: this function
    # also prepares raw-format DEcompression (the only memory check that mode gets), so the limit is selected by opt_mode
    lims = []
    for b_, i, e in g.iter_elems():
        e_ = ex.deref(e)
        if e_.get("k") == "decl" and e_.get("n") == "memory_limit" and e_.get("init") is not None:
            for c in ex.calls(e_["init"]):
                if c.get("fn") == "hardware_memlimit_get":
                    lims.append(c)
    if not lims:
        raise AnalysisBroken("xz coder.c: `memory_limit = hardware_memlimit_get(...)` not found")
    okm = all(ex.show(c["args"][0]) == "opt_mode" for c in lims)
    ck.ob("C09-TERMS", "xz:limit-of-current-mode", okm, common.where(g, lims[0]),
          "xz: coder_set_compression_settings() compares the usage with hardware_memlimit_get(opt_mode)" if okm else
          "xz: coder_set_compression_settings() takes the limit from hardware_memlimit_get(%s) instead of the current "
          "operation mode: --format=raw decompression (whose only memory check is here) is compared with the "
          "compression limit, so --memlimit-decompress is ignored" % ex.show(lims[0]["args"][0]),
          key="TERMS:xz:limit-of-current-mode")
    # direct (single-threaded) mode is entered because the Block alone needs most of the limit: everything the threaded
    # mode holds is released first -- all cached output buffers (not the keep-one variant) and the worker threads
    from .mtcommon import _all_paths_call
    f = prog.fn("stream_decode_mt", "stream_decoder_mt.c")
    site = None
    for b_, i, e in f.iter_elems():
        for c in ex.calls(e, into_refs=False):
            if c.get("fn") == "lzma_block_decoder_init" and c["args"] and ex.show(c["args"][0]) == "&coder->block_decoder":
                site = (b_, i, c)
    if site is None:
        raise AnalysisBroken("stream_decode_mt: direct-mode lzma_block_decoder_init() not found")
    for callee, what in (("lzma_outq_clear_cache", "every cached output buffer is freed (lzma_outq_clear_cache, not the keep-one "
                                                   "variant lzma_outq_clear_cache2)"),
                         ("threads_end", "the worker threads and their filter chains are freed")):
        ok = _all_paths_call(f, site[0], site[1], (callee,))
        ck.ob("C09-TERMS", "mt:direct-mode:" + callee, ok, common.where(f, site[2]),
              "stream_decode_mt: before direct mode allocates its filter chain, %s" % what if ok else
              "stream_decode_mt(): the direct-mode Block decoder is initialised at line %s without %s() on every path before "
              "it: memory held by the threaded mode stays allocated on top of a Block that alone needs most of the limit" % (
                  ex.line(site[2]), callee), key="TERMS:mt:direct-mode:" + callee)
    # lzma_memusage() of an LZ-based decoder reports the dictionary size of the *current* options: the dictionary buffer
    # must therefore be reallocated whenever the needed size differs (also when it shrinks)
    g = prog.fn("lzma_lz_decoder_init", "lz_decoder.c")
    ck.saw_function(g)
    conds = [ex.strip(b_.term["cond"]) for b_ in g.blocks.values() if b_.term and "cond" in b_.term and
             "dict.size" in ex.show(b_.term["cond"]) and "alloc_size" in ex.show(b_.term["cond"])]
    ok = len(conds) == 1 and conds[0].get("k") == "bin" and conds[0]["op"] == "!="
    ck.ob("C09-TERMS", "lz:realloc-when-different", ok, common.where(g, conds[0]) if conds else common.where(g),
          "lzma_lz_decoder_init: the dictionary is reallocated when coder->dict.size != alloc_size" if ok else
          "lzma_lz_decoder_init(): the dictionary buffer is kept when `%s` is false: a re-used decoder keeps a larger "
          "buffer than the memory usage it reports (and than the memory limit that was checked)" % (
              ex.show(conds[0]) if conds else "?"), key="TERMS:lz:realloc-when-different")
    ck.floor("C09-TERMS", 9)


def guard_nodes(f, n):
    """Nodes of an expression with single-definition locals expanded (depth 2)."""
    seen = set()

    def rec(x, depth):
        for y in ex.walk(x):
            yield y
            if y.get("k") == "var" and y.get("s") == "l" and depth < 2:
                d = guard.single_def(f, y.get("id"))
                if d is not None and id(d) not in seen:
                    seen.add(id(d))
                    yield from rec(d, depth + 1)
    yield from rec(n, 0)


def check_clamp(ck, prog):
    """An init function that establishes an order between two members with the clamp idiom
    `if (coder->A > coder->B) coder->A = coder->B;` states the invariant A <= B (memlimit_threading <= memlimit_stop:
    "if memlimit_threading is greater than memlimit_stop, memlimit_stop is used for both").  Every other store to B or A
    has to re-establish it: on every path from the store to the function's return the two members are compared again
    (or the other one is stored).  Otherwise lzma_memlimit_set() can lower the hard limit below the soft limit that the
    admission tests use, and the decoder allocates several times the hard limit without LZMA_MEMLIMIT_ERROR."""
    ck.rule("C09-CLAMP", "an order between two limit members established by a clamp in the init function is re-established "
                         "wherever one of them is stored again")
    n = 0
    for f in sorted(prog.all_functions("liblzma"), key=lambda f: (f.file, f.line)):
        if not f.blocks:
            continue
        for b in f.blocks.values():
            if not (b.term and "cond" in b.term and len(b.succs) == 2):
                continue
            c = ex.strip(b.term["cond"])
            if c.get("k") != "bin" or c["op"] not in (">", "<", ">=", "<="):
                continue
            l, r = ex.strip(c["l"]), ex.strip(c["r"])
            if l is None or r is None or l.get("k") != "mem" or r.get("k") != "mem":
                continue
            tb = f.blocks.get(b.succs[0])
            clamp = None
            for e in (tb.elems if tb else ()):
                if e is None:
                    continue
                for (ll, rr, op, nd) in ex.writes(e):
                    if op == "=" and rr is not None and ((ex.same(ll, l) and ex.same(rr, r)) or (ex.same(ll, r) and ex.same(rr, l))):
                        clamp = nd
            if clamp is None:
                continue
            A, Bm = ex.field_key(l), ex.field_key(r)
            base = f.file.rsplit("/", 1)[-1]
            for g in prog.fns_in(base):
                if g is f or not g.blocks:
                    continue
                gdom = cfg.dominators(g)
                for bb, ii, ee in g.iter_elems():
                    for (ll, rr, op, nd) in ex.writes(ee):
                        fk = ex.field_key(ll)
                        if fk not in (A, Bm):
                            continue
                        other = Bm if fk == A else A
                        # a store that is itself the clamp (`A = B` behind a comparison of A and B) establishes the order
                        if rr is not None and ex.field_key(rr) == other and any(
                                g.blocks[d].term and "cond" in g.blocks[d].term and
                                {A, Bm} <= {ex.field_key(x) for x in ex.walk(g.blocks[d].term["cond"]) if x.get("k") == "mem"}
                                for d in gdom.get(bb.id, ()) if d != bb.id):
                            continue
                        n += 1
                        ck.saw_function(g)

                        def via(b2, i2, e2, bb=bb, ii=ii):
                            if b2.id == bb.id and i2 <= ii:
                                return False
                            if any(ex.field_key(l2) == other for (l2, r2, o2, n2) in ex.writes(e2)):
                                return True
                            return False
                        cmpb = set()
                        for tb2 in g.blocks.values():
                            if tb2.term and "cond" in tb2.term:
                                ks = {ex.field_key(x) for x in ex.walk(tb2.term["cond"]) if x.get("k") == "mem"}
                                if A in ks and Bm in ks:
                                    cmpb.add(tb2.id)
                        ok = any(via(bb, j, bb.elems[j]) for j in range(ii + 1, len(bb.elems)) if bb.elems[j] is not None)
                        if not ok:
                            # every path store -> exit passes a comparison of the two members or a store to the other one
                            seen, st, open_ = set(), [y for y in bb.succs if y is not None], False
                            viab = {b2.id for b2, i2, e2 in g.iter_elems() if via(b2, i2, e2)} | cmpb
                            if bb.id in cmpb:
                                st = []
                            while st:
                                x = st.pop()
                                if x in seen or x in viab:
                                    continue
                                seen.add(x)
                                if x == g.exit:
                                    open_ = True
                                    break
                                st.extend(y for y in g.blocks[x].succs if y is not None)
                            ok = not open_
                        ck.ob("C09-CLAMP", "%s:%s" % (g.name, fk[1]), ok, common.where(g, nd),
                              "%s: after `%s` the order %s is re-established" % (g.name, ex.show(nd)[:50], ex.show(c)) if ok else
                              "%s(): `%s` (line %s) can change the order that %s() establishes with `if (%s) %s`: afterwards %s "
                              "may be greater than %s, e.g. lzma_memlimit_set() lowers the hard limit below the threading limit "
                              "that admission of new Blocks is tested against, and the decoder uses several times the hard "
                              "limit without LZMA_MEMLIMIT_ERROR" % (
                                  g.name, ex.show(nd)[:60], ex.line(nd), f.name, ex.show(c), ex.show(clamp), ex.show(l), ex.show(r)),
                              key="CLAMP:%s:%s" % (g.name, fk[1]))
    if n < 1:
        raise AnalysisBroken("C09-CLAMP: no clamp idiom with a second store found (memlimit_threading/memlimit_stop expected)")


NEEDED = [
    # (coding function, file, memconfig function)
    ("stream_decode", "stream_decoder.c", "stream_decoder_memconfig"),
    ("stream_decode_mt", "stream_decoder_mt.c", "stream_decoder_mt_memconfig"),
    ("alone_decode", "alone_decoder.c", "alone_decoder_memconfig"),
    ("lzip_decode", "lzip_decoder.c", "lzip_decoder_memconfig"),
]


def check_needed(ck, prog):
    """"LZMA_MEMLIMIT_ERROR ... the minimum required memlimit value can be gotten with lzma_memusage()": the quantity that
    a decoder compares with its hard limit before it returns LZMA_MEMLIMIT_ERROR has to be visible through its memconfig
    function (directly, or through the member it was saved in).  Otherwise the application (and xz's "N MiB of memory is
    required" message) is told an unrelated number, and raising the limit to it does not let decoding continue."""
    ck.rule("C09-NEEDED", "the amount compared with the hard limit before LZMA_MEMLIMIT_ERROR is what memconfig reports")
    rets = prog.enum("lzma_ret")
    for (fn, file, mc) in NEEDED:
        f = prog.fn(fn, file)
        g = prog.fn(mc, file)
        ck.saw_function(f)
        ck.saw_function(g)
        mtxt = " ".join(ex.show(e) for b, i, e in g.iter_elems())
        found = []
        for b in f.blocks.values():
            if not (b.term and "cond" in b.term and len(b.succs) == 2):
                continue
            c = ex.strip(b.term["cond"])
            if c.get("k") != "bin" or c["op"] not in (">", "<", ">=", "<="):
                continue
            sides = [ex.strip(c["l"]), ex.strip(c["r"])]
            lim = [x for x in sides if x is not None and x.get("k") == "mem" and x["f"] in ("memlimit", "memlimit_stop")]
            if not lim:
                continue
            X = [x for x in sides if x is not lim[0]][0]
            # does one edge lead to `return LZMA_MEMLIMIT_ERROR` (possibly via `ret = ...`)?
            reach = cfg.reachable(f, [y for y in b.succs if y is not None])
            leads = any(bb.id in reach and "LZMA_MEMLIMIT_ERROR" in ex.show(ee) for bb, ii, ee in f.iter_elems()
                        if ex.deref(ee).get("k") in ("ret", "asg"))
            if leads:
                found.append((b, c, X))
        if not found:
            raise AnalysisBroken("%s: comparison with the memory limit not found" % fn)
        for (b, c, X) in found:
            if X.get("k") == "mem":
                name = X["f"]
                ok = ("->" + name) in mtxt
                how = "member %s" % name
            elif X.get("k") == "var":
                saved = [ex.show(l).split("->")[-1] for bb, ii, ee in f.iter_elems() for (l, r, op, nd) in ex.writes(ee)
                         if r is not None and ex.strip(r).get("k") == "var" and ex.strip(r)["n"] == X["n"] and "->" in ex.show(l)]
                ok = any(("->" + s_) in mtxt for s_ in saved)
                name = X["n"]
                how = "local %s saved in %s" % (X["n"], saved)
            else:
                raise AnalysisBroken("%s: `%s` compares the limit with an expression that is not a member or a local" % (fn, ex.show(c)))
            ck.ob("C09-NEEDED", "%s:%s" % (fn, name), ok, common.where(f, c),
                  "%s: `%s` -- %s is reported by %s()" % (fn, ex.show(c), how, mc) if ok else
                  "%s() returns LZMA_MEMLIMIT_ERROR when `%s`, but %s() never reads %s: lzma_memusage() then reports what "
                  "happens to be allocated instead of what is needed, so `raise the limit to lzma_memusage() and continue` "
                  "cannot succeed and xz prints a wrong requirement" % (fn, ex.show(c), mc, how), key="NEEDED:%s:%s" % (fn, name))
    # the single-call decoder reports the need through its in/out parameter: "*memlimit ... if LZMA_MEMLIMIT_ERROR is
    # returned, the minimum required memlimit value is stored here": the pointer goes into memconfig's memusage slot
    f = prog.fn("lzma_stream_buffer_decode", "stream_buffer_decoder.c")
    ck.saw_function(f)
    site = None
    for b, i, e in f.iter_elems():
        for c in ex.calls(e, into_refs=False):
            cal = ex.strip(c.get("callee")) if c.get("callee") is not None else None
            if cal is not None and cal.get("k") == "mem" and cal["f"] == "memconfig" and len(c["args"]) == 4:
                site = (c, e)
    if site is None:
        raise AnalysisBroken("lzma_stream_buffer_decode: call through the memconfig slot not found")
    a1, a2 = ex.strip(site[0]["args"][1]), ex.strip(site[0]["args"][2])
    ok = a1 is not None and a1.get("k") == "var" and a1["n"] == "memlimit" and not (
        a2 is not None and a2.get("k") == "var" and a2["n"] == "memlimit")
    ck.ob("C09-NEEDED", "lzma_stream_buffer_decode:memlimit-out", ok, common.where(f, site[1]),
          "lzma_stream_buffer_decode: memconfig(coder, memlimit /* receives the usage */, &old, 0)" if ok else
          "lzma_stream_buffer_decode(): the caller's `memlimit` pointer is not passed as the memory-usage output of "
          "memconfig() (`%s`): after LZMA_MEMLIMIT_ERROR *memlimit does not hold the amount that is needed, so the "
          "documented retry with that value cannot succeed" % ex.show(site[0])[:90],
          key="NEEDED:lzma_stream_buffer_decode:memlimit-out")
    ck.floor("C09-NEEDED", 5)


def check_saturate(ck, prog):
    """Memory-usage figures can be UINT64_MAX ("more than can be represented": lzma_index_memusage() and the Index
    decoder's memconfig report that for absurd Record counts).  A memconfig function that reports the SUM of such a
    figure and something else must not let the sum wrap: the addition has to be behind a comparison with UINT64_MAX
    (saturation).  A wrapped sum is a tiny number, so lzma_memusage() understates the need right after
    LZMA_MEMLIMIT_ERROR and lzma_memlimit_set() accepts limits it must refuse."""
    ck.rule("C09-SATURATE", "sums of memory-usage figures that may be UINT64_MAX are saturated")
    cg = common.callgraph(prog)
    mcs = set()
    for (rec, field), fns in cg.slots.items():
        if field == "memconfig":
            mcs |= set(fns)
    n = 0
    for name in sorted(mcs):
        for f in prog.functions.get(name, []):
            if not f.blocks:
                continue
            # locals filled in by another memconfig call / lzma_index_memusage (may be UINT64_MAX)
            big = set()
            for b, i, e in f.iter_elems():
                for c in ex.calls(e, into_refs=True):
                    tgt = ex.show(c.get("callee") or {}) if c.get("callee") else (c.get("fn") or "")
                    if "memconfig" in tgt or c.get("fn") in ("lzma_index_memusage",) or (c.get("slot") == "memconfig"):
                        for a in c["args"]:
                            a0 = ex.strip(a)
                            if a0 is not None and a0.get("k") == "un" and a0["op"] == "&" and ex.strip(a0["e"]).get("k") == "var":
                                big.add(ex.strip(a0["e"])["n"])
                e_ = ex.deref(e)
                if e_.get("k") == "decl" and e_.get("init") is not None and any(
                        c.get("fn") == "lzma_index_memusage" for c in ex.calls(e_["init"])):
                    big.add(e_["n"])
            if not big:
                continue
            doms = cfg.dominators(f)
            for b, i, e in f.iter_elems():
                for (l, r, op, nd) in ex.writes(e):
                    if r is None or "memusage" not in ex.show(l):
                        continue
                    adds = [x for x in ex.walk(r) if x.get("k") == "bin" and x["op"] == "+" and
                            any(y.get("k") == "var" and y["n"] in big for y in ex.walk(x))]
                    if op == "+=" and any(y.get("k") == "var" and y["n"] in big for y in ex.walk(r)):
                        adds.append(nd)
                    if not adds:
                        continue
                    n += 1
                    ck.saw_function(f)
                    guarded = any(f.blocks[d].term and "cond" in f.blocks[d].term and
                                  any(ex.const_val(y) == 0xFFFFFFFFFFFFFFFF for y in ex.walk(f.blocks[d].term["cond"]))
                                  for d in doms.get(b.id, ()) if d != b.id)
                    ck.ob("C09-SATURATE", "%s:%s" % (f.name, ex.show(l)), guarded, common.where(f, nd),
                          "%s: `%s` is behind a comparison with UINT64_MAX" % (f.name, ex.show(nd)[:70]) if guarded else
                          "%s(): `%s` adds %s, which can be UINT64_MAX (reported by the nested memconfig / lzma_index_memusage for "
                          "an absurd Record count), without a saturation test: the sum wraps to a tiny value, so after "
                          "LZMA_MEMLIMIT_ERROR lzma_memusage() understates the need and lzma_memlimit_set() mis-handles "
                          "the new limit" % (f.name, ex.show(nd)[:70], "/".join(sorted(big))),
                          key="SATURATE:%s" % f.name)
    if n < 1:
        raise AnalysisBroken("C09-SATURATE: no memconfig function sums a nested memory-usage figure (file_info expected)")


def check_usage_not_remaining(ck, prog):
    """What a memconfig function reports as memory usage must not be computed from a "how much is left" counter: a member
    that the coding function only ever decrements (Records left to decode) shrinks while the allocated memory grows, so
    lzma_memusage() goes down during decoding, lzma_memlimit_set() accepts limits below what is already allocated, and
    the file info decoder later trips over an index that is bigger than its own limit."""
    ck.rule("C09-USAGE", "memory usage reports are not derived from a counter that only counts down")
    cg = common.callgraph(prog)
    mcs = set()
    for (rec, field), fns in cg.slots.items():
        if field == "memconfig":
            mcs |= set(fns)
    n = 0
    for name in sorted(mcs):
        for f in prog.functions.get(name, []):
            if not f.blocks:
                continue
            base = f.file.rsplit("/", 1)[-1]
            mems = {}
            for b, i, e in f.iter_elems():
                for (l, r, op, nd) in ex.writes(e):
                    if r is None or "memusage" not in ex.show(l):
                        continue
                    for x in ex.walk(r):
                        if x.get("k") == "mem" and ex.show(x.get("b")) == "coder":
                            mems[(x.get("rec"), x["f"])] = nd
            for fk, site in sorted(mems.items()):
                dec = inc = None
                for g in prog.fns_in(base):
                    if not g.blocks:
                        continue
                    for b, i, e in g.iter_elems():
                        for (l, r, op, nd) in ex.writes(e):
                            if ex.field_key(l) == fk:
                                if op == "-=":
                                    dec = dec or (g, nd)
                                if op == "+=":
                                    inc = inc or (g, nd)
                        for x in ex.walk(e):
                            if x.get("k") == "un" and ex.field_key(x.get("e")) == fk:
                                if x["op"] in ("pre--", "post--"):
                                    dec = dec or (g, x)
                                if x["op"] in ("pre++", "post++"):
                                    inc = inc or (g, x)
                n += 1
                ck.saw_function(f)
                bad = dec is not None and inc is None
                ck.ob("C09-USAGE", "%s:%s" % (f.name, fk[1]), not bad, common.where(f, site),
                      "%s: %s is %s" % (f.name, fk[1], "never decremented" if dec is None else "a real counter (incremented and decremented)")
                      if not bad else
                      "%s() computes *memusage from coder->%s, which %s() only counts DOWN (line %s: what is left to do): the "
                      "reported usage shrinks while memory is being allocated, so after decoding lzma_memusage() reports almost "
                      "nothing and lzma_memlimit_set() accepts a limit below what is in use" % (
                          f.name, fk[1], dec[0].name, ex.line(dec[1])), key="USAGE:%s:%s" % (f.name, fk[1]))
    if n < 4:
        raise AnalysisBroken("C09-USAGE: fewer than 4 members feeding memory usage reports found")


def _dead_store(prog, cg, g, elem, within):
    """The store `elem` of function g is guarded by `X < P` (P a parameter of g) and every call of g from the functions
    `within` passes the constant 0 for P: the unsigned comparison is never true, the store never happens."""
    from sa import cfg
    blk = None
    for b, i, e in g.iter_elems():
        if e is elem:
            blk = b.id
    if blk is None:
        return False
    params = [p["n"] for p in g.params]
    dom = cfg.dominators(g)
    for d in dom.get(blk, ()):
        bd = g.blocks[d]
        t = bd.term
        if d == blk or not t or "cond" not in t or len(bd.succs) != 2:
            continue
        c = ex.strip(t["cond"])
        if c is None or c.get("k") != "bin" or c["op"] != "<":
            continue
        r = ex.strip(c["r"])
        if r is None or r.get("k") != "var" or r["n"] not in params:
            continue
        # the store must be on the true side only
        fs = bd.succs[1]
        if fs is not None and (fs == blk or blk in cfg.reachable(g, [fs])):
            continue
        idx = params.index(r["n"])
        args = []
        for nm in within:
            for f in prog.functions.get(nm, []):
                if not f.blocks:
                    continue
                for b, i, e in f.iter_elems():
                    for cc in ex.calls(e, into_refs=False):
                        if cc.get("fn") == g.name and len(cc["args"]) > idx:
                            args.append(cc["args"][idx])
        if args and all(ex.is_const(a, 0) for a in args):
            return True
    return False


def check_free_first(ck, prog):
    """`if (K != wanted) { free(P); P = alloc(wanted); ... }`: when a cached buffer is replaced because its size key
    changed, the old buffer is released BEFORE the new one is requested.  The memory usage that is compared with the
    limit counts one buffer; with the opposite order both are live during the allocation and the peak exceeds what
    was reported and allowed."""
    ck.rule("C09-FREEFIRST", "a cached buffer that is replaced because its size key changed is freed before its "
            "replacement is allocated")
    n = 0
    for f in sorted(prog.all_functions("liblzma"), key=lambda f: (f.file, f.line)):
        if not f.blocks:
            continue
        doms = None
        for b in f.blocks.values():
            t = b.term
            if not t or "cond" not in t or len(b.succs) != 2:
                continue
            c = ex.strip(t["cond"])
            if c is None or c.get("k") != "bin" or c["op"] not in ("!=", "=="):
                continue
            sides = [ex.strip(c["l"]), ex.strip(c["r"])]
            K = [s_ for s_ in sides if s_ is not None and s_.get("k") == "mem"]
            other = [s_ for s_ in sides if s_ is not None and s_.get("k") != "mem"]
            if len(K) != 1 or not other or ex.const_val(other[0]) is not None:
                continue
            K = K[0]
            if doms is None:
                doms = cfg.dominators(f)
            rs_ = b.succs[0] if c["op"] == "!=" else b.succs[1]
            if rs_ is None:
                continue
            region = {x for x in f.blocks if rs_ in doms.get(x, ())}
            # allocation sites whose result ends up in a member with the same root object as K
            local, allocs = {}, []
            for x in sorted(region, reverse=True):
                for i, e in enumerate(f.blocks[x].elems):
                    if e is None:
                        continue
                    d = ex.deref(e)
                    if d.get("k") == "decl" and d.get("init") is not None:
                        i0 = ex.strip(d["init"])
                        if i0 is not None and i0.get("k") == "call" and i0.get("fn") in ("lzma_alloc", "lzma_alloc_zero"):
                            local[d["n"]] = (x, i, e)
                    for (l, r, op, node) in ex.writes(e):
                        ls, rr = ex.strip(l), (ex.strip(r) if r is not None else None)
                        if rr is None or ls is None:
                            continue
                        isalloc = rr.get("k") == "call" and rr.get("fn") in ("lzma_alloc", "lzma_alloc_zero")
                        if isalloc and ls.get("k") == "mem":
                            allocs.append((ls, x, i, e))
                        elif isalloc and ls.get("k") == "var":
                            local[ls["n"]] = (x, i, e)
            for x in region:
                for i, e in enumerate(f.blocks[x].elems):
                    if e is None:
                        continue
                    for (l, r, op, node) in ex.writes(e):
                        ls, rr = ex.strip(l), (ex.strip(r) if r is not None else None)
                        if ls is not None and ls.get("k") == "mem" and rr is not None and rr.get("k") == "var" and rr["n"] in local:
                            allocs.append((ls,) + local[rr["n"]])
            rootK = ex.lvalue_root(K)
            for (P, ax, ai, ae) in allocs:
                rootP = ex.lvalue_root(P)
                if rootK is None or rootP is None or rootK.get("n") != rootP.get("n"):
                    continue
                # locals that hold the old pointer (uint8_t *old = coder->dict.buf; ... lzma_free(old)) stand for it
                alias = set()
                for x in region:
                    for e in f.blocks[x].elems:
                        if e is None:
                            continue
                        d = ex.deref(e)
                        if d.get("k") == "decl" and d.get("init") is not None and ex.same(d["init"], P):
                            alias.add(d["n"])
                        for (l, r, op, node) in ex.writes(e):
                            ls = ex.strip(l)
                            if ls is not None and ls.get("k") == "var" and r is not None and op == "=" and ex.same(r, P):
                                alias.add(ls["n"])

                def frees_P(cc):
                    if cc.get("fn") != "lzma_free" or not cc["args"]:
                        return False
                    a0 = ex.strip(cc["args"][0])
                    return ex.same(cc["args"][0], P) or (a0 is not None and a0.get("k") == "var" and a0["n"] in alias)
                frees = [(x, i) for x in region for i, e in enumerate(f.blocks[x].elems) if e is not None
                         for cc in ex.calls(e, into_refs=False) if frees_P(cc)]
                if not frees:
                    continue
                n += 1
                ck.saw_function(f)
                # is the allocation reachable from the start of the region without passing a free(P)?
                fb = {}
                for (x, i) in frees:
                    fb[x] = min(fb.get(x, 1 << 30), i)
                seen, st, bad = set(), [rs_], False
                while st:
                    x = st.pop()
                    if x in seen or x not in region:
                        continue
                    seen.add(x)
                    if x == ax and not (x in fb and fb[x] < ai):
                        bad = True
                        break
                    if x in fb:
                        continue
                    st.extend(y for y in f.blocks[x].succs if y is not None)
                ck.ob("C09-FREEFIRST", "%s:%s" % (f.name, ex.show(P)), not bad, common.where(f, ae),
                      "%s(): lzma_free(%s) precedes the allocation of its replacement (guard `%s`)" % (
                          f.name, ex.show(P), ex.show(c)) if not bad else
                      "%s(): the replacement for %s is allocated (line %s) while the old buffer is still allocated: it is "
                      "freed only afterwards, so both buffers are live at once and the peak memory use exceeds the usage "
                      "that was reported and compared with the memory limit (which counts one buffer)" % (
                          f.name, ex.show(P), ex.line(ae)), key="FREEFIRST:%s:%s" % (f.name, ex.show(P)))
    ck.floor("C09-FREEFIRST", 1)
    return n


def check_pending(ck, prog):
    """stream_decode_mt() compares what the next Block needs with memlimit_stop once, at the top of SEQ_BLOCK_INIT, and may
    then return to the application (output full, timeout) in a later state before the memory is allocated.
    lzma_memlimit_set() can be called in between.  For every state from which a Block decoder is initialised without
    passing that comparison again, memconfig has to count the pending need, i.e. refuse a limit below it; otherwise the
    hard limit is exceeded (direct mode) or memlimit_threading drops below what the accepted Block needs and the Block
    can never start (threaded mode)."""
    ck.rule("C09-PENDING", "every state of the threaded decoder that initialises a Block decoder without re-testing "
            "memlimit_stop is covered by memconfig's minimum for lzma_memlimit_set()")
    f = prog.fn("stream_decode_mt", "stream_decoder_mt.c")
    mc = prog.fn("stream_decoder_mt_memconfig", "stream_decoder_mt.c")
    ck.saw_function(f)
    ck.saw_function(mc)
    sw = resume.Resume(prog, f).find_switch()
    if not sw:
        raise AnalysisBroken("stream_decode_mt: no state switch")
    swb = sw[0]
    guards = {b.id for b in f.blocks.values() if b.term and "cond" in b.term and
              "memlimit_stop" in ex.show(b.term["cond"]) and "mem_next_filters" in ex.show(b.term["cond"])}
    if not guards:
        raise AnalysisBroken("stream_decode_mt: the comparison of mem_next_filters with memlimit_stop was not found")
    allocs = {b.id for b, i, e in f.iter_elems() for c in ex.calls(e, into_refs=False)
              if c.get("fn") in ("lzma_block_decoder_init", "get_thread")}
    if len(allocs) < 2:
        raise AnalysisBroken("stream_decode_mt: Block decoder initialisation sites not found")
    pend = {}
    for lb, bid in cfg.case_targets(f, swb):
        if not lb or not lb.get("n"):
            continue
        seen, st, hit = set(), [bid], None
        while st:
            x = st.pop()
            if x in seen or x is None or x == swb.id or x in guards:
                continue
            seen.add(x)
            if x in allocs:
                hit = x
                break
            st.extend(f.blocks[x].succs)
        if hit is not None:
            pend[lb["n"]] = hit
    if not pend:
        raise AnalysisBroken("stream_decode_mt: no state reaches a Block decoder initialisation without the limit test")
    # the state in which LZMA_MEMLIMIT_ERROR is returned (the guard is its first statement) reports the amount as well
    case_blocks = {bid for lb, bid in cfg.case_targets(f, swb)}
    for lb, bid in cfg.case_targets(f, swb):
        if not lb or not lb.get("n") or lb["n"] in pend:
            continue
        seen, st = set(), [bid]
        while st:
            x = st.pop()
            if x in seen or x is None or x == swb.id or (x in case_blocks and x != bid):
                continue
            seen.add(x)
            if x in guards:
                pend[lb["n"]] = x
                break
            st.extend(f.blocks[x].succs)
    # what memconfig reports in each state: finite-domain evaluation with sentinel values for the two pending amounts
    # (everything else unknown): in a pending state some exit must carry the sentinel in *memusage
    en = common.state_enum_of_switch(prog, f, swb)
    seqnode = ex.strip(swb.term["cond"])
    A, B = 10 ** 9, 2 * 10 ** 9
    kseq = fd.Key("field", seqnode["f"], rec=seqnode.get("rec"), domain=en.values(), label="seq")
    kf = fd.Key("field", "mem_next_filters", rec=seqnode.get("rec"), domain=(A,), label="nf")
    kb = fd.Key("field", "mem_next_block", rec=seqnode.get("rec"), domain=(B,), label="nb")
    km = fd.Key("var", "$memusage", label="mu")
    km.matches = lambda n: (ex.strip(n) is not None and ex.strip(n).get("k") == "un" and ex.strip(n)["op"] == "*" and
                            ex.show(ex.strip(ex.strip(n)["e"])) == "memusage")
    locs = [fd.Key("var", v["n"], label="l_" + v["n"]) for v in mc.vars if not v.get("param") and "uint64" in (v.get("ty") or "")]
    covered = set()
    cgm = common.callgraph(prog)
    for st_ in pend:
        g = fd.FD(prog, mc, [kseq, kf, kb, km] + locs, cg=cgm, split=300)
        g.run([g.make_state(seq=[en[st_]], nf=[A], nb=[B])])
        vals = [g.get(nd[1], "mu") for nd in g.nodes if nd[0] == mc.exit]
        want = {B} if "THR" in st_ else None
        if any(v is not None and len(v) == 1 and (list(v)[0] in ((B,) if want else (A, B))) for v in vals):
            covered.add(st_)
    for st_, blk in sorted(pend.items()):
        ok = st_ in covered
        if blk in guards:
            ck.ob("C09-PENDING", "stream_decode_mt:" + st_, ok, common.where(f, f.blocks[blk].term["cond"]),
                  "%s: LZMA_MEMLIMIT_ERROR is returned here; memconfig reports the amount that is needed" % st_ if ok else
                  "stream_decode_mt() returns LZMA_MEMLIMIT_ERROR in state %s but stream_decoder_mt_memconfig() does not report "
                  "coder->mem_next_filters there: lzma_memusage() tells the application what happens to be allocated instead of "
                  "what is needed, and lzma_memlimit_set() accepts limits that are still too low" % st_,
                  key="PENDING:stream_decode_mt:" + st_)
            continue
        ck.ob("C09-PENDING", "stream_decode_mt:" + st_, ok, common.where(f, f.blocks[blk].elems[0] if f.blocks[blk].elems else None),
              "%s: a Block decoder is initialised (line %s) without re-testing memlimit_stop; memconfig counts the pending "
              "Block in this state" % (st_, cfg.block_lines(f, blk)[0] if cfg.block_lines(f, blk) else "?") if ok else
              "stream_decode_mt(): in state %s a Block decoder is initialised (block %d) without comparing the need with "
              "memlimit_stop again, and stream_decoder_mt_memconfig() does not count the pending Block in that state: "
              "lzma_memlimit_set() accepts a limit below what the already accepted Block needs -- the hard limit is then "
              "exceeded (direct mode) or memlimit_threading falls below mem_next_block and the Block can never start" % (st_, blk),
              key="PENDING:stream_decode_mt:" + st_)
    ck.floor("C09-PENDING", 3)


def check_kept(ck, prog):
    """SEQ_BLOCK_THR_INIT snapshots the head of coder->threads_free under the mutex and, when cached Block decoders have
    to be freed to stay within memlimit_threading, exempts that first worker ("get_thread() will pick it and reuse its
    allocation").  get_thread() reads the list head again later: a worker that finished in between is picked instead,
    a new decoder is allocated for it and the exempted one stays cached -- both limits are exceeded.  The exemption is
    sound only if the exempted worker is compared with the worker actually obtained (and released when they differ)."""
    ck.rule("C09-KEPT", "a cached worker exempted from freeing in SEQ_BLOCK_THR_INIT is compared with the worker that "
            "get_thread() returned")
    f = prog.fn("stream_decode_mt", "stream_decoder_mt.c")
    ck.saw_function(f)
    snaps = set()
    for b, i, e in f.iter_elems():
        for (l, r, op, node) in ex.writes(e):
            ls = ex.strip(l)
            if ls is not None and ls.get("k") == "var" and r is not None and ex.show(ex.strip(r)).endswith("->threads_free"):
                snaps.add(ls["n"])
    if not snaps:
        raise AnalysisBroken("stream_decode_mt: snapshot of coder->threads_free not found")
    gt = [b.id for b, i, e in f.iter_elems() if any(c.get("fn") == "get_thread" for c in ex.calls(e, into_refs=False))]
    if not gt:
        raise AnalysisBroken("stream_decode_mt: get_thread() call not found")
    after = set()
    for x in gt:
        after |= cfg.reachable(f, [y for y in f.blocks[x].succs if y is not None])
    ex_sites = []
    for b in f.blocks.values():
        t = b.term
        if not t or "cond" not in t or len(b.succs) != 2:
            continue
        c = ex.show(ex.strip(t["cond"]))
        if "mem_filters" in c and "mem_next_filters" in c and any(("%s->" % v) in c for v in snaps):
            tb = f.blocks.get(b.succs[0])
            if tb is None:
                continue
            adv = [e for e in tb.elems if e is not None for (l, r, op, node) in ex.writes(e)
                   if ex.strip(l) is not None and ex.strip(l).get("k") == "var" and ex.strip(l)["n"] in snaps
                   and r is not None and ex.show(ex.strip(r)).endswith("->next")]
            frees = any(cc.get("fn") == "lzma_next_end" for e in tb.elems if e is not None for cc in ex.calls(e, into_refs=False))
            if adv and not frees:
                ex_sites.append((b, tb))
    if not ex_sites:
        ck.ob("C09-KEPT", "stream_decode_mt", True, common.where(f),
              "stream_decode_mt: no cached worker is exempted from freeing", key="KEPT:stream_decode_mt")
        return
    for (b, tb) in ex_sites:
        # the exempted pointer survives in a local ...
        kept = set()
        for e in tb.elems:
            if e is None:
                continue
            for (l, r, op, node) in ex.writes(e):
                ls, rr = ex.strip(l), ex.strip(r) if r is not None else None
                if ls is not None and ls.get("k") == "var" and rr is not None and rr.get("k") == "var" and rr["n"] in snaps \
                        and ls["n"] not in snaps:
                    kept.add(ls["n"])
        # ... and is compared with coder->thr after get_thread()
        cmp_ = False
        for bb in f.blocks.values():
            if bb.id in after and bb.term and "cond" in bb.term:
                c = ex.strip(bb.term["cond"])
                txt = ex.show(c)
                if any(x.get("k") == "var" and x["n"] in kept for x in ex.walk(c)) and "->thr" in txt:
                    cmp_ = True
        ck.ob("C09-KEPT", "stream_decode_mt", cmp_, common.where(f, b.term["cond"]),
              "stream_decode_mt: the exempted worker (%s) is compared with coder->thr after get_thread()" % sorted(kept) if cmp_ else
              "stream_decode_mt(): the first cached worker of the snapshot is exempted from freeing (`%s`) on the assumption "
              "that get_thread() will reuse it, but the exempted worker is %s: get_thread() takes the CURRENT head of "
              "coder->threads_free, a worker that finished after the snapshot is picked instead, its decoder is allocated anew and "
              "the exempted decoder stays cached, so memlimit_threading and memlimit_stop are exceeded" % (
                  ex.show(ex.strip(b.term["cond"])), "not remembered" if not kept else "never compared with coder->thr"),
              key="KEPT:stream_decode_mt")


def check_optpath(ck, prog):
    """An encoder's memory usage function recomputes the lzma_lz_options that the init path hands to
    lz_encoder_prepare(): every adjustment of that record on the init path must also be made on the memusage path,
    otherwise the figure reported (and compared with limits by applications, by xz and by the threaded encoder)
    describes a smaller buffer than the one that is allocated."""
    ck.rule("C09-OPTPATH", "every store to lzma_lz_options on the init path of a filter encoder has a counterpart "
            "on the path of its memusage function")
    cg = common.callgraph(prog)

    def closure(root):
        seen, st = set(), [root]
        while st:
            nm = st.pop()
            if nm in seen:
                continue
            fs = [f for f in prog.functions.get(nm, []) if f.blocks]
            if not fs:
                continue
            seen.add(nm)
            for f in fs:
                st.extend(cg.direct.get(f.key, ()))
                for b, i, e in f.iter_elems():
                    for c in ex.calls(e, into_refs=False):
                        for a in c.get("args", ()):
                            fr = cg._fnref(a)
                            if fr:
                                st.append(fr)
        return seen

    def stores(nm):
        out = {}
        for f in prog.functions.get(nm, []):
            if not f.blocks:
                continue
            for b, i, e in f.iter_elems():
                for (l, r, op, node) in ex.writes(e):
                    ls = ex.strip(l)
                    if ls is not None and ls.get("k") == "mem" and ls.get("rec") == "lzma_lz_options":
                        out.setdefault(ls["f"], (f, e))
        return out
    g = prog.globals.get("encoders")
    if not g:
        raise AnalysisBroken("filter encoder table not found")
    pairs = set()
    for d in g:
        n = ex.strip(d.get("init"))
        if n is None or n.get("k") != "init":
            continue
        for e in n["e"]:
            e = ex.strip(e)
            if e is None or e.get("k") != "init" or not e.get("fields"):
                continue
            ent = dict(zip(e["fields"], e["e"]))
            i_, m_ = cg._fnref(ent.get("init")), cg._fnref(ent.get("memusage"))
            if i_ and m_:
                pairs.add((i_, m_))
    if len(pairs) < 2:
        raise AnalysisBroken("fewer than two (init, memusage) pairs in the filter encoder table")
    n = 0
    for (i_, m_) in sorted(pairs):
        ci, cm = closure(i_), closure(m_)
        mem_only = {}
        for nm in cm - ci:
            for fld, site in stores(nm).items():
                if not _dead_store(prog, cg, site[0], site[1], cm):
                    mem_only.setdefault(fld, nm)
        if not any(stores(nm) for nm in cm):
            continue
        for nm in sorted(ci):
            for fld, (f, e) in sorted(stores(nm).items()):
                n += 1
                ok = nm in cm or fld in mem_only
                ck.ob("C09-OPTPATH", "%s:%s.%s" % (i_, nm, fld), ok, common.where(f, e),
                      "%s() stores lz_options->%s on the init path of %s; %s" % (
                          nm, fld, i_,
                          ("the memusage path of %s runs the same function" % m_) if nm in cm else
                          ("%s() makes the corresponding store on the memusage path" % mem_only.get(fld)))
                      if ok else
                      "%s() stores lz_options->%s on the init path (%s) but neither it nor any other store to that member is "
                      "on the path of %s(): the memory usage is computed from options that differ from the ones the buffers "
                      "are allocated with, so the reported figure can be smaller than the allocation" % (nm, fld, i_, m_),
                      key="OPTPATH:%s:%s:%s" % (m_, nm, fld))
    ck.floor("C09-OPTPATH", 10)
    return n


def check_reserve_and_default(ck, prog, prog_xz):
    """(1) lzma2_encoder_init() reserves history for the uncompressed-chunk fallback: before_size + dict_size must reach
    LZMA2_CHUNK_MAX (64 KiB, the largest uncompressed chunk).  The encoder memory-usage functions compute the window from
    the same fields with 64 KiB in mind; a larger reserve (2 MiB = LZMA2_UNCOMPRESSED_MAX) makes the real allocation
    exceed every estimate.  (2) xz treats the multithreaded-encoder limit as "the soft default" only if no
    --memlimit-compress was given AND the thread count is automatic."""
    f = prog.fn("lzma2_encoder_init", "lzma2_encoder.c")
    ck.saw_function(f)
    consts = set()
    for b in f.blocks.values():
        if b.term and "cond" in b.term and "before_size" in ex.show(b.term["cond"]):
            for x in ex.walk(b.term["cond"]):
                if ex.const_val(x) is not None and ex.const_val(x) > 1024:
                    consts.add(ex.const_val(x))
    for b, i, e in f.iter_elems():
        for (l, r, op, nd) in ex.writes(e):
            if ex.show(l).endswith("->before_size") and r is not None:
                for x in ex.walk(r):
                    if ex.const_val(x) is not None and ex.const_val(x) > 1024:
                        consts.add(ex.const_val(x))
    if not consts:
        raise AnalysisBroken("lzma2_encoder_init: the history reserve (before_size) computation was not found")
    ok = consts == {1 << 16}
    ck.ob("C09-TERMS", "lzma2:history-reserve", ok, common.where(f),
          "lzma2_encoder_init: the history reserve is computed with LZMA2_CHUNK_MAX (65536)" if ok else
          "lzma2_encoder_init(): the history reserve for uncompressed chunks is computed with %s instead of LZMA2_CHUNK_MAX "
          "(65536): the match finder buffer grows by about 1.5 x (reserve - dict_size), which lzma_raw_encoder_memusage() / "
          "lzma_stream_encoder_mt_memusage() do not count, so the reported usage is below what is allocated" % sorted(consts),
          key="TERMS:lzma2:history-reserve")
    g = prog_xz.fn("hardware_memlimit_mtenc_is_default", "hardware.c", target="xz")
    ck.saw_function(g)
    rets = [ex.deref(e) for b, i, e in g.iter_elems() if ex.deref(e).get("k") == "ret" and ex.deref(e).get("e") is not None]
    conds = [ex.show(b.term["cond"]) for b in g.blocks.values() if b.term and "cond" in b.term]
    # `a && b` becomes a branch on a followed by a return of b (or the conditional join): both names must be tested,
    # and the function must be able to return false when only one of them holds
    txt = " ".join(conds + [ex.show(r["e"]) for r in rets])
    both = "memlimit_compress" in txt and "threads_are_automatic" in txt
    conj = False
    for b in g.blocks.values():
        if b.term and "cond" in b.term and b.term.get("kind") == "BinaryOperator":
            conj = b.term.get("op") == "&&" or True
    is_and = False
    for b in g.blocks.values():
        if b.term and "cond" in b.term and b.term.get("kind") == "BinaryOperator" and len(b.succs) == 2:
            tsucc = g.blocks.get(b.succs[0])
            fsucc = g.blocks.get(b.succs[1])
            # `a && b`: the TRUE edge goes to the block that evaluates b, which then falls into the join (= the FALSE edge)
            if tsucc is not None and fsucc is not None and [y for y in tsucc.succs if y is not None] == [fsucc.id]:
                is_and = True
    okd = both and is_and
    ck.ob("C09-TERMS", "xz:mtenc-limit-default", okd, common.where(g),
          "xz: the MT encoder limit counts as the soft default only when no limit was given AND threads are automatic" if okd else
          "xz: hardware_memlimit_mtenc_is_default() is not the conjunction `memlimit_compress == 0 && threads_are_automatic`: "
          "an explicit --memlimit-compress with automatic threads is treated as the soft default, xz announces that the limit "
          "is exceeded and then runs all threads anyway", key="TERMS:xz:mtenc-limit-default")


def check_outq_loops(ck, prog, rule="C09-OUTQLOOP"):
    """The output queue keeps its memory within bufs_limit by loops of the form `while (COND) helper(outq, ...)` (free cached
    buffers until the new limit holds, move every buffer to the cache, ...).  Such a loop enforces COND's negation only if
    COND reads something the helper changes: a condition over members the helper never writes is either false from the
    start (nothing is trimmed: more buffers stay allocated than the new limit allows) or never becomes false."""
    ck.rule(rule, "outqueue.c: the condition of every `while (...) helper(outq)` loop reads a lzma_outq member that the helper modifies")
    written = {}

    def writes_of(nm, depth=0):
        if nm in written:
            return written[nm]
        written[nm] = set()
        fs = [g for g in prog.functions.get(nm, []) if g.blocks and g.file.endswith("outqueue.c")]
        out = set()
        for g in fs:
            for b, i, e in g.iter_elems():
                for (l, r, op, node) in ex.writes(e):
                    ls = ex.strip(l)
                    if ls is not None and ls.get("k") == "mem" and ls.get("rec") == "lzma_outq":
                        out.add(ls["f"])
                if depth < 3:
                    for c in ex.calls(e, into_refs=False):
                        if c.get("fn") and c.get("fn") != nm:
                            out |= writes_of(c["fn"], depth + 1)
        written[nm] = out
        return out
    n = 0
    for nm, fs in sorted(prog.functions.items()):
        for f in fs:
            if not f.blocks or not f.file.endswith("outqueue.c"):
                continue
            for b in f.blocks.values():
                if not (b.term and b.term.get("kind") in ("WhileStmt", "ForStmt", "DoStmt") and "cond" in b.term and len(b.succs) == 2):
                    continue
                # loop body: blocks reachable from the true successor without passing the condition block again
                body, st = set(), [b.succs[0]]
                while st:
                    x = st.pop()
                    if x is None or x in body or x == b.id:
                        continue
                    body.add(x)
                    st.extend(f.blocks[x].succs)
                if b.id not in {y for x in body for y in f.blocks[x].succs}:
                    continue
                helpers = sorted({c.get("fn") for x in body for e in f.blocks[x].elems if e is not None
                                  for c in ex.calls(e, into_refs=False)
                                  if c.get("fn") and c["args"] and ex.show(c["args"][0]) == "outq"})
                if not helpers:
                    continue
                ck.saw_function(f)
                n += 1
                reads = {x["f"] for x in ex.walk(b.term["cond"]) if x.get("k") == "mem" and x.get("rec") == "lzma_outq"}
                mod = set()
                for h in helpers:
                    mod |= writes_of(h)
                direct = {ex.strip(l)["f"] for x in body for e in f.blocks[x].elems if e is not None
                          for (l, r, op, node) in ex.writes(e)
                          if ex.strip(l) is not None and ex.strip(l).get("k") == "mem" and ex.strip(l).get("rec") == "lzma_outq"}
                ok = bool(reads & (mod | direct))
                ck.ob(rule, "%s@%s" % (f.name, ex.show(b.term["cond"])), ok, common.where(f, b.term["cond"]),
                      "%s: `while (%s)` reads %s, which %s modifies" % (f.name, ex.show(b.term["cond"]), sorted(reads & (mod | direct)), "/".join(helpers))
                      if ok else
                      "%s(): the loop `while (%s) %s(outq, ...)` tests %s, but %s() only modifies %s: the loop cannot establish its exit "
                      "condition (with an empty queue it never runs, so cached buffers beyond the new limit stay allocated and the "
                      "coder holds more memory than it reports and than the limit it was given allows)" % (
                          f.name, ex.show(b.term["cond"]), "/".join(helpers), sorted(reads) or "no queue member", "/".join(helpers), sorted(mod)),
                      key="OUTQLOOP:%s:%s" % (f.name, "/".join(helpers)))
    ck.floor(rule, 5)


def run(ck):
    ck.explanation = (
        "Must-pass (edge cut) rules on the resume-aware product graphs of the container decoders: every "
        "allocating call for a new Block/Index/member is preceded on all paths by the usage > limit comparison, and "
        "LZMA_MEMLIMIT_ERROR is returned only in the restartable state; memconfig functions checked for complete "
        "outputs and guarded stores; filter tables' memusage column; xz's memory-limit escape structure.")
    ck.not_decided = ("that the estimates are upper bounds of the real allocations, threaded accounting values, "
                      "xz's measured memory use.")
    prog = common.program(ck, ("liblzma",))
    ck.rule("C09-GUARD", "usage-vs-limit comparison precedes every allocating call; MEMLIMIT_ERROR only in the "
            "restartable state")
    evaluate(ck, prog, "C09-GUARD", TABLE)
    check_restart(ck, prog)
    ck.floor("C09-GUARD", 12)
    check_cfg(ck, prog)
    check_tab(ck, prog)
    prog_xz = common.program(ck, ("xz",), files=("/coder.c", "/hardware.c"))
    check_xz(ck, prog_xz)
    check_terms(ck, prog, prog_xz)
    check_reserve_and_default(ck, prog, prog_xz)
    check_optpath(ck, prog)
    check_free_first(ck, prog)
    check_pending(ck, prog)
    check_kept(ck, prog)
    check_outq_loops(ck, prog)
    # "UINT64_MAX on error": the memory usage functions answer an invalid chain (NULL LZMA options) instead of dereferencing it
    from . import C12 as _C12
    _C12.check_null_options(ck, prog, rule="C09-NULLOPT", only=("memusage",))
    # what the memory usage functions describe is what a RE-USED coder holds as well: a cached buffer whose size key differs
    # from the new size is replaced, not kept (rule shared with C10)
    from . import C10
    C10.check_sizekey(ck, prog, rule="C09-SIZEKEY")
    check_clamp(ck, prog)
    check_saturate(ck, prog)
    check_usage_not_remaining(ck, prog)
    check_needed(ck, prog)
    from . import reinit
    ck.rule("C09-STALENEXT", "memconfig and the other entry points use a lazily initialised nested decoder only behind a test of coder->sequence")
    reinit.check_stale_nested(ck, prog, "C09-STALENEXT")
    ck.floor("C09-STALENEXT", 4)
