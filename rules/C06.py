"""C06 — results do not depend on buffer slicing; encoder output is deterministic.

Decided (structural necessary conditions only):
  C06-RESUME  every local of a resumable coder function that is defined inside the
              resumable region, may still hold that value at a return, and is live
              at a resume label, is saved to / restored from coder state.
  C06-CRC     running CRC32 of the Index codecs: every non-fatal return that can
              follow an advance of the position in a hashed state passes through
              the crc32 update (or its "nothing consumed" guard).
  C06-DET     no liblzma function calls a source of nondeterminism, except the
              frozen allow-list (condition-variable timeouts, CPU feature probe,
              hardware queries of the public hardware API).
"""
from sa import ex, cfg, fd, resume
from sa.compdb import AnalysisBroken
from . import common

# ---------------------------------------------------------------------------
# C06-RESUME instances: (function, file) roles.  Discovered by reading: all
# functions stored into a `code` slot that dispatch on a persisted state field,
# plus the two direct-call state machines.
RESUME_EXTRA = [("lzma_index_hash_decode", "index_hash.c"),
                ("lzma_decode", "lzma_decoder.c")]
RESUME_FLOOR = 18

# Exceptions: (function, local) -> (kind, reason)
RESUME_EXCEPTIONS = {
    ("lzma_decode", "pos_state"): (
        "derived",
        "recomputed from persisted state: the prologue initialiser and every "
        "in-region definition are the same expression over dict.pos and pos_mask"),
    ("stream_decode_mt", "wait_abs"): (
        "per-call",
        "timeout bookkeeping is per lzma_code() call by the API contract (base.h: timeout)"),
    ("stream_decode_mt", "has_blocked"): (
        "per-call",
        "timeout bookkeeping is per lzma_code() call by the API contract (base.h: timeout)"),
}


def check_resume(ck, prog, RULE="C06-RESUME", only_files=None, floor=None):
    ck.rule(RULE, "locals defined in the resumable region, possibly current at a "
            "return and live at a resume label, must have a restore/save pair with coder state")
    cg = common.callgraph(prog)
    fns = {f.key: f for f in common.code_slot_functions(prog, cg)}
    for name, file in RESUME_EXTRA:
        f = prog.fn(name, file)
        fns[f.key] = f
    pw = resume.ParamWrites(prog)
    n = 0
    for f in sorted(fns.values(), key=lambda f: (f.file, f.line)):
        if only_files is not None and f.file.rsplit("/", 1)[-1] not in only_files:
            continue
        R = resume.Resume(prog, f, pw)
        if not R.find_switch():
            continue
        r = R.analyse()
        n += 1
        ck.saw_function(f)
        nontrivial = [(nm, c) for nm, c in r["classes"].items()
                      if c in ("persisted", "VIOLATION", "returned-value")]
        ck.ob(RULE, f.name + ":machine", True, common.where(f, r["switch_line"]),
              "switch(%s), %d resume labels, %d locals classified" % (
                  r["state"], r["n_labels"], len(r["classes"])))
        viol = {v["pv"]: v for v in r["violations"]}
        for nm, c in nontrivial:
            base = nm.split(".")[0]
            if c != "VIOLATION":
                ck.ob(RULE, "%s:%s" % (f.name, nm), True, common.where(f),
                      "local %s: %s" % (nm, c))
                continue
            v = viol[nm]
            exc = RESUME_EXCEPTIONS.get((f.name, base))
            if exc:
                ok, why = _check_exception(prog, f, R, r, nm, exc)
                ck.ob(RULE, "%s:%s" % (f.name, nm), ok,
                      common.where(f, v["def_line"]),
                      "local %s: exception '%s' (%s): %s" % (nm, exc[0], exc[1], why),
                      key="RESUME:%s:%s" % (f.name, nm))
                continue
            ck.ob(RULE, "%s:%s" % (f.name, nm), False,
                  common.where(f, v["def_line"]),
                  "local '%s' is assigned inside the resumable region (line %d), is live at "
                  "resume label(s) %s, and is not saved to coder state before return: after a "
                  "suspension the prologue recomputes it%s, so the result depends on where the "
                  "input was split" % (
                      nm, v["def_line"], ",".join(str(x) for x in v["live_at"]),
                      (" from " + ", ".join(v["restore"])) if v["restore"] else ""),
                  key="RESUME:%s:%s" % (f.name, nm),
                  detail=v)
    ck.floor(RULE, RESUME_FLOOR if floor is None else floor)


def _check_exception(prog, f, R, r, nm, exc):
    kind = exc[0]
    if kind == "per-call":
        return True, "table exception"
    if kind == "derived":
        # all definitions of the variable have the same right-hand side
        rhs = []
        for b, i, e in f.iter_elems():
            for (l, rr, op, node) in ex.writes(e):
                ls = ex.strip(l)
                if ls is not None and ls.get("k") == "var" and ls["n"] == nm and ls.get("s") == "l":
                    rhs.append((op, rr))
        if len(rhs) < 2:
            return False, "expected a prologue and an in-region definition"
        first = rhs[0][1]
        for op, rr in rhs:
            if op != "=" or rr is None or not ex.same(first, rr):
                return False, "definitions differ: %s vs %s" % (ex.show(first), ex.show(rr))
        # inputs must be persisted / prologue-only
        for x in ex.walk(first):
            if x.get("k") == "var" and x.get("s") == "l":
                nm2 = x["n"]
                cls = [c for k, c in r["classes"].items() if k.split(".")[0] == nm2]
                if any(c == "VIOLATION" for c in cls):
                    return False, "input %s is itself not persisted" % nm2
        return True, "all %d definitions are `%s`" % (len(rhs), ex.show(first))
    return False, "unknown exception kind"


# ---------------------------------------------------------------------------
# C06-CRC instances
CRC_INSTANCES = [
    # function, file, position variable, crc states (position advances there are not hashed)
    ("index_decode", "index_decoder.c", "in_pos", ("SEQ_CRC32",)),
    ("lzma_index_hash_decode", "index_hash.c", "in_pos", ("SEQ_CRC32",)),
    ("index_encode", "index_encoder.c", "out_pos", ("SEQ_CRC32",)),
]
# LZMA_MEMLIMIT_ERROR is not fatal: after lzma_memlimit_set() the same coder continues from where it stopped
FATAL = ("LZMA_MEM_ERROR", "LZMA_FORMAT_ERROR", "LZMA_OPTIONS_ERROR",
         "LZMA_DATA_ERROR", "LZMA_BUF_ERROR", "LZMA_PROG_ERROR")


def check_crc(ck, prog):
    ck.rule("C06-CRC", "every non-fatal return reachable from an advance of the position in a "
            "hashed state passes through the running crc32 update or its nothing-consumed guard")
    cg = common.callgraph(prog)
    rs = common.retsets(prog)
    rets = common.lzma_ret(prog)
    fatal_vals = {rets[n] for n in FATAL}
    for name, file, posvar, crc_states in CRC_INSTANCES:
        f = prog.fn(name, file)
        ck.saw_function(f)
        R = resume.Resume(prog, f)
        sw = R.find_switch()
        if not sw:
            raise AnalysisBroken("%s: no state switch" % name)
        swb = sw[0]
        en = common.state_enum_of_switch(prog, f, swb)
        crc_vals = {en[s] for s in crc_states}
        seqnode = ex.strip(swb.term["cond"])
        kseq = fd.Key("field", seqnode["f"], rec=seqnode.get("rec"), domain=en.values(), label="seq")
        kret = fd.Key("var", "ret", domain=rets.values(), label="ret")
        kret2 = fd.Key("var", "ret_", domain=rets.values(), label="ret_")
        g = fd.FD(prog, f, [kseq, kret, kret2], cg=cg,
                  call_values=lambda c, s: rs.call_set(c, f))
        g.run([g.make_state(seq=[v]) for v in en.values()])

        def is_advance(b, i, e, states, posvar=posvar):
            # hashed state?
            if all((g.get(s, "seq") or set()) <= crc_vals for s in states):
                return False
            for x in ex.walk(e, into_refs=False):
                k = x.get("k")
                if k == "un" and x["op"] in ex.ASSIGN_UN:
                    t = ex.strip(x["e"])
                    if t.get("k") == "un" and t["op"] == "*" and ex.reads_var(t["e"], posvar):
                        return True
                elif k == "asg":
                    t = ex.strip(x["l"])
                    if t.get("k") == "un" and t["op"] == "*" and ex.reads_var(t["e"], posvar):
                        return True
                elif k == "call":
                    for a in x["args"]:
                        a = ex.strip(a)
                        if a is not None and a.get("k") == "var" and a["n"] == posvar:
                            return True
            return False

        # the crc update and its guard
        upd_sites = []
        guard_locals = set()
        for b, i, e in f.iter_elems():
            for (l, r, op, node) in ex.writes(e):
                fk = ex.field_key(l)
                if fk and "crc32" in fk[1] and r is not None:
                    c = ex.strip(r)
                    if c.get("k") == "call" and c.get("fn") == "lzma_crc32":
                        upd_sites.append((b.id, i, c))
                        for a in c["args"]:
                            a = ex.strip(a)
                            if a is not None and a.get("k") == "var" and a.get("s") == "l":
                                guard_locals.add(a["n"])
        # ... or a call of a static helper of the same file that contains the update (with its own guard)
        for b, i, e in f.iter_elems():
            for c0 in ex.calls(e, into_refs=False):
                for cand in prog.functions.get(c0.get("fn") or "", []):
                    if not (cand.blocks and cand.static and cand.tu == f.tu):
                        continue
                    for b2, i2, e2 in cand.iter_elems():
                        for (l2, r2, op2, n2) in ex.writes(e2):
                            fk2 = ex.field_key(l2)
                            c2 = ex.strip(r2) if r2 is not None else None
                            if fk2 and "crc32" in fk2[1] and c2 is not None and c2.get("k") == "call" and c2.get("fn") == "lzma_crc32":
                                upd_sites.append((b.id, i, c2))
        if not upd_sites:
            ck.ob("C06-CRC", name + ":update", False, common.where(f),
                  "no `X->crc32 = lzma_crc32(...)` update found", key="CRC:%s:update" % name)
            continue
        ck.ob("C06-CRC", name + ":update", True, common.where(f, upd_sites[0][2]),
              "%d crc32 update site(s)" % len(upd_sites))
        # the update must hash exactly [start, pos): args (buf + start, pos - start | local = pos - start, crc)
        for (bid, i, c) in upd_sites:
            ok = len(c["args"]) == 3 and ex.field_key(c["args"][2]) is not None \
                and "crc32" in ex.field_key(c["args"][2])[1]
            ck.ob("C06-CRC", name + ":chain", ok, common.where(f, c),
                  "update continues from the stored crc32: %s" % ex.show(c),
                  key="CRC:%s:chain" % name)

        upd_set = {(b_, i_) for (b_, i_, c_) in upd_sites}

        def is_kill(b, i, e, states):
            return (b.id, i) in upd_set

        def edge_kill(b, label):
            # false edge of `if (used > 0)` guarding the update
            if label != "F" or not b.term or "cond" not in b.term:
                return False
            c = ex.strip(b.term["cond"])
            if c.get("k") == "bin" and c["op"] in (">", "!="):
                l = ex.strip(c["l"])
                if l.get("k") == "var" and l["n"] in guard_locals and ex.is_const(c["r"], 0):
                    # and the true successor leads to an update
                    t = b.succs[0]
                    return t is not None and any(bb == t for (bb, _, _) in upd_sites)
            return False

        def is_nonfatal_return(b, i, e, states):
            if e.get("k") != "ret":
                return False
            for s in states:
                v = g.aeval(e.get("e"), s)
                if v is None or any(x not in fatal_vals for x in v):
                    return True
            return False

        hits = fd.flagflow(g, is_advance, is_kill, is_nonfatal_return, edge_kill)
        nret = 0
        for b, i, e in cfg.returns(f):
            nret += 1
            bad = [h for h in hits if h[0][0] == b.id and h[1] == i]
            ck.ob("C06-CRC", "%s:return@%s" % (name, ex.show(e)), not bad, common.where(f, e),
                  ("non-fatal `%s` reachable after the position advanced at line %d without "
                   "updating the running crc32" % (ex.show(e), bad[0][3][2])) if bad
                  else "`%s` ok" % ex.show(e),
                  key="CRC:%s:%s" % (name, ex.show(e)))
        # ... and the converse: bytes consumed/produced in a CRC state (the CRC32 field itself) are never hashed: no
        # update site is reachable, within the call, from an advance of the position in such a state
        def is_advance_crc(b, i, e, states, posvar=posvar):
            if not states or not all((g.get(s, "seq") is not None and g.get(s, "seq") <= crc_vals) for s in states):
                return False
            for x in ex.walk(e, into_refs=False):
                k = x.get("k")
                if k == "un" and x["op"] in ex.ASSIGN_UN:
                    t = ex.strip(x["e"])
                    if t.get("k") == "un" and t["op"] == "*" and ex.reads_var(t["e"], posvar):
                        return True
                elif k == "asg":
                    t = ex.strip(x["l"])
                    if t.get("k") == "un" and t["op"] == "*" and ex.reads_var(t["e"], posvar):
                        return True
            return False
        hits2 = fd.flagflow(g, is_advance_crc, lambda b, i, e, st: False,
                            lambda b, i, e, st: (b.id, i) in upd_set)
        ck.ob("C06-CRC", name + ":field-not-hashed", not hits2, common.where(f, hits2[0][2] if hits2 else None),
              "%s: no crc32 update is reachable after the position advanced inside the CRC32 field" % name if not hits2 else
              "%s(): the running crc32 is updated (line %s) on a path on which the position already advanced inside the "
              "CRC32 field (line %d): when a call's buffer ends inside the field, its bytes are hashed into the value they "
              "are compared with / that is being written, so the result depends on where the buffer ends" % (
                  name, ex.line(hits2[0][2]), hits2[0][3][2]), key="CRC:%s:field-not-hashed" % name)
    ck.floor("C06-CRC", 3 * 4, "obligations")


# ---------------------------------------------------------------------------
# C06-DET
NONDET = {"time", "clock", "clock_gettime", "gettimeofday", "rand", "random", "srand",
          "srandom", "getpid", "pthread_self", "getenv", "secure_getenv", "sysconf",
          "sched_getaffinity", "__get_cpuid", "__get_cpuid_count", "getauxval",
          "elf_aux_info", "sysctl", "sysctlbyname", "getrandom", "arc4random"}
DET_ALLOW = {
    ("mythread_condtime_set", "clock_gettime"): "absolute deadline for cond_timedwait only",
    ("mythread_condtime_set", "gettimeofday"): "absolute deadline for cond_timedwait only",
    ("mythread_cond_init", "clock_gettime"): "probe whether CLOCK_MONOTONIC is usable; the time value is discarded",
    ("is_arch_extension_supported", "__get_cpuid"): "CRC implementation choice; both compute the same function (C14)",
    ("lzma_tuklib_physmem", "sysconf"): "public hardware query API, not reachable from coders",
    ("lzma_tuklib_cpucores", "sysconf"): "public hardware query API, not reachable from coders",
    ("lzma_tuklib_cpucores", "sched_getaffinity"): "public hardware query API, not reachable from coders",
}
# the deadline helper may be called only from the two wait functions
CONDTIME_CALLERS = {"wait_for_work", "read_output_and_wait"}


def check_det(ck, prog):
    ck.rule("C06-DET", "no liblzma function calls a nondeterminism source outside the allow-list; "
            "hardware queries are unreachable from any coder `code` function")
    cg = common.callgraph(prog)
    npos = 0
    for f in prog.all_functions("liblzma"):
        for callee in sorted(cg.direct.get(f.key, ())):
            if callee in NONDET:
                ok = (f.name, callee) in DET_ALLOW
                npos += 1
                ck.ob("C06-DET", "%s->%s" % (f.name, callee), ok, common.where(f),
                      "%s calls %s: %s" % (f.name, callee,
                                           DET_ALLOW.get((f.name, callee), "not in the allow-list")),
                      key="DET:%s:%s" % (f.name, callee))
    if npos == 0:
        raise AnalysisBroken("C06-DET positive example (mythread_condtime_set -> clock_gettime) not seen")
    callers = set(cg.callers_of("mythread_condtime_set"))
    callers = {c for c in callers if any(f.target == "liblzma" for f in prog.functions.get(c, []))}
    for c in sorted(callers):
        ck.ob("C06-DET", "condtime-caller:" + c, c in CONDTIME_CALLERS, c,
              "mythread_condtime_set called from %s" % c, key="DET:condtime:" + c)
    # coder code functions must not reach hardware queries / getenv
    roots = {f.name for f in common.code_slot_functions(prog, cg)}
    reach = cg.reach(roots)
    for bad in ("lzma_tuklib_physmem", "lzma_tuklib_cpucores", "lzma_physmem", "lzma_cputhreads",
                "getenv", "time", "rand", "getpid"):
        ck.ob("C06-DET", "unreachable:" + bad, bad not in reach, "call graph",
              "%s %s from the %d `code` slot functions" % (
                  bad, "reachable" if bad in reach else "not reachable", len(roots)),
              key="DET:reach:" + bad)
    ck.floor("C06-DET", 8)


def check_slice(ck, prog):
    """block_decode(): "one side of the Block is complete but the filter chain did not finish" is an error only when the
    other side had room to make progress in this very call -- otherwise the verdict would depend on where the caller's
    buffer ended."""
    ck.rule("C06-SLICE", "size-mismatch errors of the Block decoder are raised only when the other buffer still had room")
    f = prog.fn("block_decode", "block_decoder.c")
    ck.saw_function(f)
    doms = cfg.dominators(f)
    okb = [b for b in f.blocks.values() if b.term and "cond" in b.term and ex.show(b.term["cond"]) == "ret == LZMA_OK"]
    if len(okb) != 1:
        raise AnalysisBroken("block_decode: `ret == LZMA_OK` region not found")
    region = okb[0].succs[0]
    allowed = [{"comp_done", "uncomp_done"}, {"comp_done", "*out_pos < out_size"}, {"uncomp_done", "*in_pos < in_size"}]
    n = 0
    for b in f.blocks.values():
        if region not in doms.get(b.id, ()) and b.id != region:
            continue
        rets = [ex.deref(e) for e in b.elems if e is not None and ex.deref(e).get("k") == "ret"]
        if not rets or ex.show(rets[0].get("e")) != "LZMA_DATA_ERROR":
            continue
        conds = set()
        for d in doms.get(b.id, ()):
            blk = f.blocks[d]
            if d == okb[0].id or not (blk.term and "cond" in blk.term and len(blk.succs) == 2):
                continue
            if region not in doms.get(d, ()) and d != region:
                continue
            t_ = blk.succs[0]
            if t_ is not None and (t_ == b.id or t_ in doms.get(b.id, ())):
                conds.add(ex.show(blk.term["cond"]))
        n += 1
        ck.ob("C06-SLICE", "block_decode:data-error@%d" % n, conds in allowed, common.where(f, rets[0]),
              "block_decode: LZMA_DATA_ERROR at line %s is raised under %s" % (ex.line(rets[0]), sorted(conds))
              if conds in allowed else
              "block_decode(): LZMA_DATA_ERROR at line %s is raised under %s only: when the caller's other buffer is "
              "full/empty at that moment a valid Block is rejected, i.e. the result depends on buffer slicing" % (
                  ex.line(rets[0]), sorted(conds)), key="SLICE:block_decode:%s" % "+".join(sorted(conds)))
    if n != 3:
        raise AnalysisBroken("block_decode: expected 3 size-mismatch returns, found %d" % n)


def check_seqlabel(ck, prog, rule="C06-SEQLABEL", targets=(("lzma_decode", "lzma_decoder.c"),), floor=20):
    """In the resumable LZMA decoder every suspension point stores the state to resume in and jumps to the epilogue
    (`rc_normalize_safe(SEQ_X)`: `coder->sequence = SEQ_X; goto out;`).  The next call enters at `case SEQ_X:`; the
    suspension therefore has to sit under that very label (reachable from it without passing another case label) --
    otherwise the decoder resumes at a different symbol step, re-decodes a bit that was already consumed, and the result
    depends on where the input was cut."""
    from sa import resume
    ck.rule(rule, "each suspension point of the resumable LZMA decoder stores the state whose case label it sits under")
    n = 0
    for fn, file in targets:
        f = prog.fn(fn, file)
        ck.saw_function(f)
        sw = resume.Resume(prog, f).find_switch()
        if not sw:
            raise AnalysisBroken("%s: state switch not found" % fn)
        swb = sw[0]
        labels = {}
        for s_ in swb.succs:
            if s_ is not None:
                lb = f.blocks[s_].label
                if lb and lb.get("n"):
                    labels.setdefault(s_, set()).add(lb["n"])
        # `case A: case B:` -- the empty block of A falls into the block of B: A labels B's block as well
        changed = True
        while changed:
            changed = False
            for bid in list(labels):
                blk = f.blocks[bid]
                succ = [y for y in blk.succs if y is not None]
                if not [e for e in blk.elems if e is not None] and len(succ) == 1 and succ[0] in labels:
                    if not labels[bid] <= labels[succ[0]]:
                        labels[succ[0]] |= labels[bid]
                        changed = True
        lab_blocks = set(labels)

        def region(start):
            seen, st = set(), [start]
            while st:
                x = st.pop()
                if x in seen:
                    continue
                seen.add(x)
                for y in f.blocks[x].succs:
                    if y is None or y == swb.id:
                        continue
                    if y in lab_blocks and not (not [e for e in f.blocks[x].elems if e is not None] and x in lab_blocks):
                        continue
                    st.append(y)
            return seen
        reach = {lbk: region(lbk) for lbk in lab_blocks}
        for b, i, e in f.iter_elems():
            for (l, r, op, node) in ex.writes(e):
                if not (ex.show(l).endswith("->sequence") and op == "=" and r is not None and ex.strip(r).get("k") == "enum"):
                    continue
                Y = ex.strip(r)["n"]
                # a suspension: the exit is reachable without passing a case label or the switch
                seen, st, susp = set(), [b.id], False
                while st:
                    x = st.pop()
                    if x in seen:
                        continue
                    seen.add(x)
                    if x == f.exit:
                        susp = True
                        break
                    st.extend(y for y in f.blocks[x].succs if y is not None and y not in lab_blocks and y != swb.id)
                if not susp:
                    continue
                L = set()
                for lbk, rs in reach.items():
                    if b.id in rs:
                        L |= labels[lbk]
                n += 1
                ck.ob(rule, "%s:%s:%s" % (fn, Y, ex.line(node)), Y in L or not L, common.where(f, node),
                      "%s: suspension storing %s lies under case %s" % (fn, Y, "/".join(sorted(L))) if (Y in L or not L) else
                      "%s(): the suspension at line %s stores coder->sequence = %s but lies under `case %s:`: after the input "
                      "runs out here the next call resumes at %s and repeats / skips a decoding step, so the result depends "
                      "on where the input was cut" % (fn, ex.line(node), Y, "/".join(sorted(L)), Y),
                      key="%s:%s:%s" % (rule.split("-", 1)[1], fn, Y if Y in L or not L else "%s-under-%s" % (Y, "/".join(sorted(L)))))
    ck.floor(rule, floor, what="obligations")
    return n


def check_outguard(ck, prog, rule="C06-OUTGUARD"):
    """The state loop of a resumable DECODER must not be conditioned on free output space when some of its states make
    progress without writing output (header bytes, end markers): with `while (*out_pos < out_size && ...)` a call made
    with a full output buffer does not look at the input at all, so whether the end of the stream is recognised depends
    on whether the last input bytes arrived together with the last output byte -- the same file gives LZMA_STREAM_END
    in one slicing and LZMA_BUF_ERROR in another."""
    from sa import resume
    ck.rule(rule, "a decoder's state loop is not guarded by output space if some state needs none")
    n = 0
    for f in sorted(prog.all_functions("liblzma"), key=lambda f: (f.file, f.line)):
        if not f.blocks or "decoder" not in f.file.rsplit("/", 1)[-1] and not f.name.endswith("_decode"):
            continue
        try:
            sw = resume.Resume(prog, f).find_switch()
        except Exception:
            sw = None
        if not sw:
            continue
        swb = sw[0]
        n += 1
        doms = cfg.dominators(f)
        guards = [f.blocks[d] for d in doms.get(swb.id, ()) if f.blocks[d].term and "cond" in f.blocks[d].term and
                  f.blocks[d].term.get("kind") in ("WhileStmt", "ForStmt", "BinaryOperator") and
                  "out_pos" in ex.show(f.blocks[d].term["cond"]) and swb.id in cfg.reachable(f, [swb.id]) ]
        guards = [g_ for g_ in guards if g_.id in cfg.reachable(f, [y for y in swb.succs if y is not None])]   # loop heads
        noout = []
        if guards:
            labels = {}
            for s_ in swb.succs:
                if s_ is not None and f.blocks[s_].label and f.blocks[s_].label.get("n"):
                    labels[s_] = f.blocks[s_].label["n"]
            lab = set(labels)
            for l in lab:
                seen, st, uses = set(), [l], False
                while st:
                    x = st.pop()
                    if x in seen:
                        continue
                    seen.add(x)
                    for e in f.blocks[x].elems:
                        if e is None:
                            continue
                        if any(any(ex.show(a) in ("out", "out_pos") for a in c["args"]) for c in ex.calls(e, into_refs=False)):
                            uses = True
                        if any(ex.show(l2).startswith("out[") for (l2, r2, o2, n2) in ex.writes(e)):
                            uses = True
                    st.extend(y for y in f.blocks[x].succs if y is not None and y != swb.id and y not in lab)
                if not uses:
                    noout.append(labels[l])
        ck.saw_function(f)
        ok = not (guards and noout)
        ck.ob(rule, f.name, ok, common.where(f, guards[0].term["cond"] if guards else None),
              "%s: %s" % (f.name, "state loop not guarded by output space" if not guards else
                          "every state writes output") if ok else
              "%s(): the state loop runs only while `%s`, but the states %s need no output space: with a full output buffer "
              "the input is not looked at, so e.g. a stream decoded into a buffer of exactly its uncompressed size ends with "
              "LZMA_STREAM_END if the end marker arrived in the same call and with LZMA_BUF_ERROR if it arrives in the next one"
              % (f.name, ex.show(guards[0].term["cond"]), ", ".join(sorted(noout))), key="%s:%s" % (rule.split("-", 1)[1], f.name))
    ck.floor(rule, 8)
    return n


def refresh_counters(prog, files=("lzma_encoder_optimum_normal.c", "lzma_encoder_optimum_fast.c", "lzma_encoder.c")):
    """Members used as `coder->M >= K` guarding a call of a function that recomputes a table and stores M = 0:
    the table is valid only while M has been zeroed by that function since the last reset."""
    out = {}
    for base in files:
        for f in prog.fns_in(base):
            for bid, blk in f.blocks.items():
                t = blk.term
                if not t or "cond" not in t or len(blk.succs) != 2 or blk.succs[0] is None:
                    continue
                c = ex.strip(t["cond"])
                if c is None or c.get("k") != "bin" or c["op"] not in (">=", ">"):
                    continue
                l = ex.strip(c["l"])
                if l is None or l.get("k") != "mem":
                    continue
                tb = f.blocks.get(blk.succs[0])
                if tb is None:
                    continue
                for e in tb.elems:
                    for cc in ex.calls(e, into_refs=False):
                        for g in prog.functions.get(cc.get("fn") or "", []):
                            if not g.blocks:
                                continue
                            for b2, i2, e2 in g.iter_elems():
                                for (ll, rr, op, node) in ex.writes(e2):
                                    ls = ex.strip(ll)
                                    if ls is not None and ls.get("k") == "mem" and ls["f"] == l["f"] and op == "=" \
                                            and ex.is_const(rr, 0):
                                        out[l["f"]] = (f, t, g.name)
    return out


def check_end_input(ck, prog, rule="C06-ENDIN"):
    """MicroLZMA has no end marker and no size fields: where the stream ends in the INPUT is known only from the
    comp_size argument.  For "the total number of input bytes consumed does not depend on the slicing" every way of
    reporting LZMA_STREAM_END has to be tied to coder->comp_size (the exact-size mode does that: STREAM_END with
    comp_size != 0 becomes LZMA_DATA_ERROR).  A STREAM_END decided from the OUTPUT count alone leaves the input position
    wherever the range decoder happened to be, which depends on how much input each call offered."""
    from sa import guard
    ck.rule(rule, "microlzma_decode: every path that ends with LZMA_STREAM_END passes a test of coder->comp_size")
    f = prog.fn("microlzma_decode", "microlzma_decoder.c")
    ck.saw_function(f)
    cg = common.callgraph(prog)
    rs = common.retsets(prog)
    rets = common.lzma_ret(prog)
    kret = fd.Key("var", "ret", domain=rets.values(), label="ret")
    g = fd.FD(prog, f, [kret, fd.Key("retval", "$ret", label="$ret")], cg=cg, call_values=lambda c, s_: rs.call_set(c, f))
    from sa import machine
    g.run([g.make_state(**{"$ret": [machine.NO_RETURN_YET]})])
    END = rets["LZMA_STREAM_END"]
    calls = [b.id for b, i, e in f.iter_elems() for c in ex.calls(e, into_refs=False)
             if c.get("callee") is not None and "code" in ex.show(c["callee"]) and len(c.get("args", ())) == 9]
    if not calls:
        raise AnalysisBroken("microlzma_decode: call of the LZMA decoder not found")
    tests = {b.id for b in f.blocks.values() if b.term and "cond" in b.term and
             any(x.get("k") == "mem" and x["f"] == "comp_size" for x in ex.walk(b.term["cond"]))}
    if not tests:
        raise AnalysisBroken("microlzma_decode: no test of coder->comp_size found")
    last = max(calls, key=lambda bid: f.blocks[bid].elems and ex.line(f.blocks[bid].elems[0]) or 0)
    after = cfg.reachable(f, [y for y in f.blocks[last].succs if y is not None])
    modes = [b for b in f.blocks.values() if (b.id in after or b.id == last) and b.term and "cond" in b.term and len(b.succs) == 2 and
             ex.show(ex.strip(b.term["cond"])).endswith("uncomp_size_is_exact")]
    if len(modes) != 1:
        raise AnalysisBroken("microlzma_decode: the branch on coder->uncomp_size_is_exact after the LZMA decoder call was not found")

    def at_end(nd):
        if nd[0] != f.exit:
            return None
        v = g.get(nd[1], "$ret")
        return "LZMA_STREAM_END" if v is None or END in v else None
    for mode, succ in (("exact", modes[0].succs[0]), ("inexact", modes[0].succs[1])):
        src = [nd for nd in g.nodes if nd[0] == succ]
        path, hit = guard.cut_reach(g, src, set(), at_end, cut_blocks=tests)
        where_ = None
        if path:
            for nd in path:
                for e in f.blocks[nd[0]].elems:
                    if e is not None and "LZMA_STREAM_END" in ex.show(e):
                        where_ = e
        ck.ob(rule, "microlzma_decode:" + mode, path is None, common.where(f, where_),
              "microlzma_decode (%s size): LZMA_STREAM_END is reported only after a test of coder->comp_size" % mode if path is None else
              "microlzma_decode(): with uncomp_size_is_exact %s LZMA_STREAM_END is reported on a path (blocks %s) that never "
              "tests coder->comp_size: the stream ends when the declared number of OUTPUT bytes exists, and the number of input "
              "bytes consumed at that moment (strm->total_in) depends on how the input was sliced" % (
                  "true" if mode == "exact" else "== false", " -> ".join(str(nd[0]) for nd in path[:12])),
              key="ENDIN:microlzma_decode:" + mode)


def check_bcj_canon(ck, prog, rule="C06-BCJCANON"):
    """lzma_str_to_filters() always allocates a zeroed lzma_options_bcj for a BCJ filter while a chain given as structures
    (or read back from a Block Header) uses options == NULL for the same thing.  Both forms yield the same bytes only if the
    Filter Properties encoder treats start_offset == 0 like a missing structure: in lzma_simple_props_size() and
    lzma_simple_props_encode() there is a test of start_offset whose zero side reaches neither the size 4 nor the write."""
    ck.rule(rule, "BCJ Filter Properties: start_offset == 0 is encoded like options == NULL (no properties)")
    for nm, what in (("lzma_simple_props_size", "const4"), ("lzma_simple_props_encode", "write")):
        f = prog.fn(nm, "simple_encoder.c")
        ck.saw_function(f)

        def forbidden(bid):
            for e in f.blocks[bid].elems:
                if e is None:
                    continue
                d = ex.deref(e)
                if what == "const4" and d.get("k") == "const" and d.get("v") == 4:
                    return True
                if what == "write" and any((c.get("fn") or "").startswith("write32") or c.get("fn") == "memcpy"
                                           for c in ex.calls(e, into_refs=False)):
                    return True
            return False
        if not any(forbidden(b) for b in f.blocks):
            raise AnalysisBroken("%s: the non-empty properties case was not found" % nm)
        tests = []
        for b in f.blocks.values():
            c = ex.strip(b.term["cond"]) if b.term and "cond" in b.term else None
            if c is None or len(b.succs) != 2 or "start_offset" not in ex.show(c):
                continue
            neg = False
            while c.get("k") in ("un", "paren"):
                if c.get("k") == "un" and c["op"] == "!":
                    neg = not neg
                elif c.get("k") == "un":
                    break
                c = ex.strip(c["e"])
            if c.get("k") == "bin" and c["op"] in ("==", "!=") and (ex.is_const(c["l"], 0) or ex.is_const(c["r"], 0)):
                zero_true = (c["op"] == "==") != neg
            elif c.get("k") == "mem":
                zero_true = neg
            else:
                continue
            tests.append((b.id, b.succs[0] if zero_true else b.succs[1]))
        bad = None
        if not tests:
            bad = "there is no test of start_offset against zero"
        for tb, z in tests:
            seen, st = set(), [z]
            while st:
                x = st.pop()
                if x is None or x in seen:
                    continue
                seen.add(x)
                if forbidden(x):
                    bad = "the zero side of the test of start_offset reaches the non-empty properties case"
                    break
                st.extend(f.blocks[x].succs)
        ck.ob(rule, nm, bad is None, common.where(f),
              "%s: start_offset == 0 takes the same path as options == NULL" % nm if bad is None else
              "%s(): %s: a BCJ filter parsed from a filter string (zeroed options structure) gets a 4-byte Filter Properties "
              "field while the same chain given with options == NULL gets none, so the same data and options encode to "
              "different bytes" % (nm, bad), key="BCJCANON:%s" % nm)
    ck.floor(rule, 2)


def check_strmap(ck, prog, rule="C06-STRMAP"):
    """lzma_str_from_filters(LZMA_STR_ENCODER) prints the first strfy_encoder entries of a filter's option map, and
    lzma_str_to_filters() parses any entry of the map: the textual form carries the whole structure (so that encoding
    from the structure and from its text give the same bytes) only if strfy_encoder covers the whole map; the decoder
    form prints a prefix of it."""
    ck.rule(rule, "string_conversion.c: for every filter strfy_encoder equals the length of its option map and "
            "strfy_decoder <= strfy_encoder")
    g = prog.globals.get("filter_name_map")
    if not g:
        raise AnalysisBroken("filter_name_map not found")
    n = ex.strip(g[0].get("init"))
    if n is None or n.get("k") != "init":
        raise AnalysisBroken("filter_name_map has no initialiser list")
    cnt = 0
    for e in n["e"]:
        e = ex.strip(e)
        if e is None or e.get("k") != "init" or not e.get("fields"):
            continue
        ent = dict(zip(e["fields"], e["e"]))
        nm = ex.show(ex.strip(ent["name"])).strip('"')
        om = ex.strip(ent["optmap"])
        omn = om.get("n") if om is not None and om.get("k") == "var" else None
        og = prog.globals.get(omn) if omn else None
        if not og:
            raise AnalysisBroken("filter_name_map[%s]: option map not resolved" % nm)
        oi = ex.strip(og[0].get("init"))
        size = len(oi["e"]) if oi is not None and oi.get("k") == "init" else None
        se, sd = ex.const_val(ent["strfy_encoder"]), ex.const_val(ent["strfy_decoder"])
        cnt += 1
        ok = size is not None and se == size and sd is not None and sd <= se
        ck.ob(rule, nm, ok, "src/liblzma/common/string_conversion.c:%s" % (ex.line(e) or 0),
              "%s: %s has %s entries, strfy_encoder=%s, strfy_decoder=%s" % (nm, omn, size, se, sd) if ok else
              "filter_name_map[\"%s\"]: the option map %s has %s entries but strfy_encoder is %s (strfy_decoder %s): "
              "lzma_str_from_filters(LZMA_STR_ENCODER) leaves out the last option(s), so a chain converted to text and parsed "
              "back differs from the original structure and encodes to different bytes" % (nm, omn, size, se, sd),
              key="STRMAP:%s" % nm)
    ck.floor(rule, 10)
    return cnt


def check_encreset(ck, prog, rule):
    """The price tables of the LZMA encoder are caches of the probabilities; they are recomputed when the matching
    price count reaches a threshold.  A state reset re-initialises the probabilities, so it must also make the
    price counts reach the threshold: otherwise the first symbols after the reset are priced with tables computed
    from the previous chunk/session and the output depends on history."""
    from . import reinit
    ck.rule(rule, "lzma_lzma_encoder_reset() stores to every counter that triggers the recomputation of a price table")
    rc = refresh_counters(prog)
    if len(rc) < 2:
        raise AnalysisBroken("refresh counters of the LZMA encoder not found (%s)" % sorted(rc))
    reinit.check_reset_cover(ck, prog, rule, [
        ("lzma_lzma_encoder_reset", "lzma_encoder.c", "lzma_lzma1_encoder_s",
         ("lzma_lzma_encoder_create", "lzma_encoder_init", "lzma_lzma_encoder_init"), {}),
    ], only=set(rc))
    ck.floor(rule, 2)


def run(ck):
    ck.explanation = (
        "Static necessary conditions of slicing independence: (RESUME) liveness/reaching-definition "
        "analysis of every resumable coder function proving that each local which can carry a value "
        "across a suspension has a restore/save pair with coder state; (CRC) product-graph dataflow "
        "showing the running CRC32 of the Index codecs is updated on every non-fatal return after "
        "input/output was consumed in a hashed state; (DET) call-graph rule: no nondeterminism source "
        "is reachable from coder code.")
    ck.not_decided = ("equality of output across slicings in general (arithmetic state), independence "
                      "from thread count and timeouts, filter-string vs struct chains.")
    prog = common.program(ck, ("liblzma",))
    check_resume(ck, prog)
    check_seqlabel(ck, prog)
    check_outguard(ck, prog)
    from . import C15
    ck.rule("C06-BCJEND", "the BCJ wrapper consults end_was_reached after draining its buffer and before asking the next coder for more")
    C15.check_end_after_drain(ck, prog, rule="C06-BCJEND")
    C15.check_compact(ck, prog, rule="C06-BCJEND")
    C15.check_eof_needs_input(ck, prog, rule="C06-BCJEND")
    check_crc(ck, prog)
    check_det(ck, prog)
    check_slice(ck, prog)
    # a re-used coder must behave like a fresh one ("the same data with the same options always yields identical bytes",
    # "the same final status"): no session member may keep a value from the previous use on some init paths only
    # an encoder that reports the end of its output before its last state has run produces output whose length depends
    # on where the caller's buffer happened to end
    from .oblig import MP, evaluate
    ck.rule("C06-END", "LZMA_STREAM_END is returned only from the final state of the resumable encoders")
    evaluate(ck, prog, "C06-END", [
        MP("index_encode", "index_encode", "index_encoder.c", [("test", "field:pos&const:4", "F")],
           ("ret", ("LZMA_STREAM_END",)),
           why="the Index encoder ends only after the fourth CRC32 byte was written (a VLI field ending exactly at the "
               "end of the output buffer must not end the Index)"),
        MP("block_encode", "block_encode", "block_encoder.c", [("test", "field:pos&call:lzma_check_size", "F")],
           ("ret", ("LZMA_STREAM_END",)), bypass=[("cmp", "field:check", "enum:LZMA_CHECK_NONE"), ("cmp", "var:action", "enum:LZMA_SYNC_FLUSH")],
           why="the Block encoder ends only after the whole Check field was copied out (or there is no Check, or a "
               "sync flush completed)"),
    ], floor=2)
    from . import reinit
    ck.rule("C06-INITCONS", "a coder member that the init function (re)initialises on some paths and that coding "
                            "modifies is initialised on every path returning LZMA_OK")
    reinit.check_init_consistency(ck, prog, "C06-INITCONS", skip_files=("stream_encoder_mt.c", "stream_decoder_mt.c"))
    ck.floor("C06-INITCONS", 40)
    from . import C13
    C13.check_provenance(ck, prog, None, table=[
        ("mf:keep-after", "liblzma", "lz_encoder_prepare", "lz_encoder.c", "keep_size_after",
         [("lzma_lz_options", "after_size"), ("lzma_lz_options", "match_len_max")], [("lzma_lz_options", "nice_len")],
         "match finders read up to match_len_max bytes ahead of read_pos: that many bytes (plus what the encoder asks "
         "for) must stay in the window after every move, whatever chunking filled it"),
        ("mf:keep-before", "liblzma", "lz_encoder_prepare", "lz_encoder.c", "keep_size_before",
         [("lzma_lz_options", "before_size"), ("lzma_lz_options", "dict_size")], [],
         "the whole dictionary stays addressable behind read_pos after a window move"),
    ], rule="C06-PROV", floor=2)
    check_encreset(ck, prog, "C06-ENCRESET")
    check_end_input(ck, prog)
    check_strmap(ck, prog)
    check_bcj_canon(ck, prog)
    # the file info decoder is re-entered after LZMA_SEEK_NEEDED like any other coder after a short buffer: its position
    # bookkeeping must not be applied twice (rule shared with C13)
    from . import C13 as _C13
    _C13.check_seek_state(ck, prog, rule="C06-SEEKSTATE")
    # pending output of an LZMA2 chunk is produced by the next call whether or not that call brings input (C11)
    from . import C11 as _C11
    _C11.check_no_input_progress(ck, prog, rule="C06-NOINPUT")
    # the Check value does not depend on how update() calls slice the data (C14 rules)
    from . import C14 as _C14
    _C14.check_sha(ck, prog)
    _C14.check_datapath(ck, prog)
    from . import C01 as _C01
    _C01.check_emit_state(ck, prog, "C06-EMITSTATE")
    ck.rule("C06-APPLY", "an amount measured in this call (bytes used, padding found) is applied to the persistent member "
                         "it updates on every way out that the caller continues from")
    reinit.check_local_applied(ck, prog, "C06-APPLY")
    ck.floor("C06-APPLY", 9)
    ck.rule("C06-READFIRST", "what the coding function can read before storing to it is stored by the init function on every path returning LZMA_OK")
    reinit.check_read_first(ck, prog, "C06-READFIRST")
    ck.floor("C06-READFIRST", 90)
    ck.rule("C06-INITONCE", "a nested coder initialised in a state of a resumable function is not initialised again on "
                            "re-entry: coder->sequence is advanced before any non-fatal return")
    reinit.check_init_once(ck, prog, "C06-INITONCE")
    ck.floor("C06-INITONCE", 10)
    ck.rule("C06-ACCUM", "a member that a resumable state tests and stores to while it can be re-entered is updated from "
                         "its old value, not only from what the current call saw")
    reinit.check_accumulators(ck, prog, "C06-ACCUM")
