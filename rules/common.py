"""Shared helpers for the per-property rule modules."""
import os, shutil, subprocess, tempfile

from sa import facts, ex, cfg
from sa.callgraph import CallGraph
from sa.compdb import AnalysisBroken, REPO
from sa.facts import relpath

_cache = {}


def program(ck, targets=("liblzma",), config="default", extra_flags=None, files=None):
    alt = os.environ.get("XZ_VERIF_CONFIG")
    if alt and config == "default":
        # thorough tier: the same rules on an alternate preprocessor configuration  name:flag,flag
        config, _, fl = alt.partition(":")
        extra_flags = list(extra_flags or []) + [x for x in fl.split(",") if x]
    key = (tuple(sorted(targets)), config, tuple(files or ()))
    if key not in _cache:
        _cache[key] = facts.extract(targets=set(targets), extra_flags=extra_flags,
                                    config=config, files=files)
    p = _cache[key]
    ck.use_program(p)
    return p


_cg = {}


def callgraph(prog):
    if id(prog) not in _cg:
        _cg[id(prog)] = CallGraph(prog)
    return _cg[id(prog)]


_rs = {}


def retsets(prog):
    from sa.retset import RetSets
    if id(prog) not in _rs:
        _rs[id(prog)] = RetSets(prog, callgraph(prog))
    return _rs[id(prog)]


def where(fn, node_or_line=None):
    ln = fn.line
    if isinstance(node_or_line, int):
        ln = node_or_line or fn.line
    elif node_or_line is not None:
        ln = ex.line(node_or_line) or fn.line
    return "%s:%d" % (relpath(fn.file), ln)


def code_slot_functions(prog, cg=None):
    """Functions stored in any `code` slot (lzma_next_coder, lz encoder/decoder)."""
    cg = cg or callgraph(prog)
    names = set()
    for (rec, field), fns in cg.slots.items():
        if field == "code" and rec != "*":
            names |= fns
    out = []
    for n in sorted(names):
        for f in prog.functions.get(n, []):
            out.append(f)
    return out


def enum_names(prog, enum_name):
    e = prog.enum(enum_name)
    return {v: k for k, v in e.items()}


LZMA_RET = None


def lzma_ret(prog):
    return prog.enum("lzma_ret")


def state_enum_of_switch(prog, fn, swb):
    """Enumerator dict of the enum that types the state switch's cases."""
    names = []
    for s in swb.succs:
        if s is None:
            continue
        lb = fn.blocks[s].label
        if lb and lb.get("n"):
            names.append(lb["n"])
    if not names:
        return None
    return prog.enum_with(names[0], fn.file)


def src_text(path, l0, l1):
    with open(path, errors="replace") as fh:
        lines = fh.readlines()
    return "".join(lines[l0 - 1:l1])
