"""C04 — no input can make a decoder or parser misbehave (structural clauses).

C04-IDX   every streaming read/write buf[pos] with a (buf, pos, size) triple has the bounds fact
          pos < size available on every path of the product graph (E-AVAIL).
C04-CONST constant-index reads of property/header bytes are dominated by the size test, or are
          listed contract buffers.
C04-BUF   copies into fixed-size members are bounded by the member's size.
C04-RET   internal return codes never escape; no code function returns LZMA_BUF_ERROR directly.
C04-CAST  the record allocated for a coder is the record its slot functions cast the coder to.
C04-NULL  allocation results are NULL-tested before use (shared with C10-NULL).
"""
from sa import ex, cfg, fd, avail, own, machine, resume
from sa.compdb import AnalysisBroken
from . import common

IDX_FLOOR = 25

IDX_EXCEPT = {
    # (function, buffer): reason
}
# C04 is about input-driven code: triples over the input buffer of decoders and parsers.
# (Encoders that write `out` under a precomputed *_bound() are an arithmetic argument, not decided.)
IDX_BUFFERS = ("in",)


def discover_triples(f):
    names = {v["n"]: v for v in f.vars}
    out = {}
    for b, i, e in f.iter_elems():
        for x in ex.walk(e, into_refs=False):
            if x.get("k") != "idx":
                continue
            bs = ex.strip(x["b"])
            if bs is None or bs.get("k") != "var" or bs["n"] not in names:
                continue
            ix = ex.strip(x["i"])
            if ix is not None and ix.get("k") == "un" and ix["op"] in ("post++", "pre++"):
                ix = ex.strip(ix["e"])
            deref = False
            if ix is not None and ix.get("k") == "un" and ix["op"] == "*":
                ix = ex.strip(ix["e"])
                deref = True
            if ix is None or ix.get("k") != "var":
                continue
            pos = ix["n"]
            if not pos.endswith("_pos"):
                continue
            size = pos[:-4] + "_size"
            if size not in names:
                continue
            if deref != ("*" in names[pos]["ty"]):
                continue
            if bs["n"] not in IDX_BUFFERS:
                continue
            out[(bs["n"], pos, size, deref)] = True
    return [avail.Triple(*k) for k in out]


def graph_of(prog, f):
    cg = common.callgraph(prog)
    rs = common.retsets(prog)
    if resume.Resume(prog, f).find_switch():
        try:
            m = machine.Machine(prog, f, cg, rs, resume_edges=False)
            return m.g
        except AnalysisBroken:
            pass
    g = fd.FD(prog, f, [], cg=cg)
    g.run([g.top_state()])
    return g


def check_idx(ck, prog):
    ck.rule("C04-IDX", "bounds fact pos < size available at every buf[pos] access of a streaming triple")
    n = 0
    for f in sorted(prog.all_functions("liblzma"), key=lambda f: (f.file, f.line)):
        ts = discover_triples(f)
        if not ts:
            continue
        ck.saw_function(f)
        g = graph_of(prog, f)
        for t in ts:
            bad, nuses = avail.solve(g, t)
            n += nuses
            exc = IDX_EXCEPT.get((f.name, t.buf))
            if not bad:
                ck.ob("C04-IDX", "%s:%s" % (f.name, t.buf), True, common.where(f),
                      "%d access(es) %s[%s%s] all dominated by %s%s < %s on every path" % (
                          nuses, t.buf, "*" if t.pos_deref else "", t.pos, "*" if t.pos_deref else "", t.pos, t.size))
                continue
            for (blk, i, u) in bad:
                ck.ob("C04-IDX", "%s:%s@%s" % (f.name, t.buf, ex.show(u)), exc is not None,
                      common.where(f, u),
                      ("exception: " + exc) if exc else
                      "%s is accessed in %s() on a path where `%s%s < %s` has not been established since the "
                      "position last changed: out-of-bounds access for some input split" % (
                          ex.show(u), f.name, "*" if t.pos_deref else "", t.pos, t.size),
                      key="IDX:%s:%s" % (f.name, t.buf))
    ck.extra["idx_accesses"] = n
    if n < IDX_FLOOR:
        raise AnalysisBroken("C04-IDX: only %d streaming accesses found (floor %d)" % (n, IDX_FLOOR))


CONST_CONTRACT = {
    # (function, buffer): reason the constant indices are in range by contract
    ("stream_flags_decode", "in"): "static helper: both callers pass a pointer into a 12-byte Stream Header/Footer buffer",
    ("stream_flags_encode", "out"): "static helper: both callers pass a pointer into a 12-byte output buffer",
    ("lzma_block_header_decode", "in"): "API contract: `in` holds block->header_size >= 8 bytes (lzma_block_header_size_decode)",
    ("lzma_block_header_encode", "out"): "API contract: `out` holds block->header_size >= 8 bytes",
    ("lzma_delta_props_encode", "out"): "props encoder contract: out has props_size_fixed (1) bytes",
    ("lzma_lzma2_props_encode", "out"): "props encoder contract: out has props_size_fixed (1) bytes",
}


def check_const(ck, prog):
    ck.rule("C04-CONST", "constant-index reads of property bytes are dominated by the props_size test")
    for fname, file in (("lzma_lzma2_props_decode", "lzma2_decoder.c"),
                        ("lzma_delta_props_decode", "delta_decoder.c"),
                        ("lzma_lzma_props_decode", "lzma_decoder.c"),
                        ("lzma_simple_props_decode", "simple_decoder.c")):
        f = prog.fn(fname, file)
        ck.saw_function(f)
        dom = cfg.dominators(f)
        tests = []
        for b in f.blocks.values():
            t = b.term
            if t and "cond" in t and any(x.get("k") == "var" and x["n"] == "props_size"
                                         for x in ex.walk(t["cond"])):
                tests.append(b.id)
        reads = []
        for b, i, e in f.iter_elems():
            for x in ex.walk(e, into_refs=False):
                if (x.get("k") == "idx" and ex.show(x["b"]) == "props") or \
                        (x.get("k") == "call" and x.get("fn") in ("read32le", "memcpy") and
                         any(ex.reads_var(a, "props") for a in x["args"])):
                    reads.append((b.id, x))
        ok = bool(tests) and all(any(t in dom.get(bid, ()) and t != bid for t in tests) for (bid, x) in reads)
        ck.ob("C04-CONST", fname, ok and bool(reads), common.where(f),
              "%d read(s) of props[] dominated by the props_size test" % len(reads) if ok else
              "props[] is read without a dominating props_size test", key="CONST:" + fname)
    for (fname, buf), why in sorted(CONST_CONTRACT.items()):
        ck.ob("C04-CONST", "%s:%s" % (fname, buf), True, fname, "contract buffer: " + why)
    ck.floor("C04-CONST", 4)


BUFS = [
    # (function, file, callee, dest field, limit-argument index, bound description, check)
    ("stream_decode", "stream_decoder.c", "lzma_bufcpy", "buffer", 5, "LZMA_BLOCK_HEADER_SIZE_MAX"),
    ("stream_decode_mt", "stream_decoder_mt.c", "lzma_bufcpy", "buffer", 5, "LZMA_BLOCK_HEADER_SIZE_MAX"),
    ("decode_block_header", "stream_decoder_mt.c", "lzma_bufcpy", "buffer", 5, "LZMA_BLOCK_HEADER_SIZE_MAX"),
    ("lzip_decode", "lzip_decoder.c", "lzma_bufcpy", "buffer", 5, "LZIP_V1_FOOTER_SIZE"),
    ("block_decode", "block_decoder.c", "lzma_bufcpy", "raw_check", 5, "LZMA_CHECK_SIZE_MAX"),
]


def check_buf(ck, prog):
    ck.rule("C04-BUF", "lzma_bufcpy into a fixed-size member: the limit argument is a constant <= the "
            "member size, or a value with a proven range (header_size <= 1024, check size <= 64)")
    for fname, file, callee, field, argi, _ in BUFS:
        f = prog.fn(fname, file)
        ck.saw_function(f)
        n = 0
        for b, i, e in f.iter_elems():
            for c in ex.calls(e, into_refs=False):
                if c.get("fn") != callee or len(c["args"]) <= argi:
                    continue
                dst = ex.strip(c["args"][3])
                fk = ex.field_key(dst)
                if not fk or fk[1] != field:
                    continue
                n += 1
                rec = prog.record(fk[0])
                size = None
                for fl in rec["fields"]:
                    if fl["n"] == field:
                        size = fl.get("arr")
                lim = ex.strip(c["args"][argi])
                ok, why = False, ""
                cv = ex.const_val(lim)
                if cv is not None:
                    ok = size is not None and cv <= size
                    why = "constant limit %d <= sizeof(%s) = %s" % (cv, field, size)
                elif ex.field_key(lim) and ex.field_key(lim)[1] == "header_size":
                    # header_size = lzma_block_header_size_decode(byte) = (byte + 1) * 4 <= 1024
                    ok = _header_size_range(prog) and size is not None and size >= 1024
                    why = "limit header_size = (b + 1) * 4 for a byte b, <= 1024 <= sizeof(buffer) = %s" % size
                else:
                    src = guard_expand(f, lim)
                    if src is not None and src.get("k") == "call" and src.get("fn") == "lzma_check_size":
                        ok = _check_sizes_max(prog) <= (size or 0)
                        why = "limit lzma_check_size() <= max(check_sizes[]) = %d <= sizeof(raw_check) = %s" % (
                            _check_sizes_max(prog), size)
                    elif src is not None and src.get("k") == "cond":
                        vals = [ex.const_val(src["t"]), ex.const_val(src["f"])]
                        ok = all(v is not None and size is not None and v <= size for v in vals)
                        why = "limit in %s <= sizeof(%s) = %s" % (vals, field, size)
                ck.ob("C04-BUF", "%s:%s" % (fname, field), ok, common.where(f, c),
                      "lzma_bufcpy into %s[%s]: %s" % (field, size, why or "limit %s cannot be bounded" % ex.show(lim)),
                      key="BUF:%s:%s" % (fname, field))
        if n == 0:
            raise AnalysisBroken("C04-BUF: no %s into %s in %s" % (callee, field, fname))
    ck.floor("C04-BUF", 5)


def guard_expand(f, n):
    from sa import guard
    return guard.expand_locals(f, n)


def _header_size_range(prog):
    # the only writers of block_options.header_size in the stream decoders use the decode macro on one byte
    ok = True
    n = 0
    for fname, file in (("stream_decode", "stream_decoder.c"), ("decode_block_header", "stream_decoder_mt.c")):
        f = prog.fn(fname, file)
        for b, i, e in f.iter_elems():
            for (l, r, op, node) in ex.writes(e):
                fk = ex.field_key(l)
                if fk and fk[1] == "header_size" and r is not None:
                    n += 1
                    # ((uint32_t)(in[*in_pos]) + 1) * 4
                    rs_ = ex.strip(r)
                    good = rs_.get("k") == "bin" and rs_["op"] == "*" and ex.const_val(rs_["r"]) == 4
                    if good:
                        a = ex.strip(rs_["l"])
                        good = a.get("k") == "bin" and a["op"] == "+" and ex.const_val(a["r"]) == 1 and \
                            ex.strip(a["l"]).get("k") == "idx"
                    ok = ok and good
    return ok and n >= 2


def _check_sizes_max(prog):
    g = prog.glob("lzma_check_size", required=False)
    # check_sizes is a static const table inside lzma_check_size()
    f = prog.fn("lzma_check_size", "check.c")
    best = 0
    for b, i, e in f.iter_elems():
        if e.get("k") == "decl" and e["n"] == "check_sizes" and e.get("init") is not None:
            for x in ex.strip(e["init"])["e"]:
                v = ex.const_val(x)
                if v is not None:
                    best = max(best, v)
    if not best:
        for gl in prog.globals.get("check_sizes", []):
            if gl.get("init"):
                for x in ex.strip(gl["init"])["e"]:
                    v = ex.const_val(x)
                    if v is not None:
                        best = max(best, v)
    if not best:
        raise AnalysisBroken("check_sizes table not found")
    return best


INTERNAL = ("LZMA_RET_INTERNAL1", "LZMA_RET_INTERNAL2", "LZMA_RET_INTERNAL3", "LZMA_RET_INTERNAL4",
            "LZMA_RET_INTERNAL5", "LZMA_RET_INTERNAL6", "LZMA_RET_INTERNAL7", "LZMA_RET_INTERNAL8")
# public functions that are documented to return LZMA_BUF_ERROR themselves
BUF_ERROR_BY_CONTRACT = {"lzma_code", "lzma_index_hash_decode", "lzma_vli_decode", "lzma_vli_encode"}


def check_ret(ck, prog):
    ck.rule("C04-RET", "no public function can return an internal code (E-RET, path-sensitive); no function "
            "stored in a `code` slot contains a direct `return LZMA_BUF_ERROR`")
    rs = common.retsets(prog)
    rets = prog.enum("lzma_ret")
    internal = {rets[n] for n in INTERNAL}
    n = 0
    for f in sorted(prog.all_functions("liblzma"), key=lambda f: f.name):
        if f.static or f.name not in rs.sets or not f.file.endswith(".c"):
            continue
        if f.name not in API_FUNCS(prog):
            continue
        n += 1
        leak = rs.sets[f.name] & internal
        ck.saw_function(f)
        ck.ob("C04-RET", "internal:" + f.name, not leak, common.where(f),
              "%s can return only {%s}" % (f.name, ",".join(rs.names(rs.sets[f.name]))) if not leak else
              "%s() can return internal code(s) %s to the application" % (f.name, ",".join(rs.names(leak))),
              key="RET:internal:" + f.name)
    BUF = rets["LZMA_BUF_ERROR"]
    for f in common.code_slot_functions(prog):
        ck.saw_function(f)
        direct = [e for b, i, e in cfg.returns(f)
                  if ex.strip(e.get("e")) is not None and ex.strip(e["e"]).get("k") == "enum"
                  and ex.strip(e["e"])["n"] == "LZMA_BUF_ERROR"]
        ck.ob("C04-RET", "buf_error:" + f.name, not direct, common.where(f, direct[0] if direct else None),
              "%s never returns LZMA_BUF_ERROR directly (lzma_code produces it)" % f.name if not direct else
              "%s() returns LZMA_BUF_ERROR directly: lzma_code() asserts this cannot happen and would treat "
              "it as fatal" % f.name, key="RET:buf_error:" + f.name)
    # multi-call vli functions return BUF_ERROR for an empty buffer: streaming callers guard it
    VLI = ("lzma_vli_decode", "lzma_vli_encode")
    for fname, file, posv, sizev, callees in (
            ("index_decode", "index_decoder.c", "in_pos", "in_size", VLI),
            ("lzma_index_hash_decode", "index_hash.c", "in_pos", "in_size", VLI),
            ("index_encode", "index_encoder.c", "out_pos", "out_size", VLI),
            # lzma_index_hash_decode() itself returns LZMA_BUF_ERROR for an empty buffer: its streaming callers guard it
            ("stream_decode", "stream_decoder.c", "in_pos", "in_size", ("lzma_index_hash_decode",)),
            ("stream_decode_mt", "stream_decoder_mt.c", "in_pos", "in_size", ("lzma_index_hash_decode",))):
        f = prog.fn(fname, file)
        g = graph_of(prog, f)
        t = avail.Triple("$none", posv, sizev, True)
        orig = avail.elem_uses

        def uses(tt, e, callees=callees):
            r = []
            if e is not None:
                for c in ex.calls(e, into_refs=False):
                    if c.get("fn") in callees:
                        r.append(c)
            return r
        avail.elem_uses = uses
        try:
            bad, nuses = avail.solve(g, t)
        finally:
            avail.elem_uses = orig
        ck.ob("C04-RET", "vli-nonempty:" + fname, not bad and nuses > 0, common.where(f),
              "%d %s call(s) in %s are made only with *%s < %s (so they cannot return "
              "LZMA_BUF_ERROR)" % (nuses, "/".join(callees), fname, posv, sizev) if not bad else
              "%s can be called with an empty buffer in %s(): LZMA_BUF_ERROR would escape from a coder, which lzma_code() "
              "treats as a fatal error instead of waiting for more input" % ("/".join(callees), fname),
              key="RET:vli:" + fname)
    ck.floor("C04-RET", 80)


_api = {}


def API_FUNCS(prog):
    """Exported API symbols: the version script src/liblzma/liblzma_generic.map."""
    if id(prog) not in _api:
        import os, re
        from sa.compdb import REPO
        path = os.path.join(REPO, "src/liblzma/liblzma_generic.map")
        try:
            txt = open(path).read()
        except OSError:
            raise AnalysisBroken("cannot read " + path)
        names = set(re.findall(r"^\s*(lzma_[a-z0-9_]+);", txt, re.M))
        if len(names) < 80:
            raise AnalysisBroken("only %d symbols parsed from liblzma_generic.map" % len(names))
        _api[id(prog)] = names
    return _api[id(prog)]


def check_cast(ck, prog):
    ck.rule("C04-CAST", "the record allocated into next->coder / lz->coder is the record that every function "
            "stored in that object's slots casts its coder pointer to")
    from .C10 import coder_records
    cg = common.callgraph(prog)
    n = 0
    for f, rec, endname in sorted(coder_records(prog), key=lambda x: (x[0].file, x[0].line)):
        # slot functions assigned in the same init function
        slotfns = []
        for b, i, e in f.iter_elems():
            for (l, r, op, node) in ex.writes(e):
                fk = ex.field_key(l)
                if fk and fk[0] in ("lzma_next_coder_s", "lzma_lz_decoder", "lzma_lz_encoder") and \
                        fk[1] in ("code", "end", "update", "memconfig", "get_check", "get_progress",
                                  "set_out_limit", "reset", "set_uncompressed", "options_update"):
                    rs_ = ex.strip(r)
                    if rs_ is not None and rs_.get("k") == "un" and rs_["op"] == "&":
                        rs_ = ex.strip(rs_["e"])
                    if rs_ is not None and rs_.get("k") == "var" and rs_.get("s") == "f":
                        slotfns.append((fk[1], rs_["n"]))
        for slot, name in slotfns:
            for g in prog.resolve(f, name):
                if not g.params:
                    continue
                p0 = g.params[0]["n"]
                cast_to = None
                for v in g.vars:
                    if v.get("param") or not v.get("prec"):
                        continue
                    # local initialised from the first parameter
                    for b, i, e in g.iter_elems():
                        if e.get("k") == "decl" and e.get("id") == v["id"] and e.get("init") is not None:
                            ini = ex.strip(e["init"])
                            if ini.get("k") == "var" and ini["n"] == p0:
                                cast_to = v["prec"]
                if cast_to is None:
                    continue
                n += 1
                ck.saw_function(g)
                ck.ob("C04-CAST", "%s.%s=%s" % (f.name, slot, name), cast_to == rec, common.where(g),
                      "%s() treats its coder as %s; %s() allocated %s" % (name, cast_to, f.name, rec),
                      key="CAST:%s:%s" % (f.name, name))
    # lzma_filter_decoder / lzma_filter_encoder are read through lzma_filter_coder pointers:
    # they must begin with exactly its fields (name, type, offset)
    base = prog.record("lzma_filter_coder")
    for rn in ("lzma_filter_decoder@filter_decoder.c", "lzma_filter_encoder@filter_encoder.c"):
        r = prog.record(rn)
        ok = len(r["fields"]) >= len(base["fields"]) and all(
            a["n"] == b_["n"] and a["ty"] == b_["ty"] and a.get("off") == b_.get("off")
            for a, b_ in zip(base["fields"], r["fields"]))
        ck.ob("C04-CAST", "prefix:" + rn, ok, "%s:%d" % (common.relpath(r["file"]), r["line"]),
              "%s begins with the %d members of lzma_filter_coder at the same offsets" % (
                  rn, len(base["fields"])) if ok else
              "%s does not begin with the members of lzma_filter_coder: coder_find()'s cast reads wrong members" % rn,
              key="CAST:prefix:" + rn)
    ck.floor("C04-CAST", 40)


def check_null(ck, prog):
    ck.rule("C04-NULL", "allocation results are NULL-tested before their first dereference")
    n = 0
    for f in sorted(prog.all_functions("liblzma"), key=lambda f: (f.file, f.line)):
        for (ln, tgt, ok, why) in own.alloc_null_checks(f):
            n += 1
            ck.ob("C04-NULL", "%s:%s" % (f.name, tgt), ok, common.where(f, ln),
                  "%s = lzma_alloc*(): %s" % (tgt, why), key="NULL:%s:%s" % (f.name, tgt))
    ck.floor("C04-NULL", 40, "obligations")


def check_distvalid(ck, prog):
    """dict_is_distance_valid() is the only thing that keeps a match distance inside the decoded history: it has to be
    equivalent to `dict->full > distance`.  Any weakening (an extra disjunct such as `has_wrapped || ...`) lets a crafted
    stream read outside what was decoded -- into uninitialised parts of the dictionary or, with a distance beyond the
    buffer, outside the allocation.  Decided by evaluating the function's CFG over a small domain for every member and
    parameter it mentions (the function is a comparison: it can only depend on the order of its inputs)."""
    import itertools
    from sa import machine
    ck.rule("C04-DISTVALID", "dict_is_distance_valid() is equivalent to dict->full > distance (finite-domain evaluation "
            "over every member and parameter the function reads)")
    f = None
    for cand in prog.functions.get("dict_is_distance_valid", []):
        if cand.blocks:
            f = cand
    if f is None:
        raise AnalysisBroken("dict_is_distance_valid not found")
    ck.saw_function(f)
    flds, vars_ = set(), set()
    nodes = [e for b, i, e in f.iter_elems()] + [b.term["cond"] for b in f.blocks.values() if b.term and "cond" in b.term]
    for e in nodes:
        for x in ex.walk(e):
            if x.get("k") == "mem":
                flds.add((x.get("rec"), x["f"]))
            if x.get("k") == "var" and x.get("s") != "f":
                vars_.add(x["n"])
    params = [p["n"] for p in f.params if p["n"] in vars_ and not p.get("prec")]
    if ("lzma_dict", "full") not in flds or "distance" not in params:
        ck.ob("C04-DISTVALID", "dict_is_distance_valid", False, common.where(f),
              "dict_is_distance_valid() does not read dict->full and distance (reads %s, %s): it cannot be the comparison "
              "dict->full > distance" % (sorted(x[1] for x in flds), params), key="DISTVALID:dict_is_distance_valid")
        return
    DOM = (0, 1, 2, 5)
    keys = [fd.Key("field", fl, rec=rec, domain=DOM, label=fl) for rec, fl in sorted(flds)]
    keys += [fd.Key("var", p, domain=DOM, label=p) for p in params]
    keys.append(fd.Key("retval", "$ret", label="$ret"))
    labels = [k.label for k in keys[:-1]]
    if len(labels) > 6:
        raise AnalysisBroken("dict_is_distance_valid reads %d inputs: too many for enumeration" % len(labels))
    cg = common.callgraph(prog)
    bad = None
    ncomb = 0
    for vals in itertools.product(DOM, repeat=len(labels)):
        ncomb += 1
        g = fd.FD(prog, f, keys, cg=cg, split=300)
        st = dict((l, [v]) for l, v in zip(labels, vals))
        st["$ret"] = [machine.NO_RETURN_YET]
        g.run([g.make_state(**st)])
        env = dict(zip(labels, vals))
        want = 1 if env["full"] > env["distance"] else 0
        for nd in g.nodes:
            if nd[0] == f.exit:
                rv = g.get(nd[1], "$ret")
                if rv is None or set(rv) != {want}:
                    bad = bad or (env, sorted(rv) if rv is not None else "unknown")
    ck.ob("C04-DISTVALID", "dict_is_distance_valid", bad is None, common.where(f),
          "dict_is_distance_valid() == (dict->full > distance) for all %d combinations of %s over %s" % (ncomb, labels, DOM)
          if bad is None else
          "dict_is_distance_valid() returns %s for %s where dict->full > distance is %s: match distances beyond the decoded "
          "history are accepted (a crafted stream copies uninitialised or out-of-buffer memory into the output) or valid "
          "ones rejected" % (bad[1], bad[0], bad[0]["full"] > bad[0]["distance"]), key="DISTVALID:dict_is_distance_valid")


def check_nullarith(ck, prog):
    """lzma_code() allows next_in == NULL with avail_in == 0 (and the same for the output side); the pointers reach
    every function stored in a `code` slot unchanged.  `NULL + 0` is undefined behaviour in C, and the code base avoids
    it everywhere ("avoid null pointer + 0 (undefined behavior)" comments).  Necessary condition decided here: pointer
    arithmetic on the `in` / `out` parameter of a code-slot function is dominated by SOME test of that buffer's
    position/size (or of a local computed from them), by a NULL test of the pointer, or by a reassignment of it --
    otherwise it is executed unconditionally for the (NULL, 0) call."""
    ck.rule("C04-NULLARITH", "code-slot functions: pointer arithmetic on in/out is dominated by a test of the buffer's "
            "position/size, of the pointer, or by a reassignment of the pointer")
    cg = common.callgraph(prog)
    slot = {g_.name for g_ in common.code_slot_functions(prog, cg)}
    PAIR = {"in": ("in_pos", "in_size"), "out": ("out_pos", "out_size")}
    n = 0
    for f in sorted(prog.all_functions("liblzma"), key=lambda f: (f.file, f.line)):
        if not f.blocks or f.name not in slot:
            continue
        pn = {p["n"] for p in f.params}
        dom = None
        for P, (pos, size) in PAIR.items():
            if P not in pn:
                continue
            derived = {pos, size}
            changed = True
            while changed:
                changed = False
                for b, i, e in f.iter_elems():
                    d = ex.deref(e)
                    tgt = src = None
                    if d.get("k") == "decl" and d.get("init") is not None:
                        tgt, src = d["n"], d["init"]
                    for (l, r, op, node) in ex.writes(e):
                        ls = ex.strip(l)
                        if ls is not None and ls.get("k") == "var" and r is not None:
                            tgt, src = ls["n"], r
                    if tgt and tgt not in derived and src is not None and not list(ex.calls(src)) and \
                            any(x.get("k") == "var" and x["n"] in derived for x in ex.walk(src)):
                        derived.add(tgt)
                        changed = True
            ev = set()
            for b in f.blocks.values():
                if b.term and "cond" in b.term:
                    names = {x["n"] for x in ex.walk(b.term["cond"]) if x.get("k") == "var"}
                    if names & derived or P in names:
                        ev.add(b.id)
            for b, i, e in f.iter_elems():
                for (l, r, op, node) in ex.writes(e):
                    ls = ex.strip(l)
                    if ls is not None and ls.get("k") == "var" and ls["n"] == P:
                        ev.add(b.id)
            sites = []
            for b, i, e in list(f.iter_elems()) + [(bb, 1 << 20, bb.term["cond"]) for bb in f.blocks.values()
                                                   if bb.term and "cond" in bb.term]:
                for x in ex.walk(e, into_refs=False):
                    if x.get("k") == "bin" and x["op"] == "+":
                        l = ex.strip(x["l"])
                        if l is not None and l.get("k") == "var" and l["n"] == P:
                            sites.append((b.id, x))
            if not sites:
                continue
            ck.saw_function(f)
            if dom is None:
                dom = cfg.dominators(f)
            for bid, x in sites:
                n += 1
                ok = any(d in ev and d != bid for d in dom.get(bid, ()))
                ck.ob("C04-NULLARITH", "%s:%s@%s" % (f.name, ex.show(x)[:30], ex.line(x)), ok, common.where(f, x),
                      "%s: `%s` is behind a test of the %s buffer" % (f.name, ex.show(x)[:40], P) if ok else
                      "%s(): `%s` is computed on every call, with no preceding test of %s/%s or of `%s` itself: for the allowed "
                      "call next_%s == NULL, avail_%s == 0 this is NULL + 0 (undefined behaviour)" % (
                          f.name, ex.show(x)[:40], pos, size, P, P, P), key="NULLARITH:%s:%s" % (f.name, ex.show(x)[:40]))
    ck.floor("C04-NULLARITH", 10)
    return n


def check_allocsz(ck, prog):
    """Allocation sizes of the form  C1 + n * C2  where n comes from the input: n must be clamped to a constant K with
    C1 + K * C2 <= SIZE_MAX, otherwise the multiplication wraps and a tiny block is allocated for n records."""
    ck.rule("C04-ALLOCSZ", "input-controlled element counts are clamped so that the allocation size cannot wrap")
    SIZE_MAX = (1 << 64) - 1
    n = 0
    for f in sorted(prog.all_functions("liblzma"), key=lambda f: (f.file, f.line)):
        if not f.blocks:
            continue
        for b, i, e in f.iter_elems():
            for c in ex.calls(e, into_refs=False):
                if c.get("fn") not in ("lzma_alloc", "lzma_alloc_zero") or not c["args"]:
                    continue
                a = ex.strip(c["args"][0])
                # C1 + (X * C2)  /  X * C2
                c1, mul = 0, a
                if a is not None and a.get("k") == "bin" and a["op"] == "+":
                    l, r = ex.strip(a["l"]), ex.strip(a["r"])
                    if ex.const_val(l) is not None:
                        c1, mul = ex.const_val(l), r
                    elif ex.const_val(r) is not None:
                        c1, mul = ex.const_val(r), l
                    else:
                        continue
                if mul is None or mul.get("k") != "bin" or mul["op"] != "*":
                    continue
                l, r = ex.strip(mul["l"]), ex.strip(mul["r"])
                if ex.const_val(r) is not None and ex.const_val(l) is None:
                    x, c2 = l, ex.const_val(r)
                elif ex.const_val(l) is not None and ex.const_val(r) is None:
                    x, c2 = r, ex.const_val(l)
                else:
                    continue
                if x.get("k") != "mem":
                    continue            # locals are covered by the guards of C04-BUF / C09
                fld = x["f"]
                # clamps: `v > K` ... `v = K` in a function that stores v into that member
                bound = None
                for g in prog.all_functions("liblzma"):
                    if not g.blocks:
                        continue
                    stores = [ex.strip(r_) for b2, i2, e2 in g.iter_elems() for (l_, r_, op_, n_) in ex.writes(e2)
                              if ex.field_key(l_) == (x.get("rec"), fld) and r_ is not None and op_ == "="]
                    for sv in stores:
                        if sv is None or sv.get("k") != "var":
                            if sv is not None and ex.const_val(sv) is not None:
                                bound = max(bound or 0, ex.const_val(sv))
                            continue
                        ks = [ex.const_val(ex.strip(bb.term["cond"])["r"]) for bb in g.blocks.values()
                              if bb.term and "cond" in bb.term and ex.strip(bb.term["cond"]).get("k") == "bin"
                              and ex.strip(bb.term["cond"])["op"] == ">" and ex.show(ex.strip(bb.term["cond"])["l"]) == sv["n"]
                              and ex.const_val(ex.strip(bb.term["cond"])["r"]) is not None]
                        if ks:
                            bound = max(bound or 0, min(ks))
                        else:
                            bound = SIZE_MAX if bound is None else max(bound, SIZE_MAX)
                if bound is None or bound == SIZE_MAX:
                    # no clamp found: the member's own type bounds it
                    rec_ = prog.records.get(x.get("rec")) or {"fields": []}
                    for fd_ in rec_["fields"]:
                        if fd_["n"] == fld and (fd_.get("ty") or "").replace("const ", "") in ("uint32_t", "unsigned int"):
                            bound = 0xFFFFFFFF
                        elif fd_["n"] == fld and (fd_.get("ty") or "").replace("const ", "") in ("uint16_t", "uint8_t"):
                            bound = 0xFFFF
                # lower bound: the block is a header plus `fld` elements and element 0 is written right after the
                # allocation, so no store may leave the member at 0
                writes_elem = c1 > 0 and any(
                    xx.get("k") == "idx" and ex.strip(xx["b"]).get("k") == "mem"
                    for bb_, ii_, ee_ in f.iter_elems() for (l_, r_, op_, n_) in ex.writes(ee_) for xx in ex.walk(l_))
                if writes_elem:
                    zero_site = None
                    for g in prog.all_functions("liblzma"):
                        if not g.blocks:
                            continue
                        for b2, i2, e2 in g.iter_elems():
                            for (l_, r_, op_, n_) in ex.writes(e2):
                                if ex.field_key(l_) != (x.get("rec"), fld) or r_ is None or op_ != "=":
                                    continue
                                sv = ex.strip(r_)
                                if ex.const_val(sv) is not None:
                                    if ex.const_val(sv) < 1:
                                        zero_site = (g, n_)
                                    continue
                                if sv is None or sv.get("k") != "var":
                                    zero_site = (g, n_)
                                    continue
                                v = sv["n"]
                                # can the store be reached with v == 0?  cut: edges that imply v != 0, blocks that assign v
                                cut_e, cut_b = set(), set()
                                for tb in g.blocks.values():
                                    if tb.term and "cond" in tb.term and len(tb.succs) == 2:
                                        cc = ex.strip(tb.term["cond"])
                                        if cc.get("k") == "bin" and ex.show(cc["l"]) == v and ex.const_val(cc["r"]) is not None:
                                            k_, op2 = ex.const_val(cc["r"]), cc["op"]
                                            # edge index 0 = condition true, 1 = false
                                            if (op2 == "==" and k_ == 0) or (op2 == "<" and k_ == 1) or (op2 == "<=" and k_ == 0):
                                                cut_e.add((tb.id, 1))
                                            if (op2 == "!=" and k_ == 0) or (op2 == ">" and k_ == 0) or (op2 == ">=" and k_ == 1):
                                                cut_e.add((tb.id, 0))
                                        elif cc.get("k") == "var" and cc["n"] == v:
                                            cut_e.add((tb.id, 0))
                                for b3, i3, e3 in g.iter_elems():
                                    for (l3, r3, op3, n3) in ex.writes(e3):
                                        if ex.show(l3) == v and op3 == "=" and r3 is not None and (ex.const_val(r3) or 0) >= 1 \
                                                and ex.deref(n3).get("k") != "decl":
                                            cut_b.add(b3.id)
                                seen, st, hit = set(), [g.entry], False
                                while st:
                                    xb = st.pop()
                                    if xb in seen:
                                        continue
                                    seen.add(xb)
                                    if xb == b2.id:
                                        hit = True
                                        break
                                    if xb in cut_b:
                                        # continue from this block with v >= 1: treat as discharged
                                        continue
                                    for idx_, y in enumerate(g.blocks[xb].succs):
                                        if y is not None and (xb, idx_) not in cut_e:
                                            st.append(y)
                                if hit:
                                    zero_site = (g, n_)
                    n += 1
                    ck.ob("C04-ALLOCSZ", "%s:%s:nonzero" % (f.name, fld), zero_site is None, common.where(f, c),
                          "%s: every store to %s is at least 1 (element 0 of the allocated group is written right away)"
                          % (f.name, fld) if zero_site is None else
                          "%s() allocates a group with room for `%s` elements and then writes element 0, but %s() can store 0 "
                          "into %s (line %s): the first append after that writes past the end of a %d-byte block (heap "
                          "buffer overflow)" % (f.name, fld, zero_site[0].name, fld, ex.line(zero_site[1]), c1),
                          key="ALLOCSZ:%s:%s:nonzero" % (f.name, fld))
                n += 1
                ck.saw_function(f)
                ok = bound is not None and c1 + bound * c2 <= SIZE_MAX
                ck.ob("C04-ALLOCSZ", "%s:%s" % (f.name, fld), ok, common.where(f, c),
                      "%s: lzma_alloc(%d + %s * %d): %s is clamped to %s, so the size is at most %#x" % (
                          f.name, c1, fld, c2, fld, bound, c1 + (bound or 0) * c2) if ok else
                      "%s(): lzma_alloc(%d + %s * %d) with %s clamped only to %s: %d + %s * %d exceeds SIZE_MAX, the size "
                      "wraps to a few bytes and the records are written past the end of the block" % (
                          f.name, c1, fld, c2, fld, bound, c1, bound, c2), key="ALLOCSZ:%s:%s" % (f.name, fld))
    ck.floor("C04-ALLOCSZ", 1)


def run(ck):
    ck.explanation = (
        "Bounds-fact availability (must-dataflow on the path-sensitive product graph) for every streaming "
        "buf[pos] access of every (buf, pos, size) triple in liblzma; dominating size tests for property bytes; "
        "range arguments for copies into fixed-size members; path-sensitive interprocedural return-code sets "
        "proving that internal codes and LZMA_BUF_ERROR cannot escape; coder record type agreement between the "
        "allocation and the slot functions; NULL tests of allocations.")
    ck.not_decided = ("absence of all out-of-bounds or uninitialised accesses (LZMA fast path's 20-byte margin, "
                      "dictionary arithmetic, BCJ windows are under C15), arithmetic UB, assertion failures, "
                      "termination of inner loops, deadlocks; leaks are under C10.")
    prog = common.program(ck, ("liblzma",))
    check_idx(ck, prog)
    check_const(ck, prog)
    check_buf(ck, prog)
    check_ret(ck, prog)
    check_cast(ck, prog)
    check_null(ck, prog)
    check_allocsz(ck, prog)
    check_distvalid(ck, prog)
    check_nullarith(ck, prog)
    # the SHA-256 padding writes into the 64-byte block buffer: the number of padding blocks decides whether the
    # writes stay inside it (C14 rule, all 64 residues)
    from . import C14 as _C14
    _C14.check_sha(ck, prog)
    # invalid input must not leak (rule shared with C10) nor stall the threaded decoder (rule shared with C07)
    from . import C10, C07
    C10.check_localown(ck, prog)
    C10.check_localalloc(ck, prog, rule="C04-LOCALALLOC")
    # lzma_properties_decode(): "always NULL so that the caller can always safely free() it": filter->options is
    # cleared on every path, before the filter-specific decoder (which may fail or have nothing to store) runs
    pd = prog.fn("lzma_properties_decode", "filter_decoder.c")
    ck.saw_function(pd)
    ck.rule("C04-OPTNULL", "lzma_properties_decode() stores filter->options = NULL on every path to a return")

    def _via(bb, ii, ee):
        return any(ex.show(ex.strip(l)).endswith("->options") and r is not None and ex.is_const(r, 0)
                   for (l, r, op, nd) in ex.writes(ee))
    okn, pathn = cfg.must_pass(pd, [pd.entry], [pd.exit], _via)
    ck.ob("C04-OPTNULL", "lzma_properties_decode", okn, common.where(pd),
          "lzma_properties_decode: filter->options = NULL before anything else" if okn else
          "lzma_properties_decode() can return (lines %s) without having stored filter->options = NULL: for a filter without "
          "properties, or when the properties are rejected, the caller gets back whatever the field held (an uninitialised "
          "pointer that is later freed or handed to an init function)" % cfg.path_lines(pd, pathn),
          key="OPTNULL:lzma_properties_decode")
    C07.check_progress(ck, prog)
    from . import mtcommon
    mtcommon.check_wait(ck, prog, C07.CFG, "C04-WAIT")
    # a reset that leaves a repeat distance or probability behind lets a crafted (valid) file read outside the window
    from . import C01
    C01.check_reset(ck, prog)
    # the history index rule of dict_get/dict_repeat (an off-by-one reads buf[-1]) and the fill level
    from . import C03
    C03.check_dict_siblings(ck, prog)
    # no coder reads a member that nothing in the session has stored to ("uninitialised memory access")
    from . import reinit
    ck.rule("C04-READFIRST", "what a coding function can read before storing to it is stored by the init function on every path returning LZMA_OK")
    reinit.check_read_first(ck, prog, "C04-READFIRST")
    ck.floor("C04-READFIRST", 90)
    C03.check_dict_fresh(ck, prog, rule="C04-DICTFRESH")
    # the file info decoder never asks for a seek target before the start of the file (rule shared with C13)
    from . import C13
    C13.check_seek(ck, prog)
