"""C08 — threaded compression: lock discipline and ordering of stream_encoder_mt.c."""
from sa import ex, cfg, fd, lock
from sa.compdb import AnalysisBroken
from . import common, mtcommon
from .oblig import MP, evaluate

FILE = "stream_encoder_mt.c"
CODER = "lzma_stream_coder_s@stream_encoder_mt.c"
THR = "worker_thread_s@stream_encoder_mt.c"
OUTBUF = "lzma_outbuf_s"

CFG = dict(
    file=FILE, coder_rec=CODER, thr_rec=THR, main_fn="stream_encode_mt", end_fn="stream_encoder_mt_end",
    quiescent_any="SEQ_STREAM_FOOTER", quiescent={"SEQ_INDEX", "SEQ_STREAM_FOOTER", "SEQ_STREAM_HEADER"},
    roles={CODER: "M", THR: "T"},
    prot={
        (CODER, "thread_error"): dict(w="M", r="M"),
        (CODER, "threads_free"): dict(w="M", r="M"),
        (CODER, "progress_in"): dict(w="M", r="M"),
        (CODER, "progress_out"): dict(w="M", r="M"),
        (OUTBUF, "pos"): dict(w="M", r="M"),
        (OUTBUF, "finished"): dict(w="M", r="M"),
        (THR, "state"): dict(w="T", r="T"),
        (THR, "in_size"): dict(w="T", r="T"),
        (THR, "progress_in"): dict(w=("T", "M"), r=("T", "M")),
        (THR, "progress_out"): dict(w=("T", "M"), r=("T", "M")),
        (THR, "next"): dict(w="M", r="M"),
    },
    exceptions=[
        dict(fn="initialize_new_thread", fields={"state", "progress_in", "progress_out"}, kind="pre-create",
             reason="thread not created yet"),
        dict(fn="stream_encode_in", fields={"in_size"}, mode="R", kind="owner-read",
             reason="in_size is modified only by the main thread (comment at the member)"),
        dict(fn="stream_encode_mt", fields={"progress_out"}, kind="after-outq-empty",
             reason="all Blocks finished: the loop is left only when the output queue is empty"),
        dict(fn="stream_encoder_mt_init", fields={"thread_error", "threads_free", "progress_in", "progress_out", "next"},
             kind="after-stop-or-end",
             reason="workers were stopped (threads_stop(wait)) or ended, or the coder is freshly allocated"),
    ],
    requires={"lzma_outq_read": "M", "lzma_outq_is_readable": "M"},
    stop_ack=dict(worker_fn="worker_start", idle="THR_IDLE", stop="THR_STOP", exit="THR_EXIT",
                  worker_fns=("worker_start", "worker_encode", "worker_error")),
    init_quiesce=dict(init_fn="stream_encoder_mt_init", worker_fns=("worker_start", "worker_encode", "worker_error"),
                      calls=("threads_stop", "threads_end"),
                      **{"except": {"mutex": "the mutex itself (initialised once, when the coder is allocated)",
                                    "cond": "the condition variable itself (initialised once)"}}),
    order_ok={("M", "T")},
    waited={
        (THR, "state"): "T", (THR, "in_size"): "T",
        (OUTBUF, "finished"): "M", (CODER, "thread_error"): "M", (CODER, "threads_free"): "M",
    },
    signal_except=[
        dict(fn="get_thread", fields={"threads_free"},
             reason="popping from the free list cannot make a waiter's predicate true"),
        dict(fn="get_thread", fields={"state", "in_size"},
             reason="the signal follows in the same critical section (mythread_cond_signal after the stores)"),
    ],
)

TABLE = [
    MP("ordered-index", "stream_encode_mt", FILE, [("res", "lzma_outq_read", ("LZMA_STREAM_END",))],
       ("call", "lzma_index_append"), src=("SEQ_BLOCK",), init_seq=("SEQ_STREAM_HEADER",),
       why="Index Records are appended only for a Block that lzma_outq_read reported finished (queue order)"),
    MP("finish-needs-index", "stream_encode_mt", FILE, [("res", "slot:code", ("LZMA_STREAM_END",))],
       ("ret", ("LZMA_STREAM_END",)), src=("SEQ_STREAM_HEADER", "SEQ_BLOCK"),
       init_seq=("SEQ_STREAM_HEADER", "SEQ_BLOCK"), resume=False,
       keys=(fd.Key("var", "action", domain=range(5), label="action"),), init={"action": (3,)},
       why="LZMA_FINISH ends only after the Index encoder finished"),
    MP("flush-needs-empty-queue", "stream_encode_mt", FILE, [("test", "call:lzma_outq_is_empty", "T")],
       ("ret", ("LZMA_STREAM_END",)), src=("SEQ_BLOCK",), init_seq=("SEQ_BLOCK",), resume=False,
       keys=(fd.Key("var", "action", domain=range(5), label="action"),), init={"action": (2,)},
       why="LZMA_FULL_FLUSH is reported complete only when the output queue is empty"),
    MP("thread-error-first", "stream_encode_mt", FILE, [("cmp", "var:ret", "enum:LZMA_OK")],
       ("call", "stream_encode_in"), src=("SEQ_BLOCK",), init_seq=("SEQ_STREAM_HEADER",),
       why="no more input is handed out once a worker reported an error"),
]


def check_misc(ck, prog):
    ck.rule("C08-ERR", "worker error paths report through worker_error() and stop; index_append takes the "
            "sizes delivered by lzma_outq_read; SYNC_FLUSH is not enabled")
    cg = common.callgraph(prog)
    rs = common.retsets(prog)
    f = prog.fn("worker_encode", FILE)
    ck.saw_function(f)
    rets = prog.enum("lzma_ret")
    st_enum = prog.enum_with("THR_FINISH", f.file)
    g = fd.FD(prog, f, [fd.Key("var", "ret", domain=rets.values(), label="ret")], cg=cg,
              call_values=lambda c, s: rs.call_set(c, f))
    g.run([g.top_state()])
    dom = cfg.dominators(f)
    we_blocks = {b.id for b, i, e in f.iter_elems()
                 if any(c.get("fn") == "worker_error" for c in ex.calls(e, into_refs=False))}
    n = 0
    for b, i, e in cfg.returns(f):
        r = ex.strip(e.get("e"))
        if r is None or r.get("k") != "enum":
            continue
        n += 1
        if r["n"] == "THR_STOP":
            ok = b.id in we_blocks or bool(we_blocks & dom.get(b.id, set()))
            ck.ob("C08-ERR", "worker_encode:THR_STOP@%d" % n, ok, common.where(f, e),
                  "return THR_STOP %s worker_error()" % ("after" if ok else "WITHOUT"),
                  key="ERR:worker_encode:stop-reports")
        elif r["n"] == "THR_FINISH":
            vals = set()
            for s in g.states_before_elem(b.id, i):
                v = g.get(s, "ret")
                vals |= set(v) if v is not None else set(rets.values())
            ok = vals <= {rets["LZMA_OK"], rets["LZMA_STREAM_END"]}
            ck.ob("C08-ERR", "worker_encode:THR_FINISH", ok, common.where(f, e),
                  "return THR_FINISH reached with ret in {%s}" % ",".join(rs.names(vals)),
                  key="ERR:worker_encode:finish-clean")
    # index_append arguments are the out-parameters of lzma_outq_read
    m = prog.fn("stream_encode_mt", FILE)
    ck.saw_function(m)
    outs = set()
    app = None
    for b, i, e in m.iter_elems():
        for c in ex.calls(e, into_refs=False):
            if c.get("fn") == "lzma_outq_read":
                for a in c["args"][5:7]:
                    a = ex.strip(a)
                    if a is not None and a.get("k") == "un" and a["op"] == "&":
                        outs.add(ex.show(a["e"]))
            if c.get("fn") == "lzma_index_append":
                app = c
    ok = app is not None and {ex.show(app["args"][2]), ex.show(app["args"][3])} == outs and len(outs) == 2
    ck.ob("C08-ERR", "index-append-args", ok, common.where(m, app),
          "lzma_index_append(%s) uses exactly the sizes returned by lzma_outq_read (%s)" % (
              ", ".join(ex.show(a) for a in app["args"][2:4]) if app else "?", ",".join(sorted(outs))),
          key="ERR:index-append-args")
    # worker publishes the sizes before the buffer is marked finished
    w = prog.fn("worker_encode", FILE)
    wrote = set()
    for b, i, e in w.iter_elems():
        for (l, r, op, node) in ex.writes(e):
            fk = ex.field_key(l)
            if fk and fk[0] == OUTBUF and fk[1] in ("unpadded_size", "uncompressed_size"):
                wrote.add(fk[1])
                src = ex.show(r)
                ck.ob("C08-ERR", "publish:" + fk[1], "block_options" in src, common.where(w, node),
                      "outbuf->%s = %s (from the Block options the header was written with)" % (fk[1], src),
                      key="ERR:publish:" + fk[1])
    ck.ob("C08-ERR", "publish:both", wrote == {"unpadded_size", "uncompressed_size"}, common.where(w),
          "worker_encode sets both sizes of the outbuf before returning THR_FINISH", key="ERR:publish:both")
    # progress hand-over: a finished Block moves from the worker's counters to the coder's totals in ONE critical
    # section of coder->mutex (get_progress() sums both under that mutex: outside it the Block would be counted twice
    # or not at all)
    ws = prog.fn("worker_start", FILE)
    adds = [b.id for b, i, e in ws.iter_elems() for (l, r, op, n) in ex.writes(e)
            if ex.field_key(l) == (CODER, "progress_in") and op == "+="]
    zeros = [b.id for b, i, e in ws.iter_elems() for (l, r, op, n) in ex.writes(e)
             if ex.field_key(l) == (THR, "progress_in") and r is not None and ex.is_const(r, 0)]
    oka = len(adds) == 1 and zeros == adds
    ck.ob("C08-ERR", "progress-transfer-atomic", oka, common.where(ws),
          "worker_start: coder->progress_in += ... and thr->progress_in = 0 are in the same critical section" if oka else
          "worker_start(): the worker's own progress counters are reset in a different critical section (block(s) %s) than "
          "the one that adds the finished Block to coder->progress_in (block(s) %s): lzma_get_progress() can count the "
          "Block twice and report more than the true totals" % (zeros, adds), key="ERR:progress-transfer-atomic")
    # a worker that puts itself back on the stack of free threads has handed over (zeroed) its own counters on every
    # path, not only after a finished Block: a worker stopped by an error or a re-initialisation would otherwise add
    # its stale counters to the totals of the next session
    enc = [b.id for b, i, e in ws.iter_elems() if any(c.get("fn") == "worker_encode" for c in ex.calls(e, into_refs=False))]
    push = [b.id for b, i, e in ws.iter_elems() for (l, r, op, n) in ex.writes(e)
            if ex.field_key(l) == (CODER, "threads_free") and op == "="]
    if len(enc) != 1 or not push:
        raise AnalysisBroken("worker_start: worker_encode call / push onto threads_free not found")
    for fld in ("progress_in", "progress_out"):
        zs = {b.id for b, i, e in ws.iter_elems() for (l, r, op, n) in ex.writes(e)
              if ex.field_key(l) == (THR, fld) and r is not None and ex.is_const(r, 0)}
        seen, st, hit = set(), list(cfg.succs(ws, enc[0])), None
        if enc[0] in zs:
            st = []
        while st:
            x = st.pop()
            if x in seen or x in zs:
                continue
            seen.add(x)
            if x in push:
                hit = x
                break
            st.extend(cfg.succs(ws, x))
        ck.ob("C08-ERR", "progress-zero-before-free:" + fld, hit is None, common.where(ws),
              "worker_start: thr->%s = 0 on every path from worker_encode() to the push onto threads_free" % fld if hit is None else
              "worker_start(): a path from the worker_encode() call reaches the push onto coder->threads_free (block %s) "
              "without thr->%s = 0: a worker stopped in mid-Block (error, re-initialisation) keeps its counters and "
              "get_progress() of the next session reports more than the true totals" % (hit, fld),
              key="ERR:progress-zero-before-free:" + fld)
    # ... and the reader takes ONE snapshot: get_progress() reads coder->progress_* and every worker's counters while it
    # holds coder->mutex the whole time (a worker finishing between two separate critical sections is counted twice)
    from sa import lock
    gp = prog.fn("get_progress", FILE)
    ck.saw_function(gp)
    lg = lock.LockGraph(prog, gp, common.callgraph(prog), mtcommon.make_role(CFG))
    reads = 0
    loose = None
    for node, blk, i, e, held in lg.node_sites():
        for m_, w_, rmw in lock.accesses(e):
            fk = (m_.get("rec"), m_["f"])
            if fk in ((THR, "progress_in"), (THR, "progress_out"), (CODER, "progress_in"), (CODER, "progress_out")) and not w_:
                reads += 1
                if "M" not in held:
                    loose = loose or m_
    if reads < 4:
        raise AnalysisBroken("get_progress: reads of the progress counters not found")
    ck.ob("C08-ERR", "progress-snapshot", loose is None, common.where(gp, loose),
          "get_progress: the coder totals and every worker's counters are read inside one critical section of coder->mutex"
          if loose is None else
          "get_progress(): %s is read without coder->mutex held: a worker that finishes its Block between this read and the "
          "read of coder->progress_* has already moved the Block to the totals, so it is counted twice (progress exceeds "
          "the true totals)" % ex.show(loose), key="ERR:progress-snapshot")
    # SYNC_FLUSH not enabled
    api = prog.fn("lzma_stream_encoder_mt", FILE)
    enabled = set()
    for b, i, e in api.iter_elems():
        for (l, r, op, node) in ex.writes(e):
            ls = ex.strip(l)
            if ls is not None and ls.get("k") == "idx" and r is not None and ex.is_const(r, 1):
                bs = ex.strip(ls["b"])
                if bs is not None and bs.get("k") == "mem" and bs["f"] == "supported_actions":
                    ix = ex.strip(ls["i"])
                    enabled.add(ix.get("n") if ix is not None else "?")
    ck.ob("C08-ERR", "actions", "LZMA_SYNC_FLUSH" not in enabled and
          {"LZMA_RUN", "LZMA_FULL_FLUSH", "LZMA_FULL_BARRIER", "LZMA_FINISH"} <= enabled,
          common.where(api), "supported actions: %s" % ",".join(sorted(enabled)), key="ERR:actions")
    ck.floor("C08-ERR", 8, "obligations")


def run(ck):
    ck.explanation = (
        "Lock discipline and ordering of the threaded encoder decided by must-lockset dataflow on the "
        "path-sensitive product graph plus must-pass rules: protected-field table with re-verified structural "
        "exceptions, documented-mutex call sites, lock order, wait loops and signal-after-write, "
        "join-before-free, Index Records appended in queue order from lzma_outq_read, flush/finish end "
        "conditions, worker error reporting.")
    ck.not_decided = ("schedule-independence of the output bytes, progress monotonicity, barrier offsets, "
                      "liveness under every schedule.")
    prog = common.program(ck, ("liblzma",))
    mtcommon.check_prot(ck, prog, CFG, "C08-PROT")
    ck.floor("C08-PROT", 40, "obligations")
    mtcommon.check_requires(ck, prog, CFG, "C08-REQ")
    ck.floor("C08-REQ", 2)
    mtcommon.check_order(ck, prog, CFG, "C08-ORDER")
    mtcommon.check_wait(ck, prog, CFG, "C08-WAIT")
    mtcommon.check_waitpred(ck, prog, CFG, "C08-WAIT")
    ck.floor("C08-WAIT", 8)
    mtcommon.check_end(ck, prog, CFG, "C08-END")
    ck.rule("C08-FLOW", "must-pass rules of the main loop")
    evaluate(ck, prog, "C08-FLOW", TABLE, floor=4)
    check_misc(ck, prog)
    mtcommon.check_stop_ack(ck, prog, CFG, "C08-STOPACK")
    mtcommon.check_init_quiesce(ck, prog, CFG, "C08-QUIESCE")
    ck.rule("C08-INITCONS", "members that stream_encoder_mt_init (re)initialises on some paths are initialised on "
                            "every path that returns LZMA_OK")
    from . import reinit
    reinit.INIT_EXCEPT[("stream_encoder_mt_init", "threads_initialized")] = \
        "number of live worker threads: they are kept (stopped) when the thread count is unchanged"
    reinit.check_init_consistency(ck, prog, "C08-INITCONS", files={FILE})
    ck.floor("C08-INITCONS", 6)
    from . import C10
    C10.check_sizekey(ck, prog, rule="C08-SIZEKEY", files={FILE, "lz_encoder.c"}, floor=1)
    # the output queue shared with the other threaded coder is reset by lzma_outq_init() on every (re)initialisation
    from . import reinit as _re
    ck.rule("C08-OUTQRESET", "lzma_outq_init() resets every lzma_outq member that the queue operations modify")
    _re.check_reset_cover(ck, prog, "C08-OUTQRESET", [
        ("lzma_outq_init", "outqueue.c", "lzma_outq", ("lzma_outq_end",),
         {"head": "emptied by `while (outq->head != NULL) move_head_to_cache()`: the loop exit condition is the reset state",
          "tail": "set to NULL by move_head_to_cache() when the last buffer leaves the queue",
          "bufs_in_use": "decremented per buffer by move_head_to_cache() until the queue is empty",
          "mem_in_use": "decremented per buffer by move_head_to_cache() until the queue is empty",
          "cache": "cached buffers are kept across sessions on purpose (trimmed to the new limit)",
          "bufs_allocated": "counts the cached buffers that are kept",
          "mem_allocated": "counts the cached buffers that are kept"}),
    ])
    ck.floor("C08-OUTQRESET", 2)
    # the worker's uncompressed-chunk fallback writes lzma_block_buffer_bound-derived sizes into the Block Header: the
    # bound has to be exact for LZMA2 (rule shared with C02)
    from . import C02
    C02.check_bound(ck, prog)
    # a worker's Block encoder is re-used for every Block it gets: the filters and the LZ encoder start each Block from what
    # their init functions store
    from . import reinit as _r2
    ck.rule("C08-READFIRST", "coders re-used by the worker threads: what the coding function can read before storing to it is stored by the init function on every path returning LZMA_OK")
    _r2.check_read_first(ck, prog, "C08-READFIRST", files={"simple_coder.c", "delta_common.c", "lzma2_encoder.c", "lzma_encoder.c",
                                                           "lz_encoder.c", "block_encoder.c"})
    ck.floor("C08-READFIRST", 12)
    # every Block a worker emits starts with lzma_block_header_encode() into a recycled output buffer: layout, padding
    # and CRC32 of the header (C02), and LZMA_FULL_BARRIER/LZMA_FULL_FLUSH keep their own states in lzma_code() (C11)
    C02.check_block_header(ck, prog, rule="C08-HDR", floor=9)
    from . import C11
    C11.check_fsm(ck, prog)
