"""C05 — corruption and truncation are never reported as success.

C05-OBL   every success exit of every container/codec decoder passed every validation
          the formats demand (edge cut on the resume-aware product graph).
C05-PAD   every padding byte consumed is compared with zero.
C05-TRUNC LZMA_STREAM_END is returned only from the expected terminal states; running out
          of input elsewhere returns LZMA_OK (turned into LZMA_BUF_ERROR by lzma_code).
"""
from sa import ex, fd, cfg
from sa.compdb import AnalysisBroken
from . import common
from .oblig import MP, Present, Consume, HasCmp, evaluate, evaluate_consume, evaluate_hascmp, graph_for

OK = ("LZMA_OK",)
END = ("LZMA_STREAM_END",)
DATA = ("LZMA_DATA_ERROR",)

K_IGNORE_BLOCK = fd.Key("field", "ignore_check", rec="lzma_block_coder@block_decoder.c",
                        domain=(0, 1), label="ignore_check")
K_IGNORE_LZIP = fd.Key("field", "ignore_check", rec="lzma_lzip_coder@lzip_decoder.c",
                       domain=(0, 1), label="ignore_check")
K_VERSION_LZIP = fd.Key("field", "version", rec="lzma_lzip_coder@lzip_decoder.c",
                        domain=range(256), label="version")

SF = "stream_flags_decoder.c"
SD = "stream_decoder.c"
MT = "stream_decoder_mt.c"
BD = "block_decoder.c"
BH = "block_header_decoder.c"
IH = "index_hash.c"
ID = "index_decoder.c"
LZ = "lzip_decoder.c"

TABLE = [
    # ---- Stream Header / Footer ------------------------------------------------
    MP("hdr-magic", "lzma_stream_header_decode", SF, [("cmp", "var:in", "var:lzma_header_magic")],
       ("ret", OK), plain=True, fail=("LZMA_FORMAT_ERROR",), why="Stream Header magic bytes"),
    MP("hdr-crc", "lzma_stream_header_decode", SF, [("cmp", "call:lzma_crc32", "call:read32le")],
       ("ret", OK), plain=True, fail=DATA, why="Stream Header CRC32"),
    MP("hdr-flags", "lzma_stream_header_decode", SF, [("res", "stream_flags_decode", ("false",))],
       ("ret", OK), plain=True, fail=("LZMA_OPTIONS_ERROR",), why="Stream Flags reserved bits"),
    MP("ftr-magic", "lzma_stream_footer_decode", SF, [("cmp", "var:in", "var:lzma_footer_magic")],
       ("ret", OK), plain=True, fail=("LZMA_FORMAT_ERROR",), why="Stream Footer magic bytes"),
    MP("ftr-crc", "lzma_stream_footer_decode", SF, [("cmp", "call:lzma_crc32", "call:read32le")],
       ("ret", OK), plain=True, fail=DATA, why="Stream Footer CRC32"),
    MP("ftr-flags", "lzma_stream_footer_decode", SF, [("res", "stream_flags_decode", ("false",))],
       ("ret", OK), plain=True, fail=("LZMA_OPTIONS_ERROR",), why="Stream Flags reserved bits"),
    MP("flags-byte0", "stream_flags_decode", SF, [("cmp", "idx:in", "const:0")],
       ("retval", (0,)), plain=True, why="first Stream Flags byte must be zero"),
    MP("flags-reserved", "stream_flags_decode", SF, [("test", "idx:in&const:240", "F")],
       ("retval", (0,)), plain=True, why="reserved high nibble of the second Stream Flags byte"),
    MP("cmp-check", "lzma_stream_flags_compare", "stream_flags_common.c",
       [("cmp", "var:a&field:check", "var:b&field:check")], ("ret", OK), plain=True, fail=DATA,
       why="header/footer Check IDs agree"),
    MP("cmp-backward", "lzma_stream_flags_compare", "stream_flags_common.c",
       [("cmp", "var:a&field:backward_size", "var:b&field:backward_size")], ("ret", OK), plain=True,
       fail=DATA, bypass=[("test", "field:backward_size&const:18446744073709551615", "F", ("!=",))],
       why="Backward Sizes agree when both are known"),
]


def stream_obligations(fn, file, run_states, idx_state, block_unit_src):
    """Obligations shared by the single-threaded and the threaded Stream decoder."""
    t = [
        MP(fn + ":header", fn, file, [("res", "lzma_stream_header_decode", OK)],
           ("ret", END), src=("SEQ_STREAM_HEADER",), init_seq=("SEQ_STREAM_HEADER",),
           why="Stream Header decoded and accepted"),
        MP(fn + ":index", fn, file, [("res", "lzma_index_hash_decode", END)],
           ("ret", END), src=("SEQ_STREAM_HEADER",), init_seq=("SEQ_STREAM_HEADER",),
           why="Index decoded and matched against the Blocks"),
        MP(fn + ":footer", fn, file, [("res", "lzma_stream_footer_decode", OK)],
           ("ret", END), src=("SEQ_STREAM_HEADER",), init_seq=("SEQ_STREAM_HEADER",),
           why="Stream Footer decoded and accepted"),
        MP(fn + ":backward", fn, file, [("cmp", "call:lzma_index_hash_size", "field:backward_size")],
           ("ret", END), src=("SEQ_STREAM_HEADER",), init_seq=("SEQ_STREAM_HEADER",), fail=DATA,
           why="Backward Size equals the size of the Index"),
        MP(fn + ":flags", fn, file, [("res", "lzma_stream_flags_compare", OK)],
           ("ret", END), src=("SEQ_STREAM_HEADER",), init_seq=("SEQ_STREAM_HEADER",),
           why="Stream Header and Footer flags agree"),
        # the same for every later Stream of a concatenated file
        MP(fn + ":next-stream", fn, file,
           [("res", "lzma_stream_flags_compare", OK)],
           ("call", "stream_decoder_reset"), src=("SEQ_STREAM_HEADER",), init_seq=("SEQ_STREAM_HEADER",),
           why="a new Stream starts only after the previous one was fully validated"),
        MP(fn + ":padding4", fn, file, [("cmp", "field:pos", "const:0")],
           ("ret", END), src=("SEQ_STREAM_PADDING",), init_seq=("SEQ_STREAM_HEADER",), fail=DATA,
           min_guards=2, states=("SEQ_STREAM_PADDING",), why="Stream Padding is a multiple of four bytes"),
        MP(fn + ":padding4-next", fn, file, [("cmp", "field:pos", "const:0")],
           ("call", "stream_decoder_reset"), src=("SEQ_STREAM_PADDING",), init_seq=("SEQ_STREAM_HEADER",),
           min_guards=2, states=("SEQ_STREAM_PADDING",), why="Stream Padding is a multiple of four bytes before the next Stream"),
    ]
    return t


TABLE += stream_obligations("stream_decode", SD, None, None, None)
TABLE += [
    MP("stream_decode:block-header", "stream_decode", SD, [("res", "lzma_block_header_decode", OK)],
       ("call", "slot:code"), src=("SEQ_BLOCK_HEADER",), init_seq=("SEQ_STREAM_HEADER",),
       why="Block data is decoded only after the Block Header was accepted"),
    MP("stream_decode:block-end", "stream_decode", SD, [("res", "slot:code", END)],
       ("seq", "SEQ_BLOCK_HEADER"), src=("SEQ_BLOCK_RUN",), init_seq=("SEQ_STREAM_HEADER",),
       why="next Block Header only after the Block decoder finished"),
    MP("stream_decode:hash-append", "stream_decode", SD, [("res", "lzma_index_hash_append", OK)],
       ("seq", "SEQ_BLOCK_HEADER"), src=("SEQ_BLOCK_RUN",), init_seq=("SEQ_STREAM_HEADER",),
       why="every finished Block is added to the Index hash"),
]
TABLE += stream_obligations("stream_decode_mt", MT, None, None, None)
TABLE += [
    MP("stream_decode_mt:hash-append-thr", "stream_decode_mt", MT,
       [("res", "lzma_index_hash_append", OK)],
       ("seq", "SEQ_BLOCK_THR_INIT"), src=("SEQ_BLOCK_INIT",), init_seq=("SEQ_STREAM_HEADER",),
       why="threaded mode: sizes from the Block Header are added to the Index hash before dispatch"),
    MP("stream_decode_mt:hash-append-direct", "stream_decode_mt", MT,
       [("res", "lzma_index_hash_append", OK)],
       ("seq", "SEQ_BLOCK_HEADER"), src=("SEQ_BLOCK_DIRECT_RUN",), init_seq=("SEQ_STREAM_HEADER",),
       why="direct mode: every finished Block is added to the Index hash"),
    MP("stream_decode_mt:direct-end", "stream_decode_mt", MT, [("res", "slot:code", END)],
       ("seq", "SEQ_BLOCK_HEADER"), src=("SEQ_BLOCK_DIRECT_RUN",), init_seq=("SEQ_STREAM_HEADER",),
       why="direct mode: next Block Header only after the Block decoder finished"),
    MP("decode_block_header:decode", "decode_block_header", MT,
       [("res", "lzma_block_header_decode", OK)], ("ret", END), plain=True,
       why="threaded decoder's Block Header step"),
]

TABLE += [
    # ---- Block ---------------------------------------------------------------------
    MP("block:end", "block_decode", BD, [("res", "slot:code", END)], ("ret", END),
       src=("SEQ_CODE",), init_seq=("SEQ_CODE",), why="filter chain finished"),
    MP("block:comp-size", "block_decode", BD,
       [("test", "call:is_size_valid&field:compressed_size", "T")], ("ret", END),
       src=("SEQ_CODE",), init_seq=("SEQ_CODE",), fail=DATA,
       why="Compressed Size matches the Block Header"),
    MP("block:uncomp-size", "block_decode", BD,
       [("test", "call:is_size_valid&field:uncompressed_size", "T")], ("ret", END),
       src=("SEQ_CODE",), init_seq=("SEQ_CODE",), fail=DATA,
       why="Uncompressed Size matches the Block Header"),
    MP("block:comp-size-before-publish", "block_decode", BD,
       [("test", "call:is_size_valid&field:compressed_size", "T")], ("write", "field:block&field:compressed_size"),
       src=("SEQ_CODE",), init_seq=("SEQ_CODE",),
       why="the Compressed Size from the Block Header is compared before it is overwritten with the counted size"),
    MP("block:uncomp-size-before-publish", "block_decode", BD,
       [("test", "call:is_size_valid&field:uncompressed_size", "T")], ("write", "field:block&field:uncompressed_size"),
       src=("SEQ_CODE",), init_seq=("SEQ_CODE",),
       why="the Uncompressed Size from the Block Header is compared before it is overwritten with the counted size"),
    MP("block:check", "block_decode", BD,
       [("cmp", "field:raw_check", "field:check&field:buffer")], ("ret", END),
       src=("SEQ_CODE",), init_seq=("SEQ_CODE",), fail=DATA,
       keys=(K_IGNORE_BLOCK,), init={"ignore_check": (0,)},
       bypass=[("test", "call:lzma_check_is_supported", "F"),
               ("cmp", "field:check", "enum:LZMA_CHECK_NONE")],
       why="Check field compared (bypass only: ignore_check, unsupported Check, Check None)"),
    # ---- Block Header ----------------------------------------------------------------
    MP("bh:crc", "lzma_block_header_decode", BH, [("cmp", "call:lzma_crc32", "call:read32le")],
       ("ret", OK), plain=True, fail=DATA, why="Block Header CRC32"),
    MP("bh:reserved", "lzma_block_header_decode", BH, [("test", "idx:in&const:60", "F")],
       ("ret", OK), plain=True, fail=("LZMA_OPTIONS_ERROR",), why="reserved Block Flags bits"),
    MP("bh:size", "lzma_block_header_decode", BH,
       [("cmp", "idx:in", "field:header_size")],
       ("ret", OK), plain=True, fail=("LZMA_PROG_ERROR",), why="Block Header Size byte consistent"),
    Present("bh:unpadded", "lzma_block_header_decode", BH,
            ("test", "call:lzma_block_unpadded_size", "F", ("==",)), DATA, plain=True,
            why="Compressed Size valid (unpadded size computable)"),
    # ---- Index hash ----------------------------------------------------------------------
    MP("ih:indicator", "lzma_index_hash_decode", IH, [("cmp", "idx:in", "const:0")], ("ret", END),
       src=("SEQ_BLOCK",), init_seq=("SEQ_BLOCK",), fail=DATA, why="Index Indicator byte"),
    MP("ih:count", "lzma_index_hash_decode", IH, [("cmp", "field:remaining", "field:count")],
       ("ret", END), src=("SEQ_BLOCK",), init_seq=("SEQ_BLOCK",), fail=DATA,
       why="Number of Records equals the number of Blocks decoded"),
    MP("ih:blocks-size", "lzma_index_hash_decode", IH,
       [("cmp", "field:blocks&field:blocks_size", "field:records&field:blocks_size")],
       ("ret", END), src=("SEQ_BLOCK",), init_seq=("SEQ_BLOCK",), fail=DATA,
       why="total Block sizes agree"),
    MP("ih:uncomp-size", "lzma_index_hash_decode", IH,
       [("cmp", "field:blocks&field:uncompressed_size", "field:records&field:uncompressed_size")],
       ("ret", END), src=("SEQ_BLOCK",), init_seq=("SEQ_BLOCK",), fail=DATA,
       why="total uncompressed sizes agree"),
    MP("ih:list-size", "lzma_index_hash_decode", IH,
       [("cmp", "field:blocks&field:index_list_size", "field:records&field:index_list_size")],
       ("ret", END), src=("SEQ_BLOCK",), init_seq=("SEQ_BLOCK",), fail=DATA,
       why="Index list sizes agree"),
    MP("ih:hash", "lzma_index_hash_decode", IH,
       [("cmp", "field:blocks&field:check", "field:records&field:check")],
       ("ret", END), src=("SEQ_BLOCK",), init_seq=("SEQ_BLOCK",), fail=DATA,
       why="hash of (unpadded, uncompressed) pairs agrees"),
    MP("ih:crc", "lzma_index_hash_decode", IH, [("cmp", "field:crc32", "idx:in")],
       ("ret", END), src=("SEQ_BLOCK",), init_seq=("SEQ_BLOCK",), fail=DATA, why="Index CRC32"),
    Present("ih:crc-4bytes", "lzma_index_hash_decode", IH,
            ("rel", "field:pos", "const:4", ("<",), "F"), (), init_seq=("SEQ_BLOCK",),
            why="all four CRC32 bytes are compared"),
    Present("ih:unpadded-range", "lzma_index_hash_decode", IH,
            ("rel", "field:unpadded_size", "const:5", ("<",), "F"), DATA, init_seq=("SEQ_BLOCK",),
            why="Unpadded Size lower bound"),
    Present("ih:running-sizes", "lzma_index_hash_decode", IH,
            ("rel", "field:blocks", "field:records", ("<",), "F"), DATA, init_seq=("SEQ_BLOCK",),
            count=3, why="running totals never exceed the Blocks' totals"),
    # ---- Index decoder ------------------------------------------------------------------------
    MP("id:indicator", "index_decode", ID, [("cmp", "idx:in", "const:0")], ("ret", END),
       src=("SEQ_INDICATOR",), init_seq=("SEQ_INDICATOR",), fail=DATA, why="Index Indicator byte"),
    MP("id:crc", "index_decode", ID, [("cmp", "field:crc32", "idx:in")], ("ret", END),
       src=("SEQ_INDICATOR",), init_seq=("SEQ_INDICATOR",), fail=DATA, why="Index CRC32"),
    Present("id:crc-4bytes", "index_decode", ID,
            ("rel", "field:pos", "const:4", ("<",), "F"), (), init_seq=("SEQ_INDICATOR",),
            why="all four CRC32 bytes are compared"),
    Present("id:unpadded-range", "index_decode", ID,
            ("rel", "field:unpadded_size", "const:5", ("<",), "F"), DATA, init_seq=("SEQ_INDICATOR",),
            why="Unpadded Size lower bound"),
    # ---- lzip -----------------------------------------------------------------------------------
    MP("lzip:end", "lzip_decode", LZ, [("res", "slot:code", END)], ("ret", END),
       src=("SEQ_VERSION",), init_seq=("SEQ_ID_STRING",), why="LZMA stream finished"),
    MP("lzip:crc", "lzip_decode", LZ, [("cmp", "field:crc32", "call:read32le")], ("ret", END),
       src=("SEQ_VERSION",), init_seq=("SEQ_ID_STRING",), fail=DATA,
       keys=(K_IGNORE_LZIP,), init={"ignore_check": (0,)}, why=".lz CRC32 (bypass only ignore_check)"),
    MP("lzip:data-size", "lzip_decode", LZ, [("cmp", "field:uncompressed_size", "call:read64le")],
       ("ret", END), src=("SEQ_VERSION",), init_seq=("SEQ_ID_STRING",), fail=DATA, why=".lz Data size"),
    MP("lzip:member-size", "lzip_decode", LZ, [("cmp", "field:member_size", "call:read64le")],
       ("ret", END), src=("SEQ_VERSION",), init_seq=("SEQ_ID_STRING",), fail=DATA,
       bypass=[("rel", "field:version", "const:0", (">",), "F")],
       why=".lz Member size (absent only in version 0)"),
    MP("lzip:next-member", "lzip_decode", LZ, [("cmp", "field:uncompressed_size", "call:read64le")],
       ("seq", "SEQ_ID_STRING"), src=("SEQ_VERSION",), init_seq=("SEQ_ID_STRING",),
       why="next member only after the footer was verified"),
    Present("lzip:version", "lzip_decode", LZ, ("rel", "field:version", "const:1", (">",), "F"),
            ("LZMA_OPTIONS_ERROR",), init_seq=("SEQ_ID_STRING",), why="unsupported .lz version"),
]

PAD = [
    Consume("block:padding", "block_decode", BD, ("SEQ_PADDING",), ("cmp", "idx:in", "const:0"), DATA,
            init_seq=("SEQ_CODE",), why="Block Padding bytes are zero"),
    Consume("ih:padding", "lzma_index_hash_decode", IH, ("SEQ_PADDING",), ("cmp", "idx:in", "const:0"),
            DATA, init_seq=("SEQ_BLOCK",), why="Index Padding bytes are zero"),
    Consume("id:padding", "index_decode", ID, ("SEQ_PADDING",), ("cmp", "idx:in", "const:0"), DATA,
            init_seq=("SEQ_INDICATOR",), why="Index Padding bytes are zero"),
    Consume("stream_decode:padding", "stream_decode", SD, ("SEQ_STREAM_PADDING",),
            ("cmp", "idx:in", "const:0"), DATA, init_seq=("SEQ_STREAM_HEADER",), guard_fails=False,
            why="Stream Padding bytes are zero (a non-zero byte starts the next Stream)"),
    Consume("stream_decode_mt:padding", "stream_decode_mt", MT, ("SEQ_STREAM_PADDING",),
            ("cmp", "idx:in", "const:0"), DATA, init_seq=("SEQ_STREAM_HEADER",), guard_fails=False,
            why="Stream Padding bytes are zero (a non-zero byte starts the next Stream)"),
]

HELPERS = [
    HasCmp("is_size_valid:eq", "is_size_valid", BD, "var:reference", "var:size",
           why="size helper really compares the size with the reference"),
    HasCmp("is_size_valid:unknown", "is_size_valid", BD, "var:reference", "const:18446744073709551615",
           why="size helper accepts only LZMA_VLI_UNKNOWN as wildcard"),
]

# C05-TRUNC: (function, file, init state, {state names where STREAM_END may be returned})
TRUNC = [
    ("stream_decode", SD, "SEQ_STREAM_HEADER", {"SEQ_STREAM_FOOTER", "SEQ_STREAM_PADDING"}),
    ("stream_decode_mt", MT, "SEQ_STREAM_HEADER", {"SEQ_STREAM_FOOTER", "SEQ_STREAM_PADDING"}),
    ("block_decode", BD, "SEQ_CODE", {"SEQ_PADDING", "SEQ_CHECK"}),
    ("lzma_index_hash_decode", IH, "SEQ_BLOCK", {"SEQ_CRC32"}),
    ("index_decode", ID, "SEQ_INDICATOR", {"SEQ_CRC32"}),
    ("lzip_decode", LZ, "SEQ_ID_STRING", {"SEQ_MEMBER_FOOTER", "SEQ_ID_STRING"}),
    ("alone_decode", "alone_decoder.c", "SEQ_PROPERTIES", {"SEQ_CODE"}),
    ("auto_decode", "auto_decoder.c", "SEQ_INIT", {"SEQ_CODE", "SEQ_FINISH"}),
    ("lzma2_decode", "lzma2_decoder.c", "SEQ_CONTROL", {"SEQ_CONTROL"}),
]


def check_trunc(ck, prog):
    ck.rule("C05-TRUNC", "LZMA_STREAM_END can be returned only in the expected terminal states")
    for fn, file, init, allowed in TRUNC:
        f = prog.fn(fn, file)
        ck.saw_function(f)
        m = graph_for(prog, f, (), {}, (init,), False)
        g = m.g
        END_V = m.rets["LZMA_STREAM_END"]
        seen_states = set()
        bad = []
        for node in g.nodes:
            if node[0] != f.exit:
                continue
            rv = g.get(node[1], "$ret")
            if rv is None or END_V in rv:
                sv = g.get(node[1], "seq") or ()
                for v in sv:
                    nm = m.names.get(v, str(v))
                    seen_states.add(nm)
                    if nm not in allowed:
                        bad.append(nm)
        for nm in sorted(seen_states | set(allowed)):
            ok = nm in allowed
            ck.ob("C05-TRUNC", "%s:%s" % (fn, nm), ok, common.where(f),
                  "LZMA_STREAM_END %s in state %s" % (
                      "returned" if nm in seen_states else "not reachable", nm) +
                  ("" if ok else " — not an expected terminal state: truncated input would be reported as success"),
                  key="TRUNC:%s:%s" % (fn, nm))
    ck.floor("C05-TRUNC", 12)


FLAG_FIELDS = {"tell_no_check": "LZMA_TELL_NO_CHECK", "tell_unsupported_check": "LZMA_TELL_UNSUPPORTED_CHECK",
               "tell_any_check": "LZMA_TELL_ANY_CHECK", "ignore_check": "LZMA_IGNORE_CHECK",
               "concatenated": "LZMA_CONCATENATED", "fail_fast": "LZMA_FAIL_FAST"}


def _width(prog, n):
    """Width in bits of the C type an arithmetic expression is evaluated in (32 unless a 64-bit operand)."""
    n = ex.deref(n)
    if n is None:
        return 32
    k = n.get("k")
    if k == "cast":
        ty = (n.get("ty") or "").replace("const ", "")
        if ty in ("lzma_vli", "uint64_t", "size_t", "unsigned long", "int64_t"):
            return 64
        if ty in ("uint32_t", "unsigned int", "int", "uint8_t", "uint16_t", "_Bool"):
            return 32
        return _width(prog, n["e"])
    if k == "mem":
        rec = prog.records.get(n.get("rec")) or {"fields": []}
        for fd_ in rec["fields"]:
            if fd_["n"] == n["f"]:
                ty = (fd_.get("ty") or "").replace("const ", "")
                return 64 if ty in ("lzma_vli", "uint64_t", "size_t") else 32
        return 32
    if k == "call":
        return 64 if n.get("fn") in ("read64le", "read64be") else 32
    if k == "const":
        return 64 if n["v"] > 0xFFFFFFFF else 32
    if k in ("bin",):
        if n["op"] in ("<<", ">>"):
            return _width(prog, n["l"])
        return max(_width(prog, n["l"]), _width(prog, n["r"]))
    if k == "un":
        return _width(prog, n["e"])
    return 32


def check_flags_and_width(ck, prog):
    ck.rule("C05-FLAGS", "each decoder flag member is derived from the flag constant of the same name")
    n = 0
    for f in prog.all_functions("liblzma"):
        if not f.blocks:
            continue
        for b, i, e in f.iter_elems():
            for (l, r, op, node) in ex.writes(e):
                ls = ex.strip(l)
                if ls is None or ls.get("k") != "mem" or ls["f"] not in FLAG_FIELDS or r is None or op != "=":
                    continue
                enums = sorted({x["n"] for x in ex.walk(r) if x.get("k") == "enum"} |
                               {x.get("M") or x.get("m") for x in ex.walk(r) if (x.get("M") or x.get("m") or "").startswith("LZMA_")})
                consts = [x["v"] for x in ex.walk(r) if x.get("k") == "const" and x["v"] > 0]
                if not any(x.get("k") == "bin" and x["op"] == "&" for x in ex.walk(r)):
                    continue        # copied from another member / constant
                n += 1
                want = FLAG_FIELDS[ls["f"]]
                wantv = FLAG_VALUES[want]
                ok = (consts == [wantv]) or (want in enums and len(consts) <= 1)
                ck.saw_function(f)
                ck.ob("C05-FLAGS", "%s:%s" % (f.name, ls["f"]), ok, common.where(f, node),
                      "%s: %s = flags & %#x (%s)" % (f.name, ex.show(l), consts[0] if consts else 0, want) if ok else
                      "%s(): member %s is derived from flag bit(s) %s instead of %s (%#x): the decoder %s" % (
                          f.name, ls["f"], [hex(c) for c in consts], want, wantv,
                          "skips integrity verification when the application did not ask for that"
                          if ls["f"] == "ignore_check" else "misinterprets the application's flags"),
                      key="FLAGS:%s:%s" % (f.name, ls["f"]))
    ck.floor("C05-FLAGS", 12)
    ck.rule("C05-WIDTH", "Backward Size is expanded with 64-bit arithmetic (a stored value >= 2^30 must not wrap)")
    f = prog.fn("lzma_stream_footer_decode", "stream_flags_decoder.c")
    ck.saw_function(f)
    k = 0
    for b, i, e in f.iter_elems():
        for (l, r, op, node) in ex.writes(e):
            if ex.show(l) != "options->backward_size" or r is None:
                continue
            def arith(n_):
                n_ = ex.deref(n_)
                if n_ is None or n_.get("k") == "call":
                    return
                if n_.get("k") == "bin" and n_["op"] in ("+", "*", "<<"):
                    yield n_
                for c_ in ex.children(n_):
                    yield from arith(c_)
            for x in arith(r):
                if True:
                    k += 1
                    w = _width(prog, x)
                    ck.ob("C05-WIDTH", "footer-backward-size@%d" % k, w >= 64, common.where(f, node),
                          "lzma_stream_footer_decode: `%s` is evaluated in %d-bit arithmetic" % (ex.show(x), w) if w >= 64 else
                          "lzma_stream_footer_decode(): `%s` is evaluated in 32-bit arithmetic: a stored Backward Size with "
                          "bit 30 or 31 set wraps around and a damaged footer is accepted" % ex.show(x),
                          key="WIDTH:footer-backward-size")
    if k == 0:
        raise AnalysisBroken("lzma_stream_footer_decode: Backward Size arithmetic not found")


FLAG_VALUES = {"LZMA_TELL_NO_CHECK": 1, "LZMA_TELL_UNSUPPORTED_CHECK": 2, "LZMA_TELL_ANY_CHECK": 4,
               "LZMA_IGNORE_CHECK": 0x10, "LZMA_CONCATENATED": 8, "LZMA_FAIL_FAST": 0x20}


def check_ignore_check_flow(ck, prog, rule="C05-IGNCHK", parts=("version", "after-header")):
    """(version) lzma_block.ignore_check exists only in structures with version >= 1 (block.h): in a version-0 structure the
    byte is a reserved member that applications were never asked to initialise, so lzma_block_decoder_init() may read it
    only on the `version >= 1` side of a test of block->version.
    (after-header) lzma_block_header_decode() always stores ignore_check = false; a stream decoder that was given
    LZMA_IGNORE_CHECK therefore has to store the flag into block_options after that call, on every path that goes on to
    use block_options."""
    if "version" in parts:
        f = prog.fn("lzma_block_decoder_init", "block_decoder.c")
        ck.saw_function(f)
        reads = {b.id for b, i, e in f.iter_elems() for x in ex.walk(e, into_refs=False)
                 if x.get("k") == "mem" and x.get("f") == "ignore_check" and x.get("rec") == "lzma_block"}
        if not reads:
            raise AnalysisBroken("lzma_block_decoder_init: no read of lzma_block.ignore_check")

        def v0_succ(b):
            """successor taken when block->version == 0, or None when the branch does not test the version"""
            c = ex.strip(b.term["cond"]) if b.term and "cond" in b.term else None
            if c is None or len(b.succs) != 2:
                return None
            neg = False
            while c.get("k") == "un" and c["op"] == "!":
                neg, c = not neg, ex.strip(c["e"])
            if c.get("k") == "paren":
                c = ex.strip(c["e"])
            if c.get("k") == "mem" and c.get("f") == "version":
                val = 0
            elif c.get("k") == "bin" and c["op"] in ("==", "!=", "<", "<=", ">", ">="):
                l, r = ex.strip(c["l"]), ex.strip(c["r"])
                if l.get("k") == "mem" and l.get("f") == "version" and ex.const_val(r) is not None:
                    a, b_ = 0, ex.const_val(r)
                elif r.get("k") == "mem" and r.get("f") == "version" and ex.const_val(l) is not None:
                    a, b_ = ex.const_val(l), 0
                else:
                    return None
                val = {"==": a == b_, "!=": a != b_, "<": a < b_, "<=": a <= b_, ">": a > b_, ">=": a >= b_}[c["op"]]
            else:
                return None
            return b.succs[0] if bool(val) != neg else b.succs[1]
        seen, st = set(), [f.entry]
        while st:
            x = st.pop()
            if x in seen or x is None:
                continue
            seen.add(x)
            b = f.blocks[x]
            s0 = v0_succ(b)
            st.extend([s0] if s0 is not None else [y for y in b.succs if y is not None])
        bad = sorted(reads & seen)
        ck.ob(rule, "version-gated-read", not bad, common.where(f),
              "lzma_block_decoder_init reads block->ignore_check only where block->version >= 1" if not bad else
              "lzma_block_decoder_init() reads block->ignore_check also when block->version is 0: in a version-0 lzma_block that byte "
              "is a reserved member the application never initialised, and a non-zero value makes the Block decoder skip the Check "
              "comparison (damaged data reported as success)", key="IGNCHK:version-gated-read")
    if "after-header" in parts:
        for nm, file, user in (("stream_decode", "stream_decoder.c", "lzma_block_decoder_init"),
                               ("decode_block_header", "stream_decoder_mt.c", None)):
            f = prog.fn(nm, file)
            ck.saw_function(f)
            H = [(b.id, i) for b, i, e in f.iter_elems() for c in ex.calls(e, into_refs=False)
                 if c.get("fn") == "lzma_block_header_decode"]
            S = [(b.id, i) for b, i, e in f.iter_elems() for (l, r, op, node) in ex.writes(e)
                 if ex.show(l).endswith("block_options.ignore_check")]
            if not H:
                raise AnalysisBroken("%s: call of lzma_block_header_decode not found" % nm)
            sblocks = {b for b, i in S}

            def is_dst(bid):
                b = f.blocks[bid]
                for e in b.elems:
                    if e is None:
                        continue
                    if user and any(c.get("fn") == user for c in ex.calls(e, into_refs=False)):
                        return True
                    e_ = ex.deref(e)
                    if not user and e_.get("k") == "ret":
                        rv = ex.strip(e_.get("e")) if e_.get("e") is not None else None
                        if rv is None or not (rv.get("k") == "var" and rv.get("n") in ("ret_", "ret")):
                            return True
                return False
            open_ = None
            for hb, hi in H:
                if any(b == hb and i > hi for b, i in S):
                    continue
                seen, st = set(), [y for y in f.blocks[hb].succs if y is not None]
                while st:
                    x = st.pop()
                    if x in seen or x in sblocks:
                        continue
                    seen.add(x)
                    if is_dst(x):
                        open_ = x
                        break
                    st.extend(y for y in f.blocks[x].succs if y is not None)
            ck.ob(rule, "flag-after-header:" + nm, open_ is None, common.where(f),
                  "%s: block_options.ignore_check is stored after lzma_block_header_decode() on every path that uses block_options" % nm
                  if open_ is None else
                  "%s(): after lzma_block_header_decode() (which always stores ignore_check = false) %s can be reached without a store to "
                  "block_options.ignore_check: LZMA_IGNORE_CHECK is silently dropped by this decoder (the single-threaded and the "
                  "threaded decoder then disagree about the same file)" % (
                      nm, ("%s()" % user) if user else "the successful return"), key="IGNCHK:flag-after-header:" + nm)


def run(ck):
    ck.explanation = (
        "Edge-cut rule on the resume-aware (block x finite state) product graph of every container "
        "decoder: after deleting the passing edges of the branches that perform a demanded validation "
        "(magic, CRC32s, sizes, Index hash, Backward Size, header/footer flags, Check, .lz footer), no "
        "success exit may remain reachable from the decoder's initial state; plus: padding bytes are "
        "compared on consumption; LZMA_STREAM_END only from terminal states.")
    ck.not_decided = ("that a flipped payload bit is caught by the Check (statistical); the LZMA/LZMA2 "
                      "payload decoders' own end conditions are under C03; tool exit status under C18.")
    prog = common.program(ck, ("liblzma",))
    ck.rule("C05-OBL", "every path from the initial state to a success exit passes the validation "
            "(passing edge of the comparison / tested call result); violating edge returns the fail code")
    evaluate(ck, prog, "C05-OBL", TABLE)
    evaluate_hascmp(ck, prog, "C05-OBL", HELPERS)
    ck.floor("C05-OBL", 55)
    ck.rule("C05-PAD", "padding bytes: every consumption in the padding state is a compare-with-zero guard")
    evaluate_consume(ck, prog, "C05-PAD", PAD)
    ck.floor("C05-PAD", 5)
    check_trunc(ck, prog)
    check_flags_and_width(ck, prog)
    # "provided the file carries an integrity check": the SHA-256 the decoder compares with covers every byte (C14 rules)
    from . import C14 as _C14
    _C14.check_sha(ck, prog)
    # ... and the tools turn every decoder error into a non-zero exit status, whatever the verbosity (C17 rule)
    from . import C17 as _C17
    _C17.check_msg_status(ck, common.program(ck, ("xz",), files=("/message.c",)), rule="C05-XZSTATUS")
    # block.h: "lzma_block_header_decode() always sets ignore_check to false": a caller's lzma_block that still holds
    # `true` (or garbage) from an earlier use would otherwise make lzma_block_decoder() skip the integrity check
    from . import reinit
    hd = prog.fn("lzma_block_header_decode", "block_header_decoder.c")
    ck.saw_function(hd)
    cutb = {b.id for b, i, e in hd.iter_elems() for (l, r, op, node) in ex.writes(e)
            if ex.strip(l) is not None and ex.strip(l).get("k") == "mem" and ex.strip(l)["f"] == "ignore_check" and
            r is not None and ex.is_const(r, 0)}
    if not cutb:
        raise AnalysisBroken("lzma_block_header_decode: the store block->ignore_check = false was not found")
    w = reinit._reach_ok_return(prog, hd, cutb)
    ck.rule("C05-IGNCHK", "lzma_block_header_decode() stores ignore_check = false on every path that returns LZMA_OK")
    ck.ob("C05-IGNCHK", "lzma_block_header_decode", w is None, common.where(hd),
          "lzma_block_header_decode: ignore_check = false on every LZMA_OK path" if w is None else
          "lzma_block_header_decode() can return LZMA_OK via %s without storing block->ignore_check = false: the flag keeps "
          "whatever the caller's structure held, and lzma_block_decoder() then accepts a Block whose Check does not match "
          "(damaged data reported as success)" % w, key="IGNCHK:lzma_block_header_decode")
    check_ignore_check_flow(ck, prog)
    ck.floor("C05-IGNCHK", 4)
    # Stream Padding / footer positions counted across calls (a damaged stream must be rejected however it is sliced)
    from . import reinit
    ck.rule("C05-ACCUM", "counters that a decoder state tests (Stream Padding alignment, positions) accumulate across calls")
    reinit.check_accumulators(ck, prog, "C05-ACCUM", files={"stream_decoder.c", "stream_decoder_mt.c", "lzip_decoder.c",
                                                            "alone_decoder.c", "block_decoder.c", "index_decoder.c"})
    ck.rule("C05-INITCONS", "a re-used container decoder starts like a fresh one")
    reinit.check_init_consistency(ck, prog, "C05-INITCONS", files={"stream_decoder.c", "lzip_decoder.c", "alone_decoder.c",
                                                                   "block_decoder.c", "index_decoder.c", "auto_decoder.c"})
