"""C01 — lossless compression (the clauses whose truth is a path shape or a table).

C01-ADV    every path through a match-finder find() call / skip() iteration advances the window exactly once
           (move_pos or move_pending), after the chain/tree slot of the current position was written and every
           hash table of that finder was updated with the current position; find/skip siblings agree.
C01-NORM   move_pos(): the increment of read_pos is followed on every path by the wrap test that guards
           normalize(); normalize() rebases hash[] and son[] with one and the same rule and moves offset by the
           same amount; the window fields have a frozen set of writer functions.
C01-RESET  encoder and decoder reset functions initialise every probability of their coder (all array
           dimensions covered), state, reps and range coder, and agree on the initial values.
C01-TAB    encoder/decoder filter tables: same IDs, and the property sizes the encoder writes are the ones the
           decoder accepts.
"""
import re

from sa import ex, cfg, guard
from sa.compdb import AnalysisBroken
from . import common

MF = "lz_encoder_mf.c"
FINDERS = {"hc3": 2, "hc4": 3, "bt2": 1, "bt3": 2, "bt4": 3}        # number of hash tables updated
ADVANCE = ("move_pos", "move_pending")
SLOT_WRITERS = ("hc_find_func", "bt_find_func", "bt_skip_func")


# --------------------------------------------------------------------------------------------------------------
def elem_events(e):
    """Events of one CFG element: 'adv:<fn>', 'slot', 'hash:<index text>'."""
    out = []
    e = ex.deref(e)
    if e.get("k") == "call" and e.get("fn") in ADVANCE:
        out.append(("adv", e["fn"], ex.line(e)))
    if e.get("k") == "call" and e.get("fn") in SLOT_WRITERS:
        out.append(("slot", e["fn"], ex.line(e)))
    if e.get("k") == "asg" and e["op"] == "=":
        l = ex.strip(e["l"])
        if l.get("k") == "idx":
            base = ex.show(l["b"])
            if base == "mf->son" and ex.show(l["i"]) == "mf->cyclic_pos":
                out.append(("slot", "son[cyclic_pos] store", ex.line(e)))
            if base == "mf->hash" and ex.show(e["r"]) == "pos":
                out.append(("hash", ex.show(l["i"]), ex.line(e)))
    return out


def path_states(f, start, stops, reset_at=None):
    """Forward dataflow over path-sensitive abstract states (advances 0..2, slot written?, frozenset of hash
    indices updated).  Returns {block: set(states at block entry)} and the list of (state, line) seen at each
    advance call."""
    init = (0, False, frozenset())
    at = {start: {init}}
    work = [start]
    adv_sites = []
    while work:
        b = work.pop()
        blk = f.blocks[b]
        outs = set()
        for st in at[b]:
            n, slot, hs = st
            if reset_at is not None and b == reset_at:
                n, slot, hs = 0, False, frozenset()
            for e in blk.elems:
                if e is None:
                    continue
                for ev in elem_events(e):
                    if ev[0] == "adv":
                        adv_sites.append(((n, slot, hs), ev[1], ev[2]))
                        n = min(n + 1, 2)
                    elif ev[0] == "slot":
                        slot = True
                    elif ev[0] == "hash":
                        hs = hs | {ev[1]}
            outs.add((n, slot, hs))
        if b in stops:
            continue
        for s_ in cfg.succs(f, b):
            cur = at.setdefault(s_, set())
            new = outs - cur
            if new:
                cur |= new
                work.append(s_)
    return at, adv_sites


def check_adv(ck, prog):
    ck.rule("C01-ADV", "exactly one window advance per find() call / skip() iteration, after the slot of the "
                       "current position and all hash tables were updated")
    hash_sets = {}
    for name, nhash in FINDERS.items():
        for kind in ("find", "skip"):
            fn = "lzma_mf_%s_%s" % (name, kind)
            f = prog.fn(fn, MF, required=False)
            if f is None:
                raise AnalysisBroken("match finder %s vanished" % fn)
            ck.saw_function(f)
            loop = None
            if kind == "skip":
                for b in f.blocks.values():
                    if b.term and "cond" in b.term and "amount" in ex.show(b.term["cond"]):
                        loop = b.id
                if loop is None:
                    raise AnalysisBroken("%s: per-byte loop not recognised" % fn)
            at, adv = path_states(f, f.entry, {f.exit}, reset_at=None if kind == "find" else loop)
            if kind == "find":
                ends = at.get(f.exit, set())
                where_ = "at return"
            else:
                ends = at.get(loop, set())
                where_ = "at the end of an iteration"
            counts = sorted({s[0] for s in ends})
            ck.ob("C01-ADV", fn + ":once", counts == [1], common.where(f),
                  "%s: number of move_pos/move_pending calls %s is %s on the %d path classes" % (
                      fn, where_, ["0", "1", "2 or more"][counts[0]] if len(counts) == 1 else
                      " / ".join(["0", "1", "2 or more"][c] for c in counts), len(ends)),
                  key="ADV:%s:once" % fn)
            bad_slot = [(a, ln) for (st, a, ln) in adv if a == "move_pos" and not st[1]]
            ck.ob("C01-ADV", fn + ":slot-first", not bad_slot and any(a == "move_pos" for _, a, _ in adv),
                  common.where(f),
                  "%s: the chain/tree slot of cyclic_pos is written before every move_pos()" % fn if not bad_slot
                  else "%s: move_pos() at line %d is reachable without the slot of the current position having "
                       "been written" % (fn, bad_slot[0][1]), key="ADV:%s:slot" % fn)
            hs_at_pos = {st[2] for (st, a, ln) in adv if a == "move_pos"}
            okh = bool(hs_at_pos) and all(len(h) == nhash for h in hs_at_pos) and len(hs_at_pos) == 1
            ck.ob("C01-ADV", fn + ":hash", okh, common.where(f),
                  "%s: %d hash table(s) updated with the current position before move_pos(): %s" % (
                      fn, nhash, sorted(sorted(h) for h in hs_at_pos)), key="ADV:%s:hash" % fn)
            if hs_at_pos:
                hash_sets[(name, kind)] = sorted(hs_at_pos, key=sorted)[0]
            pend = [st for (st, a, ln) in adv if a == "move_pending"]
            okp = bool(pend) and all(not st[2] and not st[1] for st in pend)
            ck.ob("C01-ADV", fn + ":pending-clean", okp, common.where(f),
                  "%s: move_pending() only on paths that touched neither hash nor tree" % fn,
                  key="ADV:%s:pending" % fn)
        a, b = hash_sets.get((name, "find")), hash_sets.get((name, "skip"))
        ck.ob("C01-ADV", name + ":siblings", a is not None and a == b, "src/liblzma/lz/" + MF,
              "%s: find and skip update the same hash slots %s" % (name, sorted(a) if a else a),
              key="ADV:%s:siblings" % name)
    # lzma_mf_find: read_ahead counts every find call
    f = prog.fn("lzma_mf_find", MF)
    ck.saw_function(f)
    doms = cfg.dominators(f)
    inc = [b.id for b, i, e in f.iter_elems() if ex.deref(e).get("k") == "un" and ex.deref(e)["op"] in ("pre++", "post++")
           and ex.show(ex.deref(e)["e"]) == "mf->read_ahead"]
    rets = cfg.returns(f)
    ok = len(inc) == 1 and all(inc[0] in doms[r] for r in _ret_blocks(f))
    ck.ob("C01-ADV", "lzma_mf_find:read_ahead", ok, common.where(f),
          "lzma_mf_find: ++read_ahead on every path (once)", key="ADV:lzma_mf_find:read_ahead")
    ck.floor("C01-ADV", 46)


def _ret_blocks(f):
    return [b.id for b in f.blocks.values() if any(e is not None and ex.deref(e).get("k") == "ret" for e in b.elems)]


# --------------------------------------------------------------------------------------------------------------
WRITERS = {
    # field -> functions allowed to store to it (frozen from the current tree; a new writer must be reviewed
    # against the position arithmetic of lz_encoder.h)
    "read_pos": {"move_window", "fill_window", "lz_encoder_prepare", "lzma_lz_encoder_init", "lz_encoder_init",
                 "move_pos", "move_pending", "lz_encoder_update"},
    "offset": {"move_window", "lz_encoder_init", "lz_encoder_prepare", "normalize"},
    "cyclic_pos": {"move_pos", "lz_encoder_init", "lz_encoder_prepare"},
    "pending": {"move_pending", "fill_window", "lz_encoder_init", "lz_encoder_prepare"},
    "read_ahead": {"lzma_mf_find", "mf_skip", "lz_encoder_init", "lz_encoder_prepare", "encode_symbol",
                   "encode_eopm", "lzma_lzma_encode", "lzma2_encode", "encode_init", "encode_sequence"},
    "write_pos": {"fill_window", "move_window", "lz_encoder_init", "lz_encoder_prepare"},
}


def _only_called_by(prog, g, allowed, depth=0):
    """the callers of static function g if there are any and all of them are in `allowed` (transitively through other
    static helpers), else an empty set"""
    callers = set()
    for fs in prog.functions.values():
        for h in fs:
            if not h.blocks or h.tu != g.tu or h.name == g.name:
                continue
            if any(c.get("fn") == g.name for b, i, e in h.iter_elems() for c in ex.calls(e, into_refs=False)):
                callers.add(h)
    if not callers:
        return set()
    out = set()
    for h in callers:
        if h.name in allowed:
            out.add(h.name)
        elif h.static and depth < 2:
            sub = _only_called_by(prog, h, allowed, depth + 1)
            if not sub:
                return set()
            out |= sub
        else:
            return set()
    return out


def check_norm(ck, prog, whole):
    ck.rule("C01-NORM", "wrap test after every read_pos increment; normalize() treats hash[] and son[] alike; "
                        "frozen writer sets of the window position fields")
    f = prog.fn("move_pos", MF)
    ck.saw_function(f)
    # must-pass: after ++read_pos every path to exit crosses the test  read_pos + offset == UINT32_MAX
    inc = [(b.id, i) for b, i, e in f.iter_elems() if ex.deref(e).get("k") == "un" and
           ex.show(ex.deref(e)["e"]) == "mf->read_pos" and "++" in ex.deref(e)["op"]]
    tests = [b for b in f.blocks.values() if b.term and "cond" in b.term and
             "read_pos" in ex.show(b.term["cond"]) and "offset" in ex.show(b.term["cond"])]
    ok = len(inc) == 1 and len(tests) == 1
    why = "move_pos: ++read_pos at one place, followed by the wrap test"
    if ok:
        t = tests[0]
        c = ex.strip(t.term["cond"])
        val = ex.const_val(c["r"]) if c.get("k") == "bin" and c["op"] == "==" else None
        pdoms = cfg.dominators(f, forward=False)
        ok = val == 0xFFFFFFFF and t.id in pdoms[inc[0][0]] | {inc[0][0]}
        tb = f.blocks[t.succs[0]]
        calls_norm = any(c_.get("fn") == "normalize" for e in tb.elems if e for c_ in ex.calls(e))
        ok = ok and calls_norm
        why = "move_pos: after ++read_pos every path tests read_pos + offset == %s and calls normalize() when " \
              "true" % (hex(val) if val is not None else "?")
    ck.ob("C01-NORM", "move_pos:wrap-test", ok, common.where(f), why, key="NORM:move_pos:wrap-test")
    cyc = [ex.show(n) for b, i, e in f.iter_elems() for (l, r, op, n) in ex.writes(e) if "cyclic_pos" in ex.show(l)]
    tests = [ex.show(b.term["cond"]) for b in f.blocks.values() if b.term and "cond" in b.term and
             "cyclic_pos" in ex.show(b.term["cond"])]
    ck.ob("C01-NORM", "move_pos:cyclic", sorted(cyc) == ["++mf->cyclic_pos", "mf->cyclic_pos = 0"] and
          tests == ["++mf->cyclic_pos == mf->cyclic_size"], common.where(f),
          "move_pos: cyclic_pos incremented and wrapped to 0 at cyclic_size: %s / %s" % (cyc, tests),
          key="NORM:move_pos:cyclic")

    f = prog.fn("normalize", MF)
    ck.saw_function(f)
    loops = {}
    for b in f.blocks.values():
        if b.term and "cond" in b.term and len(b.succs) == 2:
            c = ex.strip(b.term["cond"])
            txt = ex.show(c)
            m = re.match(r"mf->(hash|son)\[i\] <= subvalue$", txt)
            if m:
                tb, fb = f.blocks[b.succs[0]], f.blocks[b.succs[1]]
                wt = [ex.show(n) for e in tb.elems if e for (l, r, op, n) in ex.writes(e)]
                wf = [ex.show(n) for e in fb.elems if e for (l, r, op, n) in ex.writes(e)]
                loops[m.group(1)] = (wt, wf)
    bounds = sorted(ex.show(b.term["cond"]) for b in f.blocks.values() if b.term and "cond" in b.term and
                    ex.show(b.term["cond"]).startswith("i <"))
    okl = set(loops) == {"hash", "son"} and all(
        loops[t] == (["mf->%s[i] = 0" % t], ["mf->%s[i] -= subvalue" % t]) for t in loops) and \
        bounds == ["i < mf->hash_count", "i < mf->sons_count"]
    ck.ob("C01-NORM", "normalize:tables", okl, common.where(f),
          "normalize: hash[0..hash_count) and son[0..sons_count) rebased with the same rule "
          "(<= subvalue -> empty, else -= subvalue): %s, bounds %s" % (loops, bounds), key="NORM:normalize:tables")
    offw = [ex.show(n) for b, i, e in f.iter_elems() for (l, r, op, n) in ex.writes(e) if ex.show(l) == "mf->offset"]
    sub = [ex.show(ex.deref(e).get("init")) for b, i, e in f.iter_elems() if ex.deref(e).get("k") == "decl" and
           ex.deref(e)["n"] == "subvalue"]
    ck.ob("C01-NORM", "normalize:offset", offw == ["mf->offset -= subvalue"] and
          sub == ["4294967295 - mf->cyclic_size"], common.where(f),
          "normalize: offset moved by the same subvalue = UINT32_MAX - cyclic_size: %s, %s" % (offw, sub),
          key="NORM:normalize:offset")
    # writer sets
    mfrec = None
    seen = {k: set() for k in WRITERS}
    for g in whole.all_functions():
        for b, i, e in g.iter_elems():
            for (l, r, op, n) in ex.writes(e):
                ls = ex.strip(l)
                if ls is not None and ls.get("k") == "mem" and ls.get("rec") in ("lzma_mf_s", "lzma_mf") and \
                        ls["f"] in WRITERS:
                    if g.static and g.name not in WRITERS[ls["f"]] and _only_called_by(whole, g, WRITERS[ls["f"]]):
                        # a static helper all of whose callers are writers of the member is part of them (code that was
                        # extracted from a writer stays a writer)
                        seen[ls["f"]].add(sorted(_only_called_by(whole, g, WRITERS[ls["f"]]))[0])
                        continue
                    seen[ls["f"]].add(g.name)
                    if g.name not in WRITERS[ls["f"]]:
                        ck.ob("C01-NORM", "writer:%s:%s" % (ls["f"], g.name), False, common.where(g),
                              "%s() stores to lzma_mf.%s at line %s but is not one of its known writers %s" % (
                                  g.name, ls["f"], ex.line(n), sorted(WRITERS[ls["f"]])),
                              key="NORM:writer:%s:%s" % (ls["f"], g.name))
    for fld in WRITERS:
        if not seen[fld]:
            raise AnalysisBroken("no writer of lzma_mf.%s found" % fld)
        ck.ob("C01-NORM", "writers:" + fld, seen[fld] <= WRITERS[fld], "src/liblzma/lz/lz_encoder.h",
              "lzma_mf.%s is stored to only by %s" % (fld, sorted(seen[fld])), key="NORM:writers:" + fld)
    ck.floor("C01-NORM", 10)


# --------------------------------------------------------------------------------------------------------------
def dims_of(ty):
    return [int(x) for x in re.findall(r"\[(\d+)\]", ty or "")]


def loop_bound(f, var, vid):
    """(kind, value) for the loop controlled by the local with declaration id `vid`: ('const', N) exclusive
    bound or ('dyn', text)."""
    init = None

    def is_var(n):
        n = ex.strip(n)
        return n is not None and n.get("k") == "var" and n.get("id") == vid
    for b, i, e in f.iter_elems():
        e = ex.deref(e)
        if e.get("k") == "decl" and e.get("id") == vid and e.get("init") is not None:
            init = ex.const_val(e["init"])
        if e.get("k") == "asg" and e["op"] == "=" and is_var(e["l"]):
            init = ex.const_val(e["r"])
    res = []
    for b in f.blocks.values():
        if b.term and "cond" in b.term:
            c = ex.strip(b.term["cond"])
            if c.get("k") == "bin" and c["op"] in ("<", "<=") and is_var(c["l"]):
                v = ex.const_val(c["r"])
                if v is not None:
                    res.append(("const", v + (1 if c["op"] == "<=" else 0)))
                else:
                    res.append(("dyn", "%s %s" % (c["op"], ex.show(c["r"]))))
    return init, res


def prob_writes(prog, f, var, prefix=(), depth=0, recs=None):
    """[(field path, [index bounds], value, line, fn)] for stores `var->path[..] = v` in f and in callees that
    receive var / &var->member / var->member."""
    out = []
    for b, i, e in f.iter_elems():
        for (l, r, op, n) in ex.writes(e):
            p = lvpath_simple(l)
            if p is None or p[0] != var:
                continue
            fields = tuple(x[1] for x in p[1] if x[0] == "f")
            idx = [x[1] for x in p[1] if x[0] == "i"]
            bounds = []
            for ix in idx:
                ixs = ex.strip(ix)
                if ixs.get("k") == "var":
                    bounds.append(loop_bound(f, ixs["n"], ixs.get("id")))
                elif ex.const_val(ixs) is not None:
                    bounds.append((None, [("at", ex.const_val(ixs))]))
                else:
                    bounds.append((None, [("dyn", ex.show(ixs))]))
            out.append((prefix + fields, bounds, ex.const_val(r) if r is not None else None, ex.line(n), f.name))
        if depth < 2:
            for c in ex.calls(e, into_refs=False):
                if not c.get("fn"):
                    continue
                for ai, a in enumerate(c["args"]):
                    a2 = ex.strip(a)
                    if a2 is not None and a2.get("k") == "un" and a2["op"] == "&":
                        a2 = ex.strip(a2["e"])
                    p = lvpath_simple(a2) if a2 is not None else None
                    if p is None or p[0] != var:
                        continue
                    fields = tuple(x[1] for x in p[1] if x[0] == "f")
                    if any(x[0] == "i" for x in p[1]):
                        continue
                    for g in prog.functions.get(c["fn"], []):
                        if ai < len(g.params) and g.blocks:
                            sub = prob_writes(prog, g, g.params[ai]["n"], prefix + fields, depth + 1)
                            out.extend(sub)
                            break
    return out


def lvpath_simple(n):
    """(root var, [('f', name) | ('i', index expr)]) of an lvalue expression."""
    steps = []
    n = ex.strip(n)
    while n is not None:
        k = n.get("k")
        if k == "mem":
            steps.append(("f", n["f"]))
            n = ex.strip(n["b"])
        elif k == "idx":
            steps.append(("i", n["i"]))
            n = ex.strip(n["b"])
        elif k == "un" and n["op"] in ("*", "&"):
            n = ex.strip(n["e"])
        elif k == "var":
            return n["n"], steps[::-1]
        else:
            return None
    return None


DYN_OK = {
    "<= coder->pos_mask": "pos_mask = (1 << pb) - 1, pb <= 4, arrays sized for 16 position states",
    "< num_pos_states": "num_pos_states = 1 << pb",
    "< coders": "literal coders in use = 0x300 << (lc + lp), lc + lp <= 4 validated by is_lclppb_valid",
}


def check_reset(ck, prog):
    ck.rule("C01-RESET", "reset functions initialise every probability of the coder over its full dimensions; "
                         "encoder and decoder start from the same model")
    sides = {}
    for side, fn, file, rec, var in (("encoder", "lzma_lzma_encoder_reset", "lzma_encoder.c", "lzma_lzma1_encoder_s", "coder"),
                                     ("decoder", "lzma_decoder_reset", "lzma_decoder.c", "lzma_lzma1_decoder@lzma_decoder.c", "coder")):
        f = prog.fn(fn, file)
        ck.saw_function(f)
        record = prog.record(rec)
        # probability members, recursing into the length coder records
        members = []

        def collect(r, prefix):
            for fld in r["fields"]:
                ty = fld.get("ty") or ""
                if ty.startswith("probability") and "*" not in ty:
                    members.append((prefix + (fld["n"],), dims_of(ty)))
                elif ty.startswith("lzma_length_"):
                    sub = None
                    for cand in (ty, ty + "@" + file):
                        if cand in prog.records:
                            sub = prog.record(cand)
                    if sub is None:
                        raise AnalysisBroken("record %s not found" % ty)
                    collect(sub, prefix + (fld["n"],))
        collect(record, ())
        if len(members) < 18:
            raise AnalysisBroken("%s: only %d probability members found" % (rec, len(members)))
        ws = prob_writes(prog, f, var)
        init_vals = set()
        for path, dims in members:
            hits = [w for w in ws if w[0] == path]
            ok = False
            why = "never written by %s" % fn
            for (pth, bounds, val, ln, where_fn) in hits:
                if len(bounds) != len(dims):
                    why = "written at line %d with %d of %d indices" % (ln, len(bounds), len(dims))
                    continue
                good = True
                for (init, res), d in zip(bounds, dims):
                    if len(res) != 1:
                        good = False
                        why = "index bound at line %d not recognised: %s" % (ln, res)
                        break
                    kind, v = res[0]
                    if kind == "const":
                        if init != 0 or v != d:
                            good = False
                            why = "loop at line %d covers [%s, %s) of a dimension of %d" % (ln, init, v, d)
                            break
                    elif kind == "dyn":
                        if init != 0 or v not in DYN_OK:
                            good = False
                            why = "loop at line %d has unrecognised bound `%s`" % (ln, v)
                            break
                    else:
                        good = False
                        why = "single element %s written at line %d" % (v, ln)
                        break
                if good:
                    ok = True
                    init_vals.add(val)
                    why = "all %s element(s) set to %s (line %d, %s)" % ("x".join(map(str, dims)) or "1", val, ln, where_fn)
                    break
            ck.ob("C01-RESET", "%s:%s" % (side, ".".join(path)), ok, common.where(f),
                  "%s %s: %s" % (side, ".".join(path), why), key="RESET:%s:%s" % (side, ".".join(path)))
        # scalar model state
        scal = {}
        for (pth, bounds, val, ln, where_fn) in ws:
            if pth and pth[0] in ("state", "rep0", "rep1", "rep2", "rep3", "reps"):
                scal.setdefault(pth[0], set()).add(val)
        want = {"state", "reps"} if side == "encoder" else {"state", "rep0", "rep1", "rep2", "rep3"}
        ck.ob("C01-RESET", side + ":state-reps", set(scal) == want and all(v == {0} for v in scal.values()),
              common.where(f), "%s: state = STATE_LIT_LIT (0) and all four reps = 0: %s" % (
                  side, {k: sorted(v, key=str) for k, v in scal.items()}), key="RESET:%s:state-reps" % side)
        rcw = {pth[1] for (pth, bounds, val, ln, where_fn) in ws if len(pth) == 2 and pth[0] == "rc"}
        ck.ob("C01-RESET", side + ":rc", len(rcw) >= 3, common.where(f),
              "%s: range coder reset (%s)" % (side, sorted(rcw)), key="RESET:%s:rc" % side)
        masks = {pth[0]: ln for (pth, bounds, val, ln, where_fn) in ws if pth and pth[0] in
                 ("pos_mask", "literal_context_bits", "literal_mask")}
        mtxt = {}
        for b, i, e in f.iter_elems():
            for (l, r, op, n) in ex.writes(e):
                if ex.show(l) in ("coder->pos_mask", "coder->literal_context_bits", "coder->literal_mask"):
                    mtxt[ex.show(l)] = ex.show(r)
        sides[side] = (init_vals, mtxt)
        ck.ob("C01-RESET", side + ":masks", len(masks) == 3, common.where(f),
              "%s: pos_mask, literal_context_bits, literal_mask derived from the options" % side,
              key="RESET:%s:masks" % side)
    ck.ob("C01-RESET", "same-initial-probability", sides["encoder"][0] == sides["decoder"][0] == {1024},
          "src/liblzma/lzma", "encoder and decoder start every probability at %s / %s" % (
              sorted(sides["encoder"][0], key=str), sorted(sides["decoder"][0], key=str)), key="RESET:same-init")
    ck.ob("C01-RESET", "same-mask-formulas", sides["encoder"][1] == sides["decoder"][1], "src/liblzma/lzma",
          "encoder and decoder derive pos_mask / literal_mask / lc identically: %s" % sides["encoder"][1],
          key="RESET:same-masks")
    ck.floor("C01-RESET", 44)


# --------------------------------------------------------------------------------------------------------------
def table_rows(prog, name, file):
    g = prog.glob(name, file)
    if g is None or not g.get("init"):
        raise AnalysisBroken("table %s vanished" % name)
    rows = []
    for r in ex.strip(g["init"])["e"]:
        r = ex.strip(r)
        rows.append(dict(zip(r.get("fields", []), r["e"])))
    return rows


def fn_name(n):
    n = ex.strip(n)
    while n is not None and n.get("k") == "un" and n["op"] == "&":
        n = ex.strip(n["e"])
    if n is None:
        return None
    if n.get("k") == "var":
        return n["n"]
    return None


def check_tab(ck, prog):
    ck.rule("C01-TAB", "encoder and decoder filter tables describe the same filters; property sizes agree")
    enc = table_rows(prog, "encoders", "filter_encoder.c")
    dec = table_rows(prog, "decoders", "filter_decoder.c")
    eid = [ex.const_val(r["id"]) for r in enc]
    did = [ex.const_val(r["id"]) for r in dec]
    ck.ob("C01-TAB", "same-ids", sorted(eid) == sorted(did) and len(set(eid)) == len(eid) and len(eid) >= 12,
          "src/liblzma/common/filter_encoder.c", "encoders[] and decoders[] list the same %d filter IDs" % len(eid),
          key="TAB:same-ids")
    drow = {ex.const_val(r["id"]): r for r in dec}
    for r in enc:
        fid = ex.const_val(r["id"])
        fixed = ex.const_val(r["props_size_fixed"]) if "props_size_fixed" in r else None
        getter = fn_name(r.get("props_size_get")) if r.get("props_size_get") is not None else None
        d = drow.get(fid)
        if d is None:
            continue
        pd = fn_name(d.get("props_decode"))
        g = None
        for cand in prog.functions.get(pd, []):
            if cand.blocks:
                g = cand
        if g is None:
            raise AnalysisBroken("props_decode function %s not found" % pd)
        ck.saw_function(g)
        # sizes accepted: constants compared with props_size on the path to LZMA_OK
        accepted = set()
        for b in g.blocks.values():
            if b.term and "cond" in b.term:
                for x in ex.walk(b.term["cond"]):
                    if x.get("k") == "bin" and x["op"] in ("==", "!=") and ex.show(x["l"]) == "props_size":
                        v = ex.const_val(x["r"])
                        if v is not None:
                            accepted.add(v)
        if getter:
            gf = None
            for cand in prog.functions.get(getter, []):
                if cand.blocks:
                    gf = cand
            sizes = set()
            if gf is not None:
                for b, i, e in gf.iter_elems():
                    for (l, rr, op, n) in ex.writes(e):
                        if ex.show(l) == "*size":
                            if ex.const_val(rr) is not None:
                                sizes.add(ex.const_val(rr))
                            else:
                                for x in ex.walk(rr):
                                    if x.get("k") == "const":
                                        sizes.add(x["v"])
            ok = bool(sizes) and sizes == accepted
            txt = "encoder may write %s property bytes, decoder accepts %s" % (sorted(sizes), sorted(accepted))
        else:
            ok = fixed is not None and accepted == {fixed}
            txt = "encoder writes %s property bytes, decoder accepts %s" % (fixed, sorted(accepted))
        ck.ob("C01-TAB", "props-size:%#x" % fid, ok, common.where(g), "filter %#x: %s" % (fid, txt),
              key="TAB:props-size:%#x" % fid)
        # every encoder row has the functions it needs
        ck.ob("C01-TAB", "row:%#x" % fid, fn_name(r.get("init")) is not None and
              fn_name(r.get("props_encode")) is not None or (fixed == 0), "src/liblzma/common/filter_encoder.c",
              "filter %#x: encoder init %s, props_encode %s; decoder init %s" % (
                  fid, fn_name(r.get("init")), fn_name(r.get("props_encode")), fn_name(d.get("init"))),
              key="TAB:row:%#x" % fid)
    ck.floor("C01-TAB", 20)


def check_lzma2_flags(ck, prog):
    """The LZMA2 encoder announces a state reset in the chunk header exactly when need_state_reset is set; the LZMA
    encoder must then really have been reset (and only then), otherwise encoder and decoder models diverge."""
    from .oblig import MP, evaluate
    F = "lzma2_encoder.c"
    table = [
        MP("reset-only-when-flagged", "lzma2_encode", F, [("test", "field:need_state_reset", "T")],
           ("call", "lzma_lzma_encoder_reset"), src=("SEQ_INIT",), init_seq=("SEQ_INIT",), resume=False,
           why="lzma_lzma_encoder_reset() is called only when need_state_reset is set (the header says 'state reset' "
               "exactly then)"),
        MP("flagged-implies-reset", "lzma2_encode", F, [("test", "field:need_state_reset", "F")],
           ("call", "lzma_lzma_encode"), src=("SEQ_INIT",), init_seq=("SEQ_INIT",), resume=False,
           cut_calls=("lzma_lzma_encoder_reset",),
           why="a chunk is LZMA-encoded after SEQ_INIT only if need_state_reset was clear or the encoder was reset"),
    ]
    ck.rule("C01-LZMA2", "state-reset flag of the LZMA2 encoder and the actual reset of the LZMA encoder are paired")
    evaluate(ck, prog, "C01-LZMA2", table, floor=2)
    # the header writer derives the reset bits from the same flags and clears them
    f = prog.fn("lzma2_header_lzma", F)
    ck.saw_function(f)
    cleared = sorted({ex.show(l) for b, i, e in f.iter_elems() for (l, r, op, n) in ex.writes(e)
                      if "need_" in ex.show(l) and r is not None and ex.const_val(r) == 0})
    tests = sorted({ex.show(b.term["cond"]) for b in f.blocks.values() if b.term and "cond" in b.term and
                    "need_" in ex.show(b.term["cond"])})
    ck.ob("C01-LZMA2", "header-flags", cleared == ["coder->need_dictionary_reset", "coder->need_properties",
                                                   "coder->need_state_reset"] and len(tests) == 3,
          common.where(f), "lzma2_header_lzma: control byte chosen from %s; flags cleared afterwards: %s" % (tests, cleared),
          key="LZMA2:header-flags")
    g = prog.fn("lzma2_encode", F)
    sets = [(ex.show(l), ex.line(n)) for b, i, e in g.iter_elems() for (l, r, op, n) in ex.writes(e)
            if ex.show(l) == "coder->need_state_reset" and r is not None and ex.const_val(r) == 1]
    hdr = [ex.line(c) for b, i, e in g.iter_elems() for c in ex.calls(e, into_refs=False)
           if c.get("fn") == "lzma2_header_uncompressed"]
    ck.ob("C01-LZMA2", "uncompressed-needs-reset", len(sets) == 1 and len(hdr) == 1 and abs(sets[0][1] - hdr[0]) <= 2,
          common.where(g), "lzma2_encode: after an uncompressed chunk need_state_reset is set (lines %s / %s)" % (sets, hdr),
          key="LZMA2:uncompressed-needs-reset")


def check_emit_state(ck, prog, rule="C01-EMITSTATE"):
    """rc_shift_low() can stop in the middle of its loop when the output buffer is full (`return true`) and is entered
    again from the top with the next buffer: whatever the loop carries from one iteration to the next has to live in
    the lzma_range_encoder record (rc->cache, rc->cache_size), never in a local."""
    ck.rule(rule, "the byte loop of rc_shift_low carries its state in rc members only: no local that is declared outside the "
            "loop is assigned inside it (the function can return from inside the loop and be re-entered)")
    fs = [f for f in prog.functions.get("rc_shift_low", []) if f.blocks]
    if not fs:
        raise AnalysisBroken("rc_shift_low vanished")
    f = fs[0]
    ck.saw_function(f)
    loop = {b for b in f.blocks if cfg.in_cycle(f, b)} if hasattr(cfg, "in_cycle") else \
        {b for b in f.blocks if b in cfg.reachable(f, [y for y in f.blocks[b].succs if y is not None])}
    rets_in_loop = [b.id for b, i, e in f.iter_elems() if ex.deref(e).get("k") == "ret"
                    and any(p in loop for p in f.blocks[b.id].preds)]
    if not loop:
        raise AnalysisBroken("rc_shift_low: byte loop not found")
    declared_in_loop = set()
    for b, i, e in f.iter_elems():
        d = ex.deref(e)
        if d.get("k") == "decl" and b.id in loop:
            declared_in_loop.add(d["n"])
    bad = None
    n = 0
    for b, i, e in f.iter_elems():
        if b.id not in loop:
            continue
        for (l, r, op, node) in ex.writes(e):
            ls = ex.strip(l)
            n += 1
            if ls is not None and ls.get("k") == "var" and ls.get("s") != "p" and ls["n"] not in declared_in_loop:
                bad = bad or (ls["n"], node)
    if not rets_in_loop:
        bad = None      # the loop cannot be left by a return: nothing is carried across a re-entry (OUTPOS/OUTIDX decide the bounds)
    ck.ob(rule, "rc_shift_low", bad is None, common.where(f, bad[1] if bad else None),
          "rc_shift_low: the %d stores inside the byte loop go to rc members / *out_pos / out[]" % n if bad is None else
          "rc_shift_low(): local `%s` is assigned inside the byte loop (`%s`) but the function returns from inside that loop "
          "when the output buffer is full and starts again from the top on the next call: the value is lost, so the bytes "
          "emitted depend on where the output buffer ended" % (bad[0], ex.show(bad[1])[:60]),
          key="EMITSTATE:rc_shift_low")
    # a byte that was emitted from a member (rc->cache) is not emitted again by a re-entered call: the member is
    # overwritten before the function can return with "output full"
    susp = set()
    for b, i, e in f.iter_elems():
        d = ex.deref(e)
        if d.get("k") == "ret" and d.get("e") is not None and ex.const_val(ex.strip(d["e"])) == 1:
            susp.add(b.id)
    if not susp:
        raise AnalysisBroken("rc_shift_low: `return true` not found")
    nem, bad2 = 0, None
    for b, i, e in f.iter_elems():
        for (l, r, op, node) in ex.writes(e):
            ls = ex.strip(l)
            if not (ls is not None and ls.get("k") == "idx" and ex.show(ls["b"]) == "out" and r is not None):
                continue
            mems = sorted({ex.show(x) for x in ex.walk(r) if x.get("k") == "mem" and ex.show(x).startswith("rc->")
                           and x.get("f") not in ("low",)})
            for M in mems:
                nem += 1

                def stores_M(bid, after=-1):
                    return any(ex.show(l2) == M for ii, e2 in enumerate(f.blocks[bid].elems) if e2 is not None and ii > after
                               for (l2, r2, op2, n2) in ex.writes(e2))
                if stores_M(b.id, i):
                    continue
                seen, st = set(), [y for y in b.succs if y is not None]
                while st:
                    x = st.pop()
                    if x in seen:
                        continue
                    seen.add(x)
                    if x in susp:
                        bad2 = bad2 or (M, node)
                        break
                    if stores_M(x):
                        continue
                    st.extend(y for y in f.blocks[x].succs if y is not None)
    if nem < 1:
        raise AnalysisBroken("rc_shift_low: no emission that reads an rc member")
    ck.ob(rule, "rc_shift_low:emitted-member-replaced", bad2 is None, common.where(f, bad2[1] if bad2 else None),
          "rc_shift_low: a member that was emitted is overwritten before the function can return with the output full" if bad2 is None else
          "rc_shift_low(): after `%s` has emitted %s the function can return true (output full) without storing a new value to %s: "
          "the re-entered call emits the stale value again, so the compressed bytes depend on where the output buffer ended" % (
              ex.show(bad2[1])[:60], bad2[0], bad2[0]), key="EMITSTATE:rc_shift_low:emitted-member-replaced")


def check_outpos(ck, prog):
    """The range encoder's byte emitters (real and dummy) advance *out_pos one byte at a time, each step behind the
    test `*out_pos == out_size`: the dummy must stop exactly where the real one would, otherwise the size prediction
    used for out_limit (LZMA2 chunk size, MicroLZMA) disagrees with what is emitted."""
    from sa import avail
    from . import C04
    ck.rule("C01-OUTPOS", "rc_shift_low / rc_shift_low_dummy advance *out_pos by single steps, each dominated by "
                          "`*out_pos == out_size` -> stop on every path")
    n = 0
    for fname in ("rc_shift_low", "rc_shift_low_dummy"):
        fs = [f for f in prog.functions.get(fname, []) if f.blocks]
        if not fs:
            raise AnalysisBroken("%s vanished" % fname)
        f = fs[0]
        ck.saw_function(f)
        g = C04.graph_of(prog, f)
        t = avail.Triple("$none", "out_pos", "out_size", True)
        nonunit = []

        def uses(tt, e):
            r = []
            if e is None:
                return r
            for x in ex.walk(e, into_refs=False):
                if x.get("k") == "un" and x["op"] in ("pre++", "post++") and tt.is_pos(x["e"]):
                    r.append(x)
            return r
        for b, i, e in f.iter_elems():
            for (l, r, op, node) in ex.writes(e):
                if t.is_pos(l) and not (ex.deref(node).get("k") == "un"):
                    # a block advance is fine behind a comparison of the amount with the space left
                    doms_ = cfg.dominators(f).get(b.id, ())
                    amt = ex.show(r) if r is not None else "?"
                    guarded = any(f.blocks[d].term and "cond" in f.blocks[d].term and
                                  "out_size" in ex.show(f.blocks[d].term["cond"]) and
                                  amt in ex.show(f.blocks[d].term["cond"]) for d in doms_ if d != b.id)
                    if not guarded:
                        nonunit.append(node)
        orig = avail.elem_uses
        avail.elem_uses = uses
        try:
            bad, nuses = avail.solve(g, t)
        finally:
            avail.elem_uses = orig
        n += nuses
        okk = not bad and not nonunit and nuses > 0
        w = nonunit[0] if nonunit else (bad[0][2] if bad else None)
        ck.ob("C01-OUTPOS", fname, okk, common.where(f, w),
              "%s: %d single-step advance(s) of *out_pos, each with *out_pos < out_size established" % (fname, nuses)
              if okk else
              ("%s(): `%s` moves *out_pos by more than one byte without comparing against out_size: the position can pass "
               "out_size, so the %s stops at a different point than its sibling" % (
                   fname, ex.show(w)[:60], "dummy" if "dummy" in fname else "encoder") if nonunit else
               "%s(): *out_pos is advanced on a path where `*out_pos == out_size` has not been tested since the last advance"
               % fname) if (nonunit or bad) else "%s(): no advance of *out_pos found" % fname,
              key="OUTPOS:" + fname)
    # rc_encode() handles RC_FLUSH as a symbol: the loop normalises (range < RC_TOP_VALUE -> shift) BEFORE it looks at the
    # next symbol, so a normalisation that the last real symbol left pending is done before the five flush bytes.  The
    # dummy has no RC_FLUSH symbol; its loop therefore has to pass the normalisation test once more after the last symbol
    # and only then leave for the flush, otherwise its byte count is one short for some symbol alignments.
    fs = [f for f in prog.functions.get("rc_encode_dummy", []) if f.blocks]
    if not fs:
        raise AnalysisBroken("rc_encode_dummy vanished")
    f = fs[0]
    ck.saw_function(f)
    incs = [b.id for b, i, e in f.iter_elems() for x in [ex.deref(e)] if x.get("k") == "un" and x.get("op") in ("pre++", "post++")
            and ex.show(x["e"]) == "pos"]
    norm = {b.id for b in f.blocks.values() if b.term and "cond" in b.term and "range" in ex.show(b.term["cond"]) and
            ex.const_val(ex.strip(b.term["cond"]).get("r")) == (1 << 24)}
    calls = [(b.id, ex.line(c) or 0) for b, i, e in f.iter_elems() for c in ex.calls(e, into_refs=True)
             if c.get("fn") == "rc_shift_low_dummy"]
    if not incs or not norm or len(calls) < 2:
        raise AnalysisBroken("rc_encode_dummy: loop increment / normalisation test / flush call not found")
    flushb = max(calls, key=lambda t: t[1])[0]
    mainb = min(calls, key=lambda t: t[1])[0]
    # the `++pos` of the symbol loop is the one from which the main-loop shift call is reachable again
    sym_incs = [b for b in incs if mainb in cfg.reachable(f, [b]) and b != flushb]
    open_ = False
    for src in sym_incs:
        seen, st = set(), [y for y in f.blocks[src].succs if y is not None]
        while st:
            x = st.pop()
            if x in seen or x in norm:
                continue
            seen.add(x)
            if x == flushb:
                open_ = True
                break
            st.extend(y for y in f.blocks[x].succs if y is not None)
    n += 1
    ck.ob("C01-OUTPOS", "rc_encode_dummy:normalize-before-flush", bool(sym_incs) and not open_, common.where(f),
          "rc_encode_dummy: after the last symbol the normalisation test is passed before the flush bytes are counted"
          if sym_incs and not open_ else
          "rc_encode_dummy(): the flush loop can be reached from `++pos` without passing `range < RC_TOP_VALUE`: a normalisation "
          "left pending by the last symbol is not counted (rc_encode() performs it before RC_FLUSH), so the predicted size is "
          "one byte short and an output-size-limited encoder exceeds its limit", key="OUTPOS:rc_encode_dummy:normalize-before-flush")
    return n


def check_window(ck, prog):
    """Match-finder window rule: a candidate at distance delta = pos - cur_match may be used only if
    delta < cyclic_size (= dict_size + 1), i.e. the chain/tree walk stops on `delta >= cyclic_size`.  The three walkers
    (hc_find_func, bt_find_func, bt_skip_func) are siblings and must agree; the son[] index wraps with
    `delta > cyclic_pos`.  With `>` instead of `>=` the encoder emits a distance one larger than the dictionary the
    decoder keeps (valid-looking stream that the decoder rejects)."""
    ck.rule("C01-WINDOW", "hash-chain and binary-tree walkers stop at delta >= cyclic_size and wrap the son index with "
                          "delta > cyclic_pos (sibling agreement)")
    n = 0
    for fn in ("hc_find_func", "bt_find_func", "bt_skip_func"):
        f = prog.fn(fn, "lz_encoder_mf.c")
        ck.saw_function(f)
        stop = []
        for b in f.blocks.values():
            if b.term and "cond" in b.term:
                c = ex.strip(b.term["cond"])
                if c.get("k") == "bin" and {ex.show(c["l"]), ex.show(c["r"])} == {"delta", "cyclic_size"}:
                    rel = c["op"] if ex.show(c["l"]) == "delta" else {"<": ">", ">": "<", "<=": ">=", ">=": "<="}.get(c["op"], c["op"])
                    stop.append((rel, c))
        wraps = []
        for b, i, e in f.iter_elems():
            for x in ex.walk(e, into_refs=False):
                if x.get("k") == "cond":
                    c = ex.strip(x["c"])
                    if c.get("k") == "bin" and {ex.show(c["l"]), ex.show(c["r"])} == {"delta", "cyclic_pos"}:
                        rel = c["op"] if ex.show(c["l"]) == "delta" else {"<": ">", ">": "<", "<=": ">=", ">=": "<="}.get(c["op"], c["op"])
                        wraps.append((rel, ex.show(x["t"]), ex.show(x["f"])))
        for b in f.blocks.values():
            if b.term and b.term.get("kind") == "ConditionalOperator" and "cond" in b.term:
                c = ex.strip(b.term["cond"])
                if c.get("k") == "bin" and {ex.show(c["l"]), ex.show(c["r"])} == {"delta", "cyclic_pos"}:
                    rel = c["op"] if ex.show(c["l"]) == "delta" else {"<": ">", ">": "<", "<=": ">=", ">=": "<="}.get(c["op"], c["op"])
                    wraps.append((rel, None, None))
        if not stop or not wraps:
            raise AnalysisBroken("%s: window test (delta vs cyclic_size) or son-index wrap (delta vs cyclic_pos) not found" % fn)
        n += 1
        ok = all(r == ">=" for r, c in stop) and all(w[0] == ">" for w in wraps)
        ck.ob("C01-WINDOW", fn, ok, common.where(f, stop[0][1]),
              "%s: stops on delta >= cyclic_size, wraps on delta > cyclic_pos" % fn if ok else
              "%s(): the walk stops on `delta %s cyclic_size` and wraps the son index on `delta %s cyclic_pos` (expected >= and "
              ">): a candidate exactly cyclic_size positions back is taken, i.e. a match distance one larger than the "
              "dictionary; the decoder rejects the stream" % (fn, stop[0][0], wraps[0][0]), key="WINDOW:" + fn)
    ck.floor("C01-WINDOW", 3)


def check_limit_terms(ck, prog):
    """lzma_lzma_encode() stops filling an LZMA2 chunk when `*out_pos + rc_pending() >= LZMA2_CHUNK_MAX - margin` (tested at
    the top of the loop).  One more iteration then encodes ONE symbol.  If the chunk ends up incompressible, lzma2_encode()
    stores `uncompressed_size + mf->read_ahead` bytes as one uncompressed chunk, whose size field is 16 bits.  With c the
    tested value (c <= 65535 - margin), k the output bytes of the last symbol and ra the read-ahead left by the optimum
    parser:   stored size <= (c + k) + ra   (fallback only if compressed >= uncompressed).  k is at most one byte per
    queued range-coder operation (RC_SYMBOLS_MAX, the length of rc.symbols[]) and ra <= OPTS - 1 (OPTS = length of
    coder->opts[]).  So the margin has to be at least OPTS + RC_SYMBOLS_MAX - 2; the rule asks for OPTS + RC_SYMBOLS_MAX.
    Both constants are read from the array types of the records, the margin from the (constant-folded) comparison."""
    ck.rule("C01-LIMITS", "the LZMA2 chunk cut-off leaves room for the read-ahead of one optimum run and the output of one symbol")
    f = prog.fn("lzma_lzma_encode", "lzma_encoder.c")
    ck.saw_function(f)
    conds = [b.term["cond"] for b in f.blocks.values() if b.term and "cond" in b.term and "rc_pending" in ex.show(b.term["cond"])]
    if not conds:
        raise AnalysisBroken("lzma_lzma_encode: no branch condition mentioning rc_pending()")
    c = ex.strip(conds[0])
    lim = ex.const_val(c.get("r")) if c.get("k") == "bin" and c["op"] in (">=", ">") else None
    if lim is None:
        raise AnalysisBroken("lzma_lzma_encode: `%s` is not a comparison with a constant" % ex.show(c)[:80])
    if c["op"] == ">":
        lim += 1
    import re

    def arrlen(recprefix, member):
        for rn, rec in prog.records.items():
            if rn.startswith(recprefix):
                for fd_ in rec["fields"]:
                    if fd_["n"] == member:
                        m = re.search(r"\[(\d+)\]", fd_.get("ty") or "")
                        if m:
                            return int(m.group(1))
        raise AnalysisBroken("length of %s.%s[] not found" % (recprefix, member))
    opts = arrlen("lzma_lzma1_encoder", "opts")
    rcmax = arrlen("lzma_range_encoder", "symbols")
    CH = 1 << 16
    need = opts + rcmax
    ok = CH - lim >= need
    ck.ob("C01-LIMITS", "lzma2-chunk-cutoff", ok, common.where(f, conds[0]),
          "chunk cut-off at %d = LZMA2_CHUNK_MAX - %d; OPTS = %d, RC_SYMBOLS_MAX = %d, needed margin %d" % (
              lim, CH - lim, opts, rcmax, need) if ok else
          "lzma_lzma_encode(): the chunk is cut at %d output bytes, a margin of %d below LZMA2_CHUNK_MAX; the iteration that "
          "follows the test can leave up to OPTS - 1 = %d bytes of read-ahead and add up to RC_SYMBOLS_MAX = %d output bytes, so "
          "an incompressible chunk can reach %d + %d + %d > 65536 bytes and the 16-bit size field of the uncompressed-chunk "
          "fallback wraps (corrupt stream, no error)" % (lim, CH - lim, opts - 1, rcmax, lim - 1, rcmax, opts - 1),
          key="LIMITS:lzma2-chunk-cutoff")
    ck.floor("C01-LIMITS", 1)


def check_order(ck, prog):
    """Two ordering obligations of the LZMA encoders."""
    ck.rule("C01-ORDER", "position bookkeeping is committed before the encoder can suspend; the history reserve for "
                         "uncompressed LZMA2 chunks is applied after the LZMA encoder has filled in lz_options")
    f = prog.fn("lzma_lzma_encode", "lzma_encoder.c")
    ck.saw_function(f)
    rcb = [(b, i) for b, i, e in f.iter_elems() for c in ex.calls(e, into_refs=True)
           if c.get("fn") == "rc_encode" and ex.deref(e) is c or (ex.deref(e).get("k") == "call" and ex.deref(e).get("fn") == "rc_encode")]
    sym = [b.id for b, i, e in f.iter_elems() for c in ex.calls(e, into_refs=False) if c.get("fn") == "encode_symbol"]
    if not rcb or not sym:
        raise AnalysisBroken("lzma_lzma_encode: encode_symbol()/rc_encode() not found")

    def via(bb, ii, ee):
        return any(ex.show(l) == "coder->uncomp_size" and op == "+=" for (l, r, op, n) in ex.writes(ee))
    # the rc_encode() call that follows encode_symbol() in the main loop
    ok = True
    n_sites = 0
    for (b, i) in rcb:
        if b.id not in cfg.reachable(f, sym) or not (set(sym) & cfg.reachable(f, cfg.succs(f, b.id))):
            continue            # only the rc_encode() inside the symbol loop
        n_sites += 1
        same = any(via(b, j, b.elems[j]) for j in range(0, i) if b.elems[j] is not None)
        if not same:
            o, _p = cfg.must_pass(f, sym, [b.id], via)
            ok = ok and o
    ck.ob("C01-ORDER", "uncomp-size-before-suspend", ok and n_sites > 0, common.where(f),
          "lzma_lzma_encode: coder->uncomp_size += len happens before rc_encode() can make the function return with the "
          "symbol already handed to the range coder" if ok and n_sites else
          "lzma_lzma_encode(): rc_encode() (which returns LZMA_OK to the caller when the output buffer is full) is reached "
          "after encode_symbol() without `coder->uncomp_size += len`: when the call is resumed the position context "
          "(pos_state) lags behind the symbols already encoded and the stream cannot be decoded",
          key="ORDER:uncomp-size-before-suspend")
    g = prog.fn("lzma2_encoder_init", "lzma2_encoder.c")
    ck.saw_function(g)
    stores = [(b, i, n) for b, i, e in g.iter_elems() for (l, r, op, n) in ex.writes(e)
              if ex.show(l) == "lz_options->before_size"]
    if not stores:
        raise AnalysisBroken("lzma2_encoder_init: store to lz_options->before_size not found")
    okb = True
    for (b, i, n) in stores:
        def viac(bb, ii, ee):
            if bb.id == b.id and ii >= i:
                return False
            return any(c.get("fn") == "lzma_lzma_encoder_create" for c in ex.calls(ee, into_refs=False))
        same = any(viac(b, j, b.elems[j]) for j in range(0, i) if b.elems[j] is not None)
        if not same:
            o, _p = cfg.must_pass(g, [g.entry], [b.id], viac)
            okb = okb and o
    ck.ob("C01-ORDER", "lzma2-history-reserve", okb, common.where(g, stores[0][2]),
          "lzma2_encoder_init: lz_options->before_size is raised to LZMA2_CHUNK_MAX - dict_size after "
          "lzma_lzma_encoder_create() has set it" if okb else
          "lzma2_encoder_init(): lz_options->before_size is stored before lzma_lzma_encoder_create(), which overwrites it "
          "(before_size = OPTS): with a small dictionary the window no longer keeps the 64 KiB of history that an "
          "uncompressed chunk copies from, and the chunk contains wrong bytes", key="ORDER:lzma2-history-reserve")


def check_drain(ck, prog, rule="C01-DRAIN"):
    from .oblig import MP as _MP, evaluate as _evaluate
    ck.rule(rule, "lzma_lzma_encode reports the end of the stream only after rc_encode() has written every pending byte")
    _evaluate(ck, prog, rule, [
        _MP("end-after-drain", "lzma_lzma_encode", "lzma_encoder.c", [("test", "call:rc_encode", "F")],
            ("ret", ("LZMA_STREAM_END",)), plain=True,
            why="LZMA_STREAM_END is returned only on paths where an rc_encode() call reported that nothing is left pending "
                "(otherwise the last bytes of an .lzma stream are lost when the output buffer filled during the final flush)"),
    ], floor=1)


def run(ck):
    ck.explanation = (
        "Path-shape and table clauses of losslessness: the match finders advance the window exactly once per byte "
        "after updating their hash/chain/tree structures (find and skip siblings agree), the 32-bit position wrap is "
        "tested after every advance and normalize() treats both tables alike, the probability model of encoder and "
        "decoder is completely and identically initialised by their reset functions, and the filter tables agree.")
    ck.not_decided = ("LZ77 parsing and optimal-parse prices, range coder arithmetic, window sizes "
                      "(keep_size_before/after), LZMA2 chunk limits, output-size limiting, dictionary wrap, preset "
                      "dictionaries, the round trip itself for all inputs and configurations.")
    prog = common.program(ck, ("liblzma",), files=("/lz/", "/lzma/", "/common/filter_encoder.c",
                                                    "/common/filter_decoder.c", "/simple/simple_encoder.c",
                                                    "/simple/simple_decoder.c", "/delta/"))
    check_adv(ck, prog)
    check_norm(ck, prog, prog)
    check_reset(ck, prog)
    check_tab(ck, prog)
    check_lzma2_flags(ck, prog)
    check_order(ck, prog)
    check_outpos(ck, prog)
    check_emit_state(ck, prog)
    check_window(ck, prog)
    check_limit_terms(ck, prog)
    # a mid-stream lc/lp/pb change must reset the encoder's model too (C12), and the size bound that becomes the Compressed
    # Size of the uncompressed fallback must be exact (C02): both are necessary for the stream to decode to the input
    from .oblig import MP as _MP, evaluate as _evaluate
    check_drain(ck, common.program(ck, ("liblzma",)))
    # a Delta filter in the chain: its encoder loops and the decoder's loop are inverse of each other (shared with C15)
    from . import C15 as _C15
    _C15.check_delta(ck, common.program(ck, ("liblzma",)), rule="C01-DELTA")
    from . import C12, C02
    ck.rule("C12-UPD", "update functions: allowed states and validation order")
    C12.check_upd(ck, common.program(ck, ("liblzma",)))
    C02.check_bound(ck, common.program(ck, ("liblzma",)))
    from . import C03
    pdec = common.program(ck, ("liblzma",), files=("/lz/lz_decoder.c", "/lzma/lzma_decoder.c"))
    C03.check_dict_siblings(ck, pdec)
    C03.check_dict_fresh(ck, pdec, rule="C01-DICTFRESH")
    # the Index that the encoder writes has to be accepted by the decoder however the output buffer was sliced: its
    # running CRC32 covers exactly the bytes before the CRC32 field (C06-CRC), and a re-used encoder starts from what
    # its init function stores (READFIRST/INITCONS, shared with C06)
    from . import C06, reinit
    pall = common.program(ck, ("liblzma",))
    C06.check_crc(ck, pall)
    ck.rule("C01-READFIRST", "encoders: what the coding function can read before storing to it is stored by the init function on every path returning LZMA_OK")
    reinit.check_read_first(ck, pall, "C01-READFIRST", files={"lzma_encoder.c", "lzma2_encoder.c", "lz_encoder.c", "delta_common.c",
                                                             "simple_coder.c", "alone_encoder.c", "stream_encoder.c",
                                                             "block_encoder.c", "index_encoder.c", "microlzma_encoder.c"})
    ck.floor("C01-READFIRST", 20)
