"""C17 — xz never loses user data (structural clauses over src/xz).

C17-ORDER  io_close: the source is closed/unlinked only with success still true after
           (sparse tail) -> copy attrs -> sync (if enabled) -> close destination, in this order.
C17-FAIL   every I/O failure reaches io_close with success == false; success = true in coder_normal
           only after LZMA_STREAM_END, the final write and the trailing-input test.
C17-WHO    who may unlink / create: unlink only in io_unlink (after the dev/inode comparison) and in
           io_open_dest_real under --force; the target is created with O_CREAT|O_EXCL and mode 0600.
C17-SIG    signal handlers only set sig_atomic_t flags and call async-signal-safe functions;
           signals_block/unblock are paired; loops test user_abort; main calls signals_exit last.
C17-STATUS every failure return of an xz I/O function sets the exit status (message_error/fatal) or
           depends on user_abort.  (EPIPE branch of io_write_buf: known finding.)
"""
from sa import ex, cfg, fd, guard, machine
from sa.compdb import AnalysisBroken
from . import common

FIO = "file_io.c"


def bool_calls(prog, f, rs, values=None):
    values = values or {}

    def cv(c, s):
        fn = c.get("fn")
        if fn in values:
            return frozenset(values[fn])
        for g in prog.resolve(f, fn) if fn else ():
            rt = g.ret.replace("const ", "").strip()
            if rt in ("bool", "_Bool"):
                return frozenset([0, 1])
            if rt == "lzma_ret":
                return rs.call_set(c, f)
        if fn == "lzma_code":
            return frozenset(v for k, v in prog.enum("lzma_ret").items() if not k.startswith("LZMA_RET_INTERNAL"))
        return None
    return cv


def graph(prog, f, keys, init, values=None):
    cg = common.callgraph(prog)
    rs = common.retsets(prog)
    keys = list(keys) + [fd.Key("retval", "$ret", label="$ret")]
    g = fd.FD(prog, f, keys, cg=cg, call_values=bool_calls(prog, f, rs, values), split=40)
    sts = []
    for d in init:
        st = g.make_state(**{"$ret": [machine.NO_RETURN_YET]})
        for lab, vals in d.items():
            st = g.state_with(st, lab, vals)
        sts.append(st)
    g.run(sts)
    return g


def call_blocks(f, name):
    return [(b, i, c) for b, i, e in f.iter_elems() for c in ex.calls(e, into_refs=False) if c.get("fn") == name]


def check_order(ck, prog):
    ck.rule("C17-ORDER", "io_close / io_close_src / io_close_dest / io_sync_dest ordering and failure folding")
    f = prog.fn("io_close", FIO, target="xz")
    ck.saw_function(f)
    ks = fd.Key("var", "success", domain=(0, 1), label="success")
    # (1) with every primitive failing, io_close_src never sees success == true
    for prim, vals, why in (
            ("io_close_dest", {"io_close_dest": [1]}, "a failed close of the destination"),
            ("io_write_buf", {"io_write_buf": [1]}, "a failed write of the sparse tail"),
    ):
        g = graph(prog, f, [ks], [{"success": [1]}], values=vals)
        bad = False
        seen = False
        for (b, i, c) in call_blocks(f, "io_close_src"):
            for s in g.states_before_elem(b.id, i):
                seen = True
                v = g.aeval(c["args"][1], s)
                if prim == "io_write_buf":
                    # only matters on the path that wrote the tail; checked by (2)
                    continue
                if v is None or 1 in v:
                    bad = True
        if prim == "io_close_dest":
            ck.ob("C17-ORDER", "close-dest-fails", seen and not bad, common.where(f),
                  "after %s, io_close_src() is always called with success == false (source kept)" % why
                  if not bad else
                  "io_close_src() can be called with success == true after %s: the source would be removed "
                  "although the target is not safely on disk" % why, key="ORDER:close-dest-fails")
    # (2) must-pass: success == true at io_close_src requires the F edge of the io_close_dest test
    g = graph(prog, f, [ks], [{"success": [1]}, {"success": [0]}])
    src_calls = call_blocks(f, "io_close_src")
    dst_nodes = set()
    for (b, i, c) in src_calls:
        for n in g.nodes:
            if n[0] == b.id:
                for s in g.transfer_block(b.id, n[1], upto=i):
                    v = g.aeval(c["args"][1], s)
                    if v is None or 1 in v:
                        dst_nodes.add(n)
    gs = guard.find_test(f, "call:io_close_dest", "F")
    cut = {(x.bid, x.pass_label) for x in gs}
    path, hit = guard.cut_reach(g, [n for n in g.nodes if n[0] == f.entry], cut,
                                lambda n: "io_close_src(success=true)" if n in dst_nodes else None)
    ck.ob("C17-ORDER", "close-dest-before-src", bool(gs) and path is None and bool(dst_nodes), common.where(f),
          "io_close_src(pair, true) is reachable only through a successful io_close_dest()" if path is None else
          "io_close_src(pair, true) reachable without a successful io_close_dest()", key="ORDER:dest-before-src")
    # (3) sync: with io_sync_dest failing, success == true never reaches io_close_dest on the sync path
    g2 = graph(prog, f, [ks], [{"success": [1]}], values={"io_sync_dest": [1]})
    bad = False
    sync_calls = call_blocks(f, "io_sync_dest")
    closeb = {b.id for (b, i, c) in call_blocks(f, "io_close_dest")}
    for (b, i, c) in sync_calls:
        # product-graph nodes reachable from the call (io_sync_dest() forced to fail) up to the io_close_dest() call: the
        # state that arrives there must have success == false, wherever between the two the flag is cleared
        seen_, st_ = set(), [n for n in g2.nodes if n[0] == b.id]
        while st_:
            n = st_.pop()
            if n in seen_:
                continue
            seen_.add(n)
            if n[0] in closeb and n[0] != b.id:
                v = g2.get(n[1], "success")
                if v is None or 1 in v:
                    bad = True
                continue
            for (d_, l_) in g2.succ.get(n, ()):
                st_.append(d_)
    ck.ob("C17-ORDER", "sync-failure-clears-success", bool(sync_calls) and not bad, common.where(f),
          "a failed io_sync_dest() leaves success == false" if not bad else
          "success can stay true after io_sync_dest() failed", key="ORDER:sync-fails")
    # sync is called when opt_synchronous and the target is a regular file we created
    gs_sync = guard.find_test(f, "var:opt_synchronous", "F")
    syncb = {b.id for (b, i, c) in sync_calls}
    okg = bool(gs_sync) and all(f.blocks[x.bid].succs[0] in syncb for x in gs_sync)
    if not okg and gs_sync:
        # the test may sit in a static helper's caller or be combined with the call (`opt_synchronous && io_sync_dest()`):
        # what matters is that the sync call is reachable from the true edge without another deciding condition
        def straight(x0):
            hops = 0
            while x0 is not None and hops < 4:
                if x0 in syncb:
                    return True
                ss = [y for y in f.blocks[x0].succs if y is not None]
                if len(ss) != 1:
                    return False
                x0, hops = ss[0], hops + 1
            return False
        okg = all(straight(f.blocks[x.bid].succs[0]) for x in gs_sync)
    ck.ob("C17-ORDER", "sync-if-enabled", okg, common.where(f),
          "`if (opt_synchronous)` directly guards io_sync_dest()", key="ORDER:sync-enabled")
    # (4) order of the calls: attrs -> sync -> close dest -> close src (no backward reachability)
    order = ["io_copy_attrs", "io_sync_dest", "io_close_dest", "io_close_src", "signals_unblock"]
    blocks = {}
    for nm in order:
        cb = call_blocks(f, nm)
        if not cb:
            raise AnalysisBroken("io_close: call to %s vanished" % nm)
        blocks[nm] = cb[0][0].id
    ok = True
    msgs = []
    for a, b_ in zip(order, order[1:]):
        fwd = blocks[b_] in cfg.reachable(f, [blocks[a]])
        back = blocks[a] in cfg.reachable(f, cfg.succs(f, blocks[b_]))
        if not fwd or back:
            ok = False
            msgs.append("%s !< %s" % (a, b_))
    ck.ob("C17-ORDER", "call-order", ok, common.where(f),
          "copy attrs -> sync -> close destination -> close source -> unblock signals" if ok else
          "order violated: " + ", ".join(msgs), key="ORDER:call-order")
    # the sparse tail is written before the signals are blocked / attributes copied
    sp = call_blocks(f, "io_write_buf")
    ok = bool(sp) and blocks["io_copy_attrs"] in cfg.reachable(f, [sp[0][0].id]) and \
        sp[0][0].id not in cfg.reachable(f, [blocks["io_copy_attrs"]])
    ck.ob("C17-ORDER", "sparse-tail-first", ok, common.where(f),
          "pending sparse tail is written before attributes/sync/close", key="ORDER:sparse-first")

    # io_close_src: close before unlink; unlink only with success && !opt_keep_original
    s_ = prog.fn("io_close_src", FIO, target="xz")
    ck.saw_function(s_)
    gsrc = graph(prog, s_, [ks], [{"success": [0]}])
    unl = call_blocks(s_, "io_unlink")
    reach0 = any(n[0] == b.id for (b, i, c) in unl for n in gsrc.nodes)
    ck.ob("C17-ORDER", "src-unlink-needs-success", bool(unl) and not reach0, common.where(s_),
          "io_unlink(src) unreachable with success == false" if not reach0 else
          "io_unlink(src) reachable with success == false", key="ORDER:src-unlink-success")
    gk = guard.find_test(s_, "var:opt_keep_original", "F")
    domm = cfg.dominators(s_)
    okk = bool(gk) and all(any(x.bid in domm.get(b.id, ()) for x in gk) for (b, i, c) in unl)
    ck.ob("C17-ORDER", "src-unlink-keep", okk, common.where(s_),
          "io_unlink(src) is guarded by !opt_keep_original", key="ORDER:src-unlink-keep")
    cl = call_blocks(s_, "close")
    okc = bool(cl) and bool(unl) and all(
        (cl[0][0].id in domm.get(b.id, ())) for (b, i, c) in unl)
    ck.ob("C17-ORDER", "src-close-before-unlink", okc, common.where(s_),
          "close(src_fd) dominates io_unlink(src)", key="ORDER:src-close-first")
    arg_ok = all(ex.show(c["args"][0]) == "pair->src_name" and ex.show(c["args"][1]) == "&pair->src_st"
                 for (b, i, c) in unl)
    ck.ob("C17-ORDER", "src-unlink-args", arg_ok, common.where(s_),
          "io_unlink(pair->src_name, &pair->src_st): the inode seen at open time is compared", key="ORDER:src-args")

    # io_close_dest
    d = prog.fn("io_close_dest", FIO, target="xz")
    ck.saw_function(d)
    gd = graph(prog, d, [ks], [{"success": [1]}])
    # failed close -> unlink + return true
    gcl = guard.find_test(d, "call:close&field:dest_fd", "F")
    ok = False
    if gcl and d.blocks[gcl[0].bid].succs[0 if gcl[0].fail_label == "T" else 1] is not None:
        x = gcl[0]
        fb = d.blocks[x.bid].succs[0 if x.fail_label == "T" else 1]
        calls = [c.get("fn") for e in d.blocks[fb].elems if e for c in ex.calls(e, into_refs=False)]
        rets = [ex.show(e.get("e")) for e in d.blocks[fb].elems if e and e.get("k") == "ret"]
        ok = "io_unlink" in calls and "message_error" in calls and rets == ["1"]
    ck.ob("C17-ORDER", "dest-close-failure", ok, common.where(d),
          "failed close(dest_fd): error message, io_unlink(dest), return true", key="ORDER:dest-close-failure")
    gd0 = graph(prog, d, [ks], [{"success": [0]}])
    unl_d = call_blocks(d, "io_unlink")
    # with success == false and a successful close, the junk target is removed
    reach = any(n[0] == b.id for (b, i, c) in unl_d for n in gd0.nodes if b.id != (
        d.blocks[gcl[0].bid].succs[0 if gcl[0].fail_label == "T" else 1] if gcl else -1))
    ck.ob("C17-ORDER", "dest-unlink-on-failure", reach, common.where(d),
          "with success == false the incomplete target is unlinked", key="ORDER:dest-unlink")
    gd1 = graph(prog, d, [ks], [{"success": [1]}], values={"close": [0]})
    keep = not any(n[0] == b.id for (b, i, c) in unl_d for n in gd1.nodes
                   if b.id != (d.blocks[gcl[0].bid].succs[0 if gcl[0].fail_label == "T" else 1] if gcl else -1))
    ck.ob("C17-ORDER", "dest-kept-on-success", keep, common.where(d),
          "with success == true and a successful close the target is not unlinked", key="ORDER:dest-kept")
    # io_sync_dest: both fsyncs, each failure returns true
    y = prog.fn("io_sync_dest", FIO, target="xz")
    ck.saw_function(y)
    fs = guard.find_test(y, "call:fsync", "F")
    okf = len(fs) == 2
    for x in fs:
        fb = y.blocks[x.bid].succs[0 if x.fail_label == "T" else 1]
        if fb is None:
            okf = False
            continue
        rets = [ex.show(e.get("e")) for e in y.blocks[fb].elems if e and e.get("k") == "ret"]
        okf = okf and rets == ["1"]
    args = sorted(ex.show(c["args"][0]) for (b, i, c) in call_blocks(y, "fsync"))
    ck.ob("C17-ORDER", "sync-both", okf and args == ["pair->dest_fd", "pair->dir_fd"], common.where(y),
          "fsync(file) and fsync(directory), each failure returns true (%s)" % args, key="ORDER:sync-both")
    ck.floor("C17-ORDER", 14)


def check_fail(ck, prog):
    ck.rule("C17-FAIL", "coder_normal: success = true only after LZMA_STREAM_END and a successful final "
            "write; I/O failures leave success false")
    f = prog.fn("coder_normal", "coder.c", target="xz")
    ck.saw_function(f)
    rets = prog.enum("lzma_ret")
    ks = fd.Key("var", "success", domain=(0, 1), label="success")
    kr = fd.Key("var", "ret", domain=rets.values(), label="ret")
    kst = fd.Key("var", "stop", domain=(0, 1), label="stop")
    g = graph(prog, f, [ks, kr, kst], [{}])
    sets = [(b, i, n) for b, i, e in f.iter_elems() for (l, r, op, n) in ex.writes(e)
            if ex.show(l) == "success" and ex.is_const(r, 1)]
    if len(sets) < 2:
        raise AnalysisBroken("coder_normal: expected two `success = true` sites")
    END = rets["LZMA_STREAM_END"]
    for k, (b, i, n) in enumerate(sets):
        vals = set()
        for s in g.states_before_elem(b.id, i):
            v = g.get(s, "ret")
            vals |= set(v) if v is not None else set(rets.values())
        ck.ob("C17-FAIL", "success-needs-end@%d" % k, vals == {END}, common.where(f, n),
              "success = true with ret in {%s}" % ",".join(sorted(x for x, y in rets.items() if y in vals)),
              key="FAIL:success-needs-end")
    # must-pass: final coder_write_output succeeded
    gs = guard.find_test(f, "call:coder_write_output", "F")
    cut = {(x.bid, x.pass_label) for x in gs}
    sb = {b.id for (b, i, n) in sets}
    path, hit = guard.cut_reach(g, [n for n in g.nodes if n[0] == f.entry], cut,
                                lambda n: "success = true" if n[0] in sb else None)
    ck.ob("C17-FAIL", "success-needs-write", len(gs) >= 3 and path is None, common.where(f),
          "success = true only after coder_write_output() returned false (%d write sites)" % len(gs)
          if path is None else "success = true reachable without a successful final write",
          key="FAIL:success-needs-write")
    # trailing input test: success = true (without allow_trailing_input) needs avail_in == 0
    ga = guard.find_test(f, "var:allow_trailing_input", "T")
    gz = guard.find_cmp(f, "field:avail_in", "const:0")
    cut2 = {(x.bid, x.pass_label) for x in ga} | {(x.bid, x.pass_label) for x in gz}
    path, hit = guard.cut_reach(g, [n for n in g.nodes if n[0] == f.entry], cut2,
                                lambda n: "success = true" if n[0] in sb else None)
    ck.ob("C17-FAIL", "success-needs-no-trailing", bool(ga) and bool(gz) and path is None, common.where(f),
          "success = true only with allow_trailing_input or strm.avail_in == 0" if path is None else
          "success = true reachable with input left and trailing input not allowed",
          key="FAIL:no-trailing")
    # ... and that test must see the result of the one-byte probe read that looks for trailing data
    probe = [b.id for (b, i, c) in call_blocks(f, "io_read") if len(c["args"]) > 2 and ex.is_const(c["args"][2], 1)]
    src = [d for n in g.nodes if n[0] in probe for (d, lab) in g.succ.get(n, ())]
    cut3 = {(x.bid, x.pass_label) for x in gz} | {(x.bid, x.pass_label) for x in ga}
    path3, hit3 = guard.cut_reach(g, src, cut3, lambda n: "success = true" if n[0] in sb else None) if src else (None, None)
    ck.ob("C17-FAIL", "probe-result-tested", bool(probe) and path3 is None, common.where(f),
          "after the one-byte probe read, success = true is reached only through a new strm.avail_in == 0 test" if probe and
          path3 is None else
          "coder_normal(): after io_read(pair, &in_buf, 1) (the probe for trailing data) `success = true` is reachable without "
          "testing strm.avail_in again: a byte that follows the end of the stream is ignored, the file counts as "
          "successfully decompressed and the source is removed", key="FAIL:probe-result-tested")
    # io_read failures break out with success false
    gr = guard.find_cmp(f, "field:avail_in", "const:18446744073709551615")
    okr = len(gr) >= 2
    for x in gr:
        for n in g.nodes:
            if n[0] == x.bid:
                for ex_n in guard.returns_after(g, n, "T"):
                    v = g.get(ex_n[1], "$ret")
                    if v is None or 1 in v:
                        okr = False
    ck.ob("C17-FAIL", "read-failure", okr, common.where(f),
          "io_read() == SIZE_MAX leaves the loop and coder_normal returns false (%d sites)" % len(gr),
          key="FAIL:read-failure")
    # the loop tests user_abort
    lp = any(b.term and b.term.get("kind") == "WhileStmt" and ex.show(b.term["cond"]) == "!user_abort"
             for b in f.blocks.values())
    ck.ob("C17-FAIL", "loop-tests-abort", lp, common.where(f), "main loop is `while (!user_abort)`",
          key="FAIL:loop-abort")
    # returns success
    rr = [ex.show(e.get("e")) for b, i, e in cfg.returns(f)]
    ck.ob("C17-FAIL", "returns-success", rr == ["success"], common.where(f), "coder_normal returns %s" % rr,
          key="FAIL:returns-success")
    # coder_run passes the result to io_close
    r_ = prog.fn("coder_run", "coder.c", target="xz")
    ck.saw_function(r_)
    okc = False
    for (b, i, c) in call_blocks(r_, "io_close"):
        okc = ex.show(c["args"][1]) == "success"
    init0 = any(e.get("k") == "decl" and e["n"] == "success" and ex.is_const(e.get("init"), 0)
                for b, i, e in r_.iter_elems())
    ck.ob("C17-FAIL", "coder_run", okc and init0, common.where(r_),
          "coder_run: success starts false and is what io_close() receives", key="FAIL:coder_run")
    ck.floor("C17-FAIL", 8)


def check_who(ck, prog):
    ck.rule("C17-WHO", "who may unlink/create files")
    cg = common.callgraph(prog)
    callers = {}
    for f in prog.all_functions("xz"):
        for b, i, e in f.iter_elems():
            for c in ex.calls(e, into_refs=False):
                if c.get("fn") in ("unlink", "remove", "rename", "io_unlink", "open", "creat", "truncate", "ftruncate"):
                    callers.setdefault(c["fn"], []).append((f, c))
    un = sorted({f.name for f, c in callers.get("unlink", [])})
    ck.ob("C17-WHO", "unlink-callers", un == ["io_open_dest_real", "io_unlink"], "src/xz",
          "unlink() is called only from %s" % un, key="WHO:unlink-callers")
    for nm in ("remove", "rename", "truncate", "ftruncate", "creat"):
        ck.ob("C17-WHO", "no-" + nm, nm not in callers, "src/xz",
              "%s() %s" % (nm, "not used" if nm not in callers else "called from %s" % sorted(
                  {f.name for f, c in callers[nm]})), key="WHO:no-" + nm)
    iu = sorted({f.name for f, c in callers.get("io_unlink", [])})
    ck.ob("C17-WHO", "io_unlink-callers", iu == ["io_close_dest", "io_close_src"], "src/xz",
          "io_unlink() is called only from %s" % iu, key="WHO:io_unlink-callers")
    # io_unlink: dev/inode comparison precedes unlink
    f = prog.fn("io_unlink", FIO, target="xz")
    ck.saw_function(f)
    g1 = guard.find_cmp(f, "field:st_dev", "d_field:st_dev")
    g2 = guard.find_cmp(f, "field:st_ino", "d_field:st_ino")
    cut = {(x.bid, x.pass_label) for x in g1 + g2}
    pg = graph(prog, f, [], [{}])
    ub = {b.id for (b, i, c) in call_blocks(f, "unlink")}
    # both comparisons must pass: cutting either one's pass edge alone blocks unlink
    ok = bool(g1) and bool(g2)
    for gx in (g1, g2):
        path, hit = guard.cut_reach(pg, [n for n in pg.nodes if n[0] == f.entry],
                                    {(x.bid, x.pass_label) for x in gx},
                                    lambda n: "unlink" if n[0] in ub else None)
        ok = ok and path is None
    ck.ob("C17-WHO", "io_unlink-same-file", ok, common.where(f),
          "unlink(name) only when st_dev and st_ino still match the file that was opened", key="WHO:same-file")
    # unlink in io_open_dest_real only under opt_force
    d = prog.fn("io_open_dest_real", FIO, target="xz")
    ck.saw_function(d)
    dom = cfg.dominators(d)
    gf = guard.find_test(d, "var:opt_force", "T")
    okf = bool(gf) and all(any(x.bid in dom.get(b.id, ()) for x in gf) for (b, i, c) in call_blocks(d, "unlink"))
    ck.ob("C17-WHO", "force-unlink", okf, common.where(d), "unlink(dest) before creating only under --force",
          key="WHO:force-unlink")
    # creation flags and mode
    opens = [c for (f2, c) in callers.get("open", []) if f2.name == "io_open_dest_real"]
    okc = False
    desc = ""
    for c in opens:
        fl = guard.expand_locals(d, c["args"][1])
        md = ex.const_val(c["args"][2]) if len(c["args"]) > 2 else None
        flv = None
        # flags local: collect constants OR-ed into it
        for b, i, e in d.iter_elems():
            if e.get("k") == "decl" and e["n"] == "flags" and e.get("init") is not None:
                flv = ex.const_val(e["init"])
        if flv is None:
            flv = ex.const_val(fl)
        if md is None and len(c["args"]) > 2:
            mdx = guard.expand_locals(d, c["args"][2])
            md = ex.const_val(mdx)
        desc = "open(dest, flags=%s, mode=%s)" % (oct(flv) if flv is not None else "?", oct(md) if md is not None else "?")
        if flv is not None and md is not None and (flv & 0o100) and (flv & 0o200) and md == 0o600:
            okc = True
    ck.ob("C17-WHO", "create-excl-0600", okc, common.where(d),
          "%s: O_CREAT|O_EXCL and mode 0600" % desc, key="WHO:create-excl")
    ck.floor("C17-WHO", 10)


HANDLER_WRITE_EXCEPT = {
    "mytime_sigtstp_handler": ({"start_time"},
                               "SIGTSTP handler adjusts the progress timer only (volatile uint64_t); it is not "
                               "on any path that decides data or exit status"),
}

SIGSAFE = {"write", "read", "_exit", "signal", "sigaction", "raise", "kill", "io_write_to_user_abort_pipe",
           "__errno_location", "mytime_now", "clock_gettime"}


def check_sigset(ck, prog):
    """`if a termination signal arrives xz removes the incomplete target`: that is the job of the handler installed by
    signals_init() for every signal in its sigs[] table.  A termination signal that is missing there kills the process
    with the default action and the partial target stays behind.  Required: the signals whose default action terminates
    the process and that xz can realistically receive while a target is open."""
    NEED = {1: "SIGHUP", 2: "SIGINT", 13: "SIGPIPE", 15: "SIGTERM", 24: "SIGXCPU", 25: "SIGXFSZ"}
    f = prog.fn("signals_init", "signals.c", target="xz")
    ck.saw_function(f)
    got = None
    site = None
    for b, i, e in f.iter_elems():
        d = ex.deref(e)
        if d.get("k") == "decl" and d.get("n") == "sigs" and d.get("init") is not None:
            i0 = ex.strip(d["init"])
            if i0 is not None and i0.get("k") == "init":
                got = {ex.const_val(x) for x in i0["e"]}
                site = e
    if got is None:
        raise AnalysisBroken("signals_init: the sigs[] table was not found")
    missing = sorted(NEED[v] for v in NEED if v not in got)
    ck.ob("C17-SIG", "handled-signals", not missing, common.where(f, site),
          "signals_init installs the clean-up handler for %s" % ", ".join(NEED[v] for v in sorted(NEED)) if not missing else
          "signals_init(): %s %s not in sigs[]: the signal terminates xz with the default action, the handler that makes xz "
          "remove the incomplete target never runs and the partial file stays next to the source (SIGXFSZ: `ulimit -f` "
          "smaller than the output)" % (", ".join(missing), "is" if len(missing) == 1 else "are"),
          key="SIG:handled-signals")


def check_sig(ck, prog):
    ck.rule("C17-SIG", "signal handlers are async-signal-safe and only set sig_atomic_t flags; "
            "signals_block/unblock paired; main ends with signals_exit")
    cg = common.callgraph(prog)
    handlers = set()
    for f in prog.all_functions("xz"):
        for b, i, e in f.iter_elems():
            for (l, r, op, n) in ex.writes(e):
                fk = ex.field_key(l)
                if fk and fk[1] in ("sa_handler", "__sigaction_handler", "sa_sigaction") and r is not None:
                    rs_ = ex.strip(r)
                    if rs_ is not None and rs_.get("k") == "un" and rs_["op"] == "&":
                        rs_ = ex.strip(rs_["e"])
                    if rs_ is not None and rs_.get("k") == "var" and rs_.get("s") == "f":
                        handlers.add(rs_["n"])
                # glibc: sa_handler is a macro for __sigaction_handler.sa_handler
                if r is not None:
                    rs_ = ex.strip(r)
                    if rs_ is not None and rs_.get("k") == "un" and rs_["op"] == "&":
                        rs_ = ex.strip(rs_["e"])
                    if rs_ is not None and rs_.get("k") == "var" and rs_.get("s") == "f" and \
                            rs_["n"].endswith("_handler"):
                        handlers.add(rs_["n"])
    if len(handlers) < 2:
        raise AnalysisBroken("C17-SIG: signal handlers not found (%s)" % handlers)
    for h in sorted(handlers):
        for f in prog.functions.get(h, []):
            if f.target != "xz":
                continue
            ck.saw_function(f)
            reach = cg.reach([h]) - {h}
            unsafe = sorted(x for x in reach if x not in SIGSAFE)
            ck.ob("C17-SIG", "handler-calls:" + h, not unsafe, common.where(f),
                  "%s reaches only async-signal-safe functions %s" % (h, sorted(reach)) if not unsafe else
                  "%s can call %s which is not async-signal-safe" % (h, unsafe), key="SIG:handler-calls:" + h)
            bad = []
            for b, i, e in f.iter_elems():
                for (l, r, op, n) in ex.writes(e):
                    ls = ex.strip(l)
                    if ls is not None and ls.get("k") == "var" and ls.get("s") == "g":
                        gl = [g for g in prog.globals.get(ls["n"], [])]
                        ty = gl[0]["ty"] if gl else "?"
                        if "sig_atomic_t" not in ty or "volatile" not in ty:
                            bad.append("%s (%s)" % (ls["n"], ty))
                    elif ls is not None and ls.get("k") != "var":
                        bad.append(ex.show(l))
            exc = HANDLER_WRITE_EXCEPT.get(h)
            if bad and exc and all(x.split(" ")[0] in exc[0] for x in bad):
                ck.ob("C17-SIG", "handler-writes:" + h, True, common.where(f),
                      "%s writes %s: exception (%s)" % (h, bad, exc[1]))
                continue
            ck.ob("C17-SIG", "handler-writes:" + h, not bad, common.where(f),
                  "%s writes only volatile sig_atomic_t objects" % h if not bad else
                  "%s writes %s" % (h, bad), key="SIG:handler-writes:" + h)
    # block/unblock pairing
    for fname in ("io_open_src", "io_open_dest", "io_close"):
        f = prog.fn(fname, FIO, target="xz")
        ck.saw_function(f)
        blk = call_blocks(f, "signals_block")
        unb = call_blocks(f, "signals_unblock")
        ok = bool(blk) and bool(unb)
        if ok:
            ok2, path = cfg.must_pass(f, [blk[0][0].id], [f.exit],
                                      lambda bb, ii, ee: any(c.get("fn") == "signals_unblock"
                                                             for c in ex.calls(ee, into_refs=False)),
                                      start_elem={blk[0][0].id: blk[0][1] + 1})
            ok = ok2
        ck.ob("C17-SIG", "block-paired:" + fname, ok, common.where(f),
              "signals_block() is followed by signals_unblock() on every path in %s" % fname if ok else
              "%s can return with signals still blocked" % fname, key="SIG:paired:" + fname)
    # EINTR loops test user_abort
    for fname in ("io_read", "io_write_buf", "io_wait"):
        f = prog.fn(fname, FIO, target="xz")
        ck.saw_function(f)
        eintr = [b for b in f.blocks.values() if b.term and "cond" in b.term and
                 any(x.get("k") == "const" and x["v"] == 4 for x in ex.walk(b.term["cond"])) and
                 any(x.get("k") == "call" and x.get("fn") == "__errno_location" for x in ex.walk(b.term["cond"]))]
        ok = bool(eintr)
        for b in eintr:
            t = b.succs[0]
            tb = f.blocks[t]
            cond_ok = tb.term and "cond" in tb.term and "user_abort" in ex.show(tb.term["cond"])
            if not cond_ok and fname == "io_wait":
                # self-pipe design: poll() also watches user_abort_pipe; the test directly follows poll()
                pb = [bb for bb, ii, cc in call_blocks(f, "poll")]
                cond_ok = bool(pb) and pb[0].term and "cond" in pb[0].term and \
                    "user_abort" in ex.show(pb[0].term["cond"]) and \
                    any("user_abort_pipe" in ex.show(n) for bb, ii, ee in f.iter_elems()
                        for (l, r, op, n) in ex.writes(ee))
            ok = ok and bool(cond_ok)
        ck.ob("C17-SIG", "eintr-abort:" + fname, ok, common.where(f),
              "errno == EINTR is followed by a user_abort test in %s" % fname, key="SIG:eintr:" + fname)
    # main: signals_exit after the last run, before tuklib_exit
    m = prog.fn("main", "main.c", target="xz")
    ck.saw_function(m)
    se = call_blocks(m, "signals_exit")
    te = [x for x in call_blocks(m, "tuklib_exit")]
    dom = cfg.dominators(m)
    ok = bool(se) and bool(te)
    if ok:
        last_te = max(te, key=lambda x: ex.line(x[2]))
        ok = se[0][0].id in dom.get(last_te[0].id, ()) or se[0][0].id == last_te[0].id
        runs = call_blocks(m, "coder_run") + call_blocks(m, "list_file")
        ok = ok and all(se[0][0].id not in cfg.reachable(m, [se[0][0].id]) - {se[0][0].id} or True for r in runs)
        ok = ok and all(r[0].id not in cfg.reachable(m, cfg.succs(m, se[0][0].id)) for r in runs)
    ck.ob("C17-SIG", "main-signals-exit", ok, common.where(m),
          "main(): signals_exit() dominates the final tuklib_exit() and no file is processed after it",
          key="SIG:main-exit")
    x = prog.fn("signals_exit", "signals.c", target="xz")
    ck.saw_function(x)
    names = [c.get("fn") for b, i, e in x.iter_elems() for c in ex.calls(e, into_refs=False)]
    okx = "sigaction" in names and "raise" in names and names.index("sigaction") < names.index("raise")
    ck.ob("C17-SIG", "signals_exit-reraise", okx, common.where(x),
          "signals_exit restores the default action before raise(sig): %s" % names, key="SIG:reraise")
    ck.floor("C17-SIG", 12)


STATUS_FUNCS = ["io_open_src_real", "io_open_dest_real", "io_close_dest", "io_sync_dest", "io_read",
                "io_write_buf", "io_write", "io_seek_src", "io_pread", "io_wait"]


def check_status(ck, prog):
    ck.rule("C17-STATUS", "every failure return of an xz I/O function passes message_error/message_fatal "
            "(which set the exit status) or depends on user_abort")
    n = 0
    for fname in STATUS_FUNCS:
        f = prog.fn(fname, FIO, target="xz", required=False)
        if f is None:
            continue
        ck.saw_function(f)
        rt = f.ret.replace("const ", "").strip()
        fails = []
        for b, i, e in cfg.returns(f):
            v = ex.strip(e.get("e"))
            txt = ex.show(e.get("e")) if e.get("e") is not None else ""
            isfail = False
            if rt in ("bool", "_Bool"):
                isfail = txt == "1"
            elif rt == "size_t":
                isfail = txt == "18446744073709551615"
            elif rt.startswith("io_wait_ret") or "io_wait_ret" in rt:
                isfail = txt == "IO_WAIT_ERROR"
            if isfail:
                fails.append((b, i, e))
        for (b, i, e) in fails:
            n += 1
            # every path from entry to this return passes a reporting call or a user_abort test

            def via(bb, ii, ee):
                for c in ex.calls(ee, into_refs=False):
                    if c.get("fn") in ("message_error", "message_fatal", "message_warning", "set_exit_status",
                                       "io_wait", "io_write_buf", "io_open_src_real", "io_open_dest_real",
                                       "io_seek_src", "io_read", "suffix_get_dest_name"):
                        return True
                return False
            ua = set()
            for bb in f.blocks.values():
                if bb.term and "cond" in bb.term and "user_abort" in ex.show(bb.term["cond"]):
                    ua.add(bb.id)
            ok, path = cfg.must_pass(f, [f.entry], [b.id], lambda bb, ii, ee: via(bb, ii, ee) or bb.id in ua)
            # the return block itself may contain the report
            if not ok and any(via(b, j, b.elems[j]) for j in range(i) if b.elems[j] is not None):
                ok = True
            lastc = ""
            if not ok and path:
                for pb in path:
                    t = f.blocks[pb].term
                    if t and "cond" in t:
                        lastc = ex.show(t["cond"])
            ck.ob("C17-STATUS", "%s:return@%d" % (fname, n), ok, common.where(f, e),
                  "failure return of %s is reported" % fname if ok else
                  "%s() can return failure at line %d without message_error()/set_exit_status() and without "
                  "user_abort: xz may exit with status 0 although the operation failed" % (fname, ex.line(e)),
                  key="STATUS:%s:silent-failure:%s" % (fname, lastc))
    if n < 15:
        raise AnalysisBroken("C17-STATUS: only %d failure returns found" % n)


IO_BOOL = ("io_write_buf", "io_write", "io_seek_src", "io_pread", "io_sync_dest", "io_open_dest", "io_open_dest_real",
           "io_open_src_real", "io_close_dest")


def check_msg_status(ck, prog, rule="C17-STATUS"):
    """message_error() is the only place where most failures become a non-zero exit status: it must record E_ERROR on
    every path, whatever the verbosity is (-qq silences the text, not the status).  The same for message_warning() and
    E_WARNING; message_fatal() must not return."""
    if rule != "C17-STATUS":
        ck.rule(rule, "message_error()/message_warning() record E_ERROR/E_WARNING on every path; message_fatal() does not return")
    f = prog.fn("message_error", "message.c", target="xz")
    w = prog.fn("message_warning", "message.c", target="xz")
    ft = prog.fn("message_fatal", "message.c", target="xz")
    en = prog.enum_with("E_ERROR", f.file) or {}
    for g, want in ((f, "E_ERROR"), (w, "E_WARNING")):
        ck.saw_function(g)

        def via(bb, ii, ee, want=want):
            for c in ex.calls(ee, into_refs=False):
                if c.get("fn") == "set_exit_status" and c["args"] and ex.const_val(c["args"][0]) == en.get(want):
                    return True
            return False
        ok, path = cfg.must_pass(g, [g.entry], [g.exit], via)
        ck.ob(rule, "%s:sets-status" % g.name, ok and want in en, common.where(g),
              "%s(): set_exit_status(%s) on every path" % (g.name, want) if ok else
              "%s() can return (lines %s) without set_exit_status(%s): with that path taken (e.g. messages silenced by -qq) a "
              "failed operation leaves the exit status 0" % (g.name, cfg.path_lines(g, path), want),
              key="STATUS:%s:sets-status" % g.name)
    ck.saw_function(ft)
    rets_ = cfg.returns(ft)
    ex_ = any(c.get("fn") in ("tuklib_exit", "exit", "_exit") for b, i, e in ft.iter_elems() for c in ex.calls(e, into_refs=False))
    ck.ob(rule, "message_fatal:exits", ex_ and not rets_, common.where(ft),
          "message_fatal() ends in tuklib_exit(E_ERROR, ...) and has no return", key="STATUS:message_fatal:exits")


def check_perfile(ck, prog):
    """(a) No failure reported by an xz I/O function is dropped.  (b) Per-file decisions kept in file-scope variables of
    coder.c are re-made for every file: a variable that coder_init() assigns on some paths is assigned on every path
    that starts coding."""
    from sa import own
    ck.rule("C17-RESULT", "the bool result (true = failure) of every xz I/O helper is tested, returned or stored")
    n = 0
    for f in sorted(prog.all_functions("xz"), key=lambda f: (f.file, f.line)):
        if not f.blocks:
            continue
        sites = [c for b, i, e in f.iter_elems() for c in ex.calls(e, into_refs=True) if c.get("fn") in IO_BOOL]
        if not sites:
            continue
        ck.saw_function(f)
        bad = own.unused_results(prog, f, lambda c: c.get("fn") in IO_BOOL)
        # an explicit (void) cast also discards the result
        for b, i, e in f.iter_elems():
            e_ = ex.deref(e)
            if e_.get("k") == "cast" and (e_.get("ty") or "") == "void":
                inner = ex.strip(e_["e"])
                if inner is not None and inner.get("k") == "call" and inner.get("fn") in IO_BOOL:
                    bad.append((ex.line(inner), inner["fn"], inner))
        n += len(sites)
        ck.ob("C17-RESULT", f.name, not bad, common.where(f, bad[0][2]) if bad else common.where(f),
              "%s: %d call(s) of I/O helpers, every result is consumed" % (f.name, len(sites)) if not bad else
              "%s(): the result of %s() at line %s is discarded: a failed write/seek/sync is not folded into the success "
              "flag, so the source file can be removed although the output is incomplete" % (
                  f.name, bad[0][1], bad[0][0]), key="RESULT:%s:%s" % (f.name, bad[0][1] if bad else ""))
    if n < 10:
        raise AnalysisBroken("C17-RESULT: only %d I/O helper call sites" % n)
    ck.rule("C17-PERFILE", "file-scope state that coder_init() sets conditionally is also reset unconditionally per file")
    f = prog.fn("coder_init", "coder.c", target="xz")
    ck.saw_function(f)
    writes = {}
    for b, i, e in f.iter_elems():
        for (l, r, op, node) in ex.writes(e):
            ls = ex.strip(l)
            if ls is not None and ls.get("k") == "var" and ls.get("s") in ("g", "f"):
                writes.setdefault(ls["n"], []).append((b.id, i, node))
    rets = [b.id for b in f.blocks.values() for e in b.elems if e is not None and ex.deref(e).get("k") == "ret"
            and "ERROR" not in ex.show(ex.deref(e).get("e"))]
    if not writes or not rets:
        raise AnalysisBroken("coder_init: no file-scope state / no successful return found")
    for g_, sites in sorted(writes.items()):
        def via(bb, ii, ee, g_=g_):
            return any(ex.strip(l) is not None and ex.strip(l).get("k") == "var" and ex.strip(l)["n"] == g_
                       for (l, r, op, node) in ex.writes(ee))
        ok, path = cfg.must_pass(f, [f.entry], rets, via)
        ck.ob("C17-PERFILE", "coder_init:" + g_, ok, common.where(f, sites[0][2]),
              "coder_init: %s is assigned on every path that starts coding a file" % g_ if ok else
              "coder_init(): the file-scope variable %s is assigned only on some paths (lines %s); on the path %s it keeps "
              "the value chosen for the previous file of the same xz invocation" % (
                  g_, sorted(ex.line(s_[2]) for s_ in sites), cfg.path_lines(f, path)[:6]),
              key="PERFILE:coder_init:" + g_)


def check_exit_sticky(ck, prog):
    """An error exit status is never replaced by the (numerically larger) warning status; xz -Q turns a final
    E_WARNING into 0, so a lost E_ERROR means `xz ... && rm originals` deletes data after a failed operation."""
    ck.rule("C17-EXIT", "set_exit_status(): E_ERROR is sticky")
    s_ = prog.fn("set_exit_status", "main.c", target="xz")
    ck.saw_function(s_)
    en = prog.enum_with("E_ERROR", s_.file)
    stores = [(b, node) for b, i, e in s_.iter_elems() for (l, r, op, node) in ex.writes(e) if ex.show(l) == "exit_status"]
    doms = cfg.dominators(s_)
    ok = bool(stores)
    for b, node in stores:
        guarded = False
        for d in doms.get(b.id, ()):
            blk = s_.blocks[d]
            if not (blk.term and "cond" in blk.term and len(blk.succs) == 2):
                continue
            c = ex.strip(blk.term["cond"])
            if c.get("k") == "bin" and c["op"] in ("!=", "==") and ex.show(c["l"]) == "exit_status" and \
                    ex.const_val(c["r"]) == en["E_ERROR"]:
                want = blk.succs[0] if c["op"] == "!=" else blk.succs[1]
                if want is not None and (want == b.id or want in doms.get(b.id, ())):
                    guarded = True
        ok = ok and guarded
    ck.ob("C17-EXIT", "sticky-error", ok, common.where(s_),
          "set_exit_status(): every store to exit_status is guarded by exit_status != E_ERROR" if ok else
          "set_exit_status(): exit_status can be overwritten when it already is E_ERROR (E_ERROR = %d < E_WARNING = %d): a "
          "later warning hides an earlier error and -Q then makes xz exit 0" % (en["E_ERROR"], en.get("E_WARNING", -1)),
          key="EXIT:sticky-error")


def check_eof(ck, prog):
    """End of input is what read() reporting 0 bytes means, nothing else: io_read() may set pair->src_eof only on the
    edge `amount == 0`.  (A short count is not end of file -- pipes, network file systems, signals -- and treating it as
    one makes xz finish a truncated stream successfully and unlink the source.)"""
    ck.rule("C17-EOF", "pair->src_eof is set only where read() returned 0")
    f = prog.fn("io_read", "file_io.c", target="xz")
    ck.saw_function(f)
    stores = [(b, i, n) for b, i, e in f.iter_elems() for (l, r, op, n) in ex.writes(e)
              if ex.show(l).endswith("->src_eof") and r is not None and not ex.is_const(r, 0)]
    if not stores:
        raise AnalysisBroken("io_read: no store to pair->src_eof")
    gs = guard.find_cmp(f, "var:amount", "const:0")
    if not gs:
        raise AnalysisBroken("io_read: comparison `amount == 0` not found")
    doms = cfg.dominators(f)
    bad = None
    for (b, i, n) in stores:
        ok = False
        for g_ in gs:
            tb = f.blocks[g_.bid]
            idx = {"T": 0, "F": 1}.get(g_.pass_label)
            tgt = tb.succs[idx] if idx is not None and idx < len(tb.succs) else None
            if tgt is not None and (tgt == b.id or tgt in doms.get(b.id, ())) and len(f.blocks[tgt].preds) == 1:
                ok = True
        if not ok:
            bad = n
    ck.ob("C17-EOF", "io_read", bad is None, common.where(f, bad or stores[0][2]),
          "io_read: %d store(s) to src_eof, each on the `amount == 0` edge" % len(stores) if bad is None else
          "io_read(): pair->src_eof is set at line %s on a path where read() did not return 0 (e.g. after a short read): the "
          "input is then treated as complete, a truncated stream is finished successfully and the source file is removed"
          % ex.line(bad), key="EOF:io_read")


def check_nofatal(ck, prog):
    """Between io_open_dest() and io_close() in coder_run() the target file exists and is incomplete: every failure has to
    go back to coder_run() so that io_close(pair, false) removes it (and restores the stdin/stdout flags).  A function
    that runs in that window must therefore not call message_fatal() (which exits the process on the spot).
    message_bug() -- "this cannot happen" -- is not counted."""
    import collections
    ck.rule("C17-NOFATAL", "no message_fatal() can be reached while the incomplete target file is open")
    cg = common.callgraph(prog)
    run = prog.fn("coder_run", "coder.c", target="xz")
    ck.saw_function(run)
    # functions called by coder_run after io_open_dest() and before io_close()
    order = [(ex.line(c) or 0, c.get("fn")) for b, i, e in run.iter_elems() for c in ex.calls(e, into_refs=True) if c.get("fn")]
    opens = [ln for ln, fn in order if fn == "io_open_dest"]
    closes = [ln for ln, fn in order if fn == "io_close"]
    if not opens or not closes:
        raise AnalysisBroken("coder_run: io_open_dest()/io_close() not found")
    roots = sorted({fn for ln, fn in order if min(opens) < ln <= max(closes) and fn not in ("io_open_dest",)})
    if "coder_normal" not in roots:
        raise AnalysisBroken("coder_run: coder_normal() is not called between io_open_dest() and io_close()")
    seen = {}
    dq = collections.deque((r, [r]) for r in roots)
    while dq:
        nme, path = dq.popleft()
        if nme in seen or nme == "message_bug":
            continue
        seen[nme] = path
        for f in prog.functions.get(nme, []):
            if not f.blocks:
                continue
            for c in sorted(cg.callees(f)):
                if c not in seen:
                    dq.append((c, path + [c]))
    bad = seen.get("message_fatal") or seen.get("tuklib_exit")
    site = None
    if bad and len(bad) >= 2:
        g = [f for f in prog.functions.get(bad[-2], []) if f.blocks]
        if g:
            for b, i, e in g[0].iter_elems():
                for c in ex.calls(e, into_refs=True):
                    if c.get("fn") == bad[-1]:
                        site = (g[0], c)
    ck.ob("C17-NOFATAL", "open-target-window", bad is None, common.where(*site) if site else common.where(run),
          "functions that run while the target is open (%d reachable from %s) never call message_fatal()" % (
              len(seen), ", ".join(roots)) if bad is None else
          "%s() can be reached while the incomplete target file is open (%s): the process exits without io_close(pair, false), "
          "so the partial target is left behind (the next run fails with 'File exists') and the flags of a shared "
          "stdin/stdout are not restored" % (bad[-1], " -> ".join(bad)), key="NOFATAL:open-target-window")


def check_eintr_stdio(ck, prog):
    """The progress signals (SIGALRM, SIGUSR1, SIGINFO) are handled without SA_RESTART, so any blocking call can fail with
    EINTR and is retried.  For stdio streams the error indicator is sticky: a retry loop written as
    `if (ferror(f)) { if (errno == EINTR) continue; ... }` has to clearerr(f) before it continues, otherwise every later
    (successful) character is thrown away as well and at end of file the loop never terminates (xz --files/--files0:
    all remaining file names are silently skipped, then 100 % CPU)."""
    ck.rule("C17-EINTR", "an EINTR retry on a stdio stream clears the stream's error indicator first")
    n = 0
    for f in prog.all_functions("xz"):
        if not f.blocks:
            continue
        doms = None
        for b in f.blocks.values():
            if not (b.term and "cond" in b.term and len(b.succs) == 2):
                continue
            c = ex.strip(b.term["cond"])
            if not (c.get("k") == "bin" and c["op"] == "==" and "errno" in ex.show(c["l"]) and ex.const_val(c["r"]) == 4):
                continue
            doms = doms or cfg.dominators(f)
            fer = [d for d in doms.get(b.id, ()) if f.blocks[d].term and "cond" in f.blocks[d].term and
                   any(cc.get("fn") == "ferror" for cc in ex.calls(f.blocks[d].term["cond"]))]
            if not fer:
                continue
            n += 1
            ck.saw_function(f)
            # region of the EINTR-true edge up to the loop head (= a dominator of this block)
            tgt = b.succs[0]
            seen, st, cleared = set(), [tgt], False
            while st:
                x = st.pop()
                if x in seen or x is None:
                    continue
                seen.add(x)
                if any(cc.get("fn") == "clearerr" for e in f.blocks[x].elems if e is not None for cc in ex.calls(e, into_refs=True)):
                    cleared = True
                    continue
                if x in doms.get(b.id, ()) and x != tgt:
                    continue        # back at the loop head
                st.extend(y for y in f.blocks[x].succs if y is not None)
            # all paths must pass clearerr: check there is no path to a dominator (loop head) avoiding clearerr blocks
            clr = {x for x in f.blocks if any(cc.get("fn") == "clearerr" for e in f.blocks[x].elems if e is not None
                                              for cc in ex.calls(e, into_refs=True))}
            seen, st, escapes = set(), [tgt], False
            while st:
                x = st.pop()
                if x in seen or x is None or x in clr:
                    continue
                seen.add(x)
                if x in doms.get(b.id, ()) and x != b.id:
                    escapes = True
                    break
                st.extend(y for y in f.blocks[x].succs if y is not None)
            ok = not escapes
            ck.ob("C17-EINTR", f.name, ok, common.where(f, b.term["cond"]),
                  "%s: the EINTR retry passes clearerr()" % f.name if ok else
                  "%s(): after `ferror()` with errno == EINTR the loop continues without clearerr(): the stream's error indicator "
                  "stays set and errno stays EINTR, so every following character is discarded and at end of input the loop "
                  "spins for ever (a progress signal during --files/--files0 makes xz skip all remaining names silently)"
                  % f.name, key="EINTR:" + f.name)
    if n < 1:
        raise AnalysisBroken("C17-EINTR: no `ferror()` ... `errno == EINTR` retry found (read_name expected)")


def check_tuklib_exit(ck, prog, rule="C17-STATUS"):
    """tuklib_exit() is where a deferred write error of standard output (ferror/fclose) becomes the exit status.  The store
    `status = err_status` must not depend on show_error (xz passes show_error = 0 for -qq): silence concerns the message,
    never the status."""
    f = prog.fn("tuklib_exit", "tuklib_exit.c", target="xz")
    ck.saw_function(f)
    stores = {b.id for b, i, e in f.iter_elems() for (l, r, op, n) in ex.writes(e)
              if ex.show(l) == "status" and r is not None and ex.show(r) == "err_status"}
    if not stores:
        raise AnalysisBroken("tuklib_exit: the store status = err_status was not found")
    barrier = {b.id for b in f.blocks.values() if b.term and "cond" in b.term and "show_error" in ex.show(b.term["cond"])}
    def stream_blocks(name):
        return {b.id for b, i, e in f.iter_elems() for c in ex.calls(e, into_refs=False)
                if c.get("fn") in ("fclose", "ferror") and c["args"] and ex.show(c["args"][0]) == name}
    start, stop = stream_blocks("stdout"), stream_blocks("stderr")
    if not start:
        raise AnalysisBroken("tuklib_exit: fclose(stdout) not found")
    # from the close of stdout to the handling of stderr
    def reach(polarity):
        seen, st = set(), list(start)
        while st:
            x = st.pop()
            if x is None or x in seen or x in stop:
                continue
            seen.add(x)
            if x in barrier and len(f.blocks[x].succs) == 2:
                st.append(f.blocks[x].succs[polarity])
            else:
                st.extend(f.blocks[x].succs)
        return seen
    # the store is reached whichever way every test of show_error goes
    ok = bool(stores & reach(0)) and bool(stores & reach(1))
    ck.ob(rule, "tuklib_exit:status-not-silenced", ok, common.where(f),
          "tuklib_exit: status = err_status does not depend on show_error" if ok else
          "tuklib_exit(): `status = err_status` is reached only through a test of show_error: with -qq (show_error == 0) a failed "
          "write or close of standard output leaves the exit status 0, so `xz -qq -c file > /full/disk && rm file` loses the data",
          key="STATUS:tuklib_exit:status-not-silenced")


def run(ck):
    ck.explanation = (
        "Finite-domain path-sensitive analysis of `success` through io_close (with each I/O primitive forced to "
        "fail), must-pass rules for coder_normal's `success = true`, ordering/dominance of close/unlink/sync, "
        "who-may-call rules for unlink/open with folded flag constants, async-signal-safety closure of the signal "
        "handlers, block/unblock pairing, and a reporting rule for every failure return of the xz I/O layer.")
    ck.not_decided = ("file-system state after kill -9 at an arbitrary instant (only the ordering that makes it "
                      "safe), short-count arithmetic, sandbox interaction, other platforms' branches.")
    prog = common.program(ck, ("xz",))
    check_order(ck, prog)
    check_fail(ck, prog)
    check_who(ck, prog)
    check_sig(ck, prog)
    check_sigset(ck, prog)
    check_msg_status(ck, prog)
    check_status(ck, prog)
    check_tuklib_exit(ck, prog)
    check_perfile(ck, prog)
    check_exit_sticky(ck, prog)
    check_eof(ck, prog)
    check_nofatal(ck, prog)
    check_eintr_stdio(ck, prog)
    # "the source is removed only after a complete and correct target was written": a block that is_sparse() wrongly calls
    # all-zero is replaced by a hole, the target is silently wrong and the source is deleted (rule shared with C18)
    from . import C18 as _C18
    ck.rule("C17-SPARSE", "is_sparse() examines every byte of the output buffer before the block is replaced by a hole")
    _C18.check_is_sparse(ck, prog, rule="C17-SPARSE")
    # --no-sync / --no-sparse do what their names say: the sync-before-unlink clause holds unless --no-sync itself was given
    from . import C19 as _C19
    ck.rule("C17-OPTMAP", "parse_real: --no-sync and --no-sparse are dispatched through their own enumerators")
    _C19.check_longopts_enum(ck, prog, rule="C17-OPTMAP", only=("no-sync", "no-sparse"))
