"""C12 — flush actions and mid-stream option changes (structural clauses).

C12-CONV    stream_encode's action conversion table and the Block/Index bookkeeping after a Block end.
C12-NOEMPTY no empty Block: SEQ_BLOCK_INIT with no input returns without starting a Block.
C12-REFUSE  filters that cannot sync-flush refuse before touching state or output.
C12-LZMA2   LZMA2 encoder: STREAM_END for flush only with no unencoded input; end marker only for FINISH;
            lz_encode resets mf.action on every non-OK return; pending bytes replayed only with input.
C12-UPD     option updates are accepted only in the states where they are safe.
"""
from sa import ex, cfg, fd, guard
from sa.compdb import AnalysisBroken
from . import common
from .oblig import MP, Present, evaluate, PlainGraph

SE = "stream_encoder.c"
K_ACTION = fd.Key("var", "action", domain=range(5), label="action")
END = ("LZMA_STREAM_END",)

TABLE = [
    MP("block-end:index-append", "stream_encode", SE, [("res", "lzma_index_append", ("LZMA_OK",))],
       ("seq", "SEQ_BLOCK_INIT"), src=("SEQ_BLOCK_ENCODE",), init_seq=("SEQ_STREAM_HEADER",),
       states=("SEQ_BLOCK_ENCODE",),
       why="a finished Block gets its Index Record before the next Block can start"),
    MP("block-end:needs-end", "stream_encode", SE, [("res", "slot:code", END)],
       ("seq", "SEQ_BLOCK_INIT"), src=("SEQ_BLOCK_ENCODE",), init_seq=("SEQ_STREAM_HEADER",),
       states=("SEQ_BLOCK_ENCODE",), why="the next Block starts only after the Block encoder finished"),
    MP("sync-flush:no-block-end", "stream_encode", SE, [("cmp", "var:action", "enum:LZMA_SYNC_FLUSH")],
       ("call", "lzma_index_append"), src=("SEQ_BLOCK_ENCODE",), init_seq=("SEQ_STREAM_HEADER", "SEQ_BLOCK_ENCODE"),
       keys=(K_ACTION,), init={"action": (1,)}, resume=False,
       why="LZMA_SYNC_FLUSH never ends the Block (no Index Record is added)"),
    MP("no-empty-block", "stream_encode", SE, [("rel", "deref:in_pos", "var:in_size", ("==",), "F")],
       ("call", "block_encoder_init"), src=("SEQ_BLOCK_INIT",), init_seq=("SEQ_BLOCK_INIT",), resume=False,
       why="a Block is started only when there is input (no empty Block after a flush)"),
    MP("no-empty-block:header", "stream_encode", SE, [("rel", "deref:in_pos", "var:in_size", ("==",), "F")],
       ("call", "lzma_block_header_encode"), src=("SEQ_BLOCK_INIT",), init_seq=("SEQ_BLOCK_INIT",), resume=False,
       why="a Block Header is written only when there is input"),
    MP("finish:index-init", "stream_encode", SE, [("cmp", "var:action", "enum:LZMA_FINISH")],
       ("call", "lzma_index_encoder_init"), src=("SEQ_BLOCK_INIT",), init_seq=("SEQ_BLOCK_INIT",), resume=False,
       why="the Index is started only by LZMA_FINISH"),
    # LZMA1 / BCJ refuse sync flush
    MP("lzma1:refuse", "lzma_encode", "lzma_encoder.c",
       [("rel", "field:action", "enum:LZMA_SYNC_FLUSH", ("==",), "F")], ("call", "lzma_lzma_encode"), plain=True,
       fail=("LZMA_OPTIONS_ERROR",), why="LZMA1 refuses LZMA_SYNC_FLUSH before encoding anything"),
    # LZMA2
    MP("lzma2:flush-end", "lzma2_encode", "lzma2_encoder.c",
       [("test", "call:mf_unencoded", "T", ("==",))], ("ret", END), src=("SEQ_INIT",),
       init_seq=("SEQ_INIT",), why="LZMA2 reports the flush/finish complete only with no unencoded input left"),
    # lz_encode
    # updates
    MP("upd:block", "block_encoder_update", "block_encoder.c",
       [("rel", "field:sequence", "enum:SEQ_CODE", ("!=",), "F")], ("call", "lzma_next_filter_update"),
       plain=True, fail=("LZMA_PROG_ERROR",), why="Block encoder accepts updates only while coding"),
    MP("upd:lzma2-state", "lzma2_encoder_options_update", "lzma2_encoder.c",
       [("rel", "field:sequence", "enum:SEQ_INIT", ("!=",), "F")], ("ret", ("LZMA_OK",)),
       plain=True, fail=("LZMA_PROG_ERROR",),
       why="LZMA2 options change only between chunks (SEQ_INIT)"),
    MP("upd:filter-id", "lzma_next_filter_update", "/common.c",
       [("cmp", "field:id", "d_field:id")], ("ret", ("LZMA_OK",)), plain=True, fail=("LZMA_PROG_ERROR",),
       why="an update cannot change the Filter ID"),
]


def check_conv(ck, prog):
    ck.rule("C12-CONV", "action conversion table of the Stream encoder")
    f = prog.fn("stream_encode", SE)
    ck.saw_function(f)
    conv = None
    for b, i, e in f.iter_elems():
        if e.get("k") == "decl" and e["n"] == "convert" and e.get("init") is not None:
            conv = [ex.strip(x).get("n") for x in ex.strip(e["init"])["e"]]
    if conv is None:
        for g in prog.globals.get("convert", []):
            if g["file"].endswith(SE) and g.get("init"):
                conv = [ex.strip(x).get("n") for x in ex.strip(g["init"])["e"]]
    want = ["LZMA_RUN", "LZMA_SYNC_FLUSH", "LZMA_FINISH", "LZMA_FINISH", "LZMA_FINISH"]
    ck.ob("C12-CONV", "convert-table", conv == want, common.where(f),
          "convert[] = %s (RUN, SYNC_FLUSH, FULL_FLUSH->FINISH, FINISH, FULL_BARRIER->FINISH)" % conv,
          key="CONV:table")
    # the block encoder is called with convert[action]
    okc = False
    for b, i, e in f.iter_elems():
        for c in ex.calls(e, into_refs=False):
            if not c.get("fn") and c["args"] and ex.show(c["args"][-1]) == "convert[action]":
                okc = True
    ck.ob("C12-CONV", "convert-used", okc, common.where(f),
          "Block encoder is called with convert[action]", key="CONV:used")
    # index_append takes the sizes of the Block just finished
    app = None
    for b, i, e in f.iter_elems():
        for c in ex.calls(e, into_refs=False):
            if c.get("fn") == "lzma_index_append":
                app = c
    ok = app is not None and guard.pat_match(f, app["args"][2], "call:lzma_block_unpadded_size") and \
        ex.show(app["args"][3]) == "coder->block_options.uncompressed_size"
    ck.ob("C12-CONV", "index-append-args", ok, common.where(f, app),
          "lzma_index_append(unpadded size of block_options, block_options.uncompressed_size)",
          key="CONV:append-args")


def check_refuse_simple(ck, prog):
    ck.rule("C12-REFUSE", "BCJ filters refuse LZMA_SYNC_FLUSH before touching coder state or output")
    f = prog.fn("simple_code", "simple_coder.c")
    ck.saw_function(f)
    dom = cfg.dominators(f)
    gd = None
    for b in f.blocks.values():
        t = b.term
        if t and "cond" in t and ex.show(t["cond"]) == "action == LZMA_SYNC_FLUSH":
            gd = b
    ok = gd is not None
    why = "no `action == LZMA_SYNC_FLUSH` test"
    if gd is not None:
        # every write to coder state / call happens in blocks dominated by the guard
        bad = []
        for b, i, e in f.iter_elems():
            eff = bool(list(ex.calls(e, into_refs=False))) or any(
                ex.field_key(l) or (ex.strip(l) or {}).get("k") == "un" for (l, r, op, n) in ex.writes(e))
            if eff and (gd.id not in dom.get(b.id, ()) or b.id == gd.id):
                bad.append(ex.line(e))
        ok = not bad
        why = "all effects are dominated by the SYNC_FLUSH refusal" if ok else \
            "effects at lines %s precede the SYNC_FLUSH test" % bad[:4]
    ck.ob("C12-REFUSE", "simple_code", ok, common.where(f), why, key="REFUSE:simple_code")


def check_bt_flush(ck, prog):
    """Binary-tree match finders must not insert the last (nice_len - 1) positions before a sync flush into the tree:
    their strings would be compared only up to the flush point, and when more input arrives the tree order is wrong.
    They go through move_pending() instead and are re-run after the flush.  Hash chains have no such invariant."""
    from sa import guard
    ck.rule("C12-BTFLUSH", "bt2/bt3/bt4 finders defer to move_pending() during LZMA_SYNC_FLUSH when fewer than nice_len "
                           "bytes are available; hash-chain finders do not need to")
    for name in ("bt2", "bt3", "bt4"):
        for kind in ("find", "skip"):
            f = prog.fn("lzma_mf_%s_%s" % (name, kind), "lz_encoder_mf.c")
            ck.saw_function(f)
            gs = guard.find_cmp(f, "field:action", "enum:LZMA_SYNC_FLUSH")
            ok = False
            for g_ in gs:
                blk = f.blocks[g_.bid]
                t_succ = blk.succs[0] if g_.pass_label == "T" else blk.succs[1]
                # the equal-edge leads to move_pending before any move_pos / tree function
                seen, st = set(), [t_succ]
                while st:
                    x = st.pop()
                    if x in seen or x is None:
                        continue
                    seen.add(x)
                    calls_ = [c.get("fn") for e in f.blocks[x].elems if e for c in ex.calls(e, into_refs=False)]
                    if "move_pending" in calls_:
                        ok = True
                        continue
                    if any(c in ("move_pos", "bt_find_func", "bt_skip_func") for c in calls_):
                        ok = False
                        break
                    st.extend(cfg.succs(f, x))
            ck.ob("C12-BTFLUSH", f.name, ok, common.where(f),
                  "%s: action == LZMA_SYNC_FLUSH leads to move_pending() without touching the tree" % f.name if ok else
                  "%s(): no `mf->action == LZMA_SYNC_FLUSH` branch leading to move_pending(): during a sync flush the "
                  "positions near the flush point are inserted into the binary tree with truncated comparisons, and "
                  "matches found after the flush can be wrong (undecodable output)" % f.name,
                  key="BTFLUSH:" + f.name)
    ck.floor("C12-BTFLUSH", 6)


def check_props_change(ck, prog):
    """A change of lc/lp/pb accepted by lzma2_encoder_options_update() takes effect through lzma_lzma_encoder_reset():
    the masks derived from the properties must be recomputed there (not only when the encoder is created)."""
    ck.rule("C12-PROPS", "lzma_lzma_encoder_reset() recomputes pos_mask, literal_context_bits and literal_mask from the "
                         "options it is given")
    f = prog.fn("lzma_lzma_encoder_reset", "lzma_encoder.c")
    ck.saw_function(f)
    got = {}
    for b, i, e in f.iter_elems():
        for (l, r, op, node) in ex.writes(e):
            t = ex.show(l)
            if t in ("coder->pos_mask", "coder->literal_context_bits", "coder->literal_mask") and r is not None:
                got[t] = any(x.get("k") == "var" and x["n"] == "options" for x in ex.walk(r))
    ok = len(got) == 3 and all(got.values())
    ck.ob("C12-PROPS", "reset-recomputes-masks", ok, common.where(f),
          "lzma_lzma_encoder_reset: %s derived from *options" % sorted(got) if ok else
          "lzma_lzma_encoder_reset() does not recompute %s from its options: after lzma_filters_update() with new lc/lp/pb "
          "the chunk header announces the new properties but the encoder keeps coding with the old masks (undecodable)" % (
              sorted(set(["coder->pos_mask", "coder->literal_context_bits", "coder->literal_mask"]) -
                     {k for k, v in got.items() if v})), key="PROPS:reset-masks")


def check_lzma2(ck, prog):
    ck.rule("C12-LZMA2", "LZMA2/LZ encoder flush details")
    f = prog.fn("lzma2_encode", "lzma2_encoder.c")
    ck.saw_function(f)
    # end marker only under mf->action == LZMA_FINISH
    dom = cfg.dominators(f)
    ok = False
    why = "end marker store not found"
    for b, i, e in f.iter_elems():
        for (l, r, op, node) in ex.writes(e):
            ls = ex.strip(l)
            if ls is not None and ls.get("k") == "idx" and ex.show(ls["b"]) == "out" and ex.is_const(r, 0):
                # the predecessor branch tests mf->action == LZMA_FINISH
                for p in b.preds:
                    t = f.blocks[p].term
                    if t and "cond" in t and ex.show(t["cond"]) == "mf->action == LZMA_FINISH" \
                            and f.blocks[p].succs[0] == b.id:
                        ok = True
                        why = "end marker 0x00 is written only when mf->action == LZMA_FINISH"
    ck.ob("C12-LZMA2", "end-marker", ok, common.where(f), why, key="LZMA2:end-marker")
    # return at SEQ_INIT with no input: OK for RUN, STREAM_END otherwise
    okr = any(ex.show(e.get("e")) == "(mf->action == LZMA_RUN) ? LZMA_OK : LZMA_STREAM_END"
              for b, i, e in cfg.returns(f))
    ck.ob("C12-LZMA2", "flush-return", okr, common.where(f),
          "with no unencoded input: LZMA_OK for LZMA_RUN, LZMA_STREAM_END for flush/finish",
          key="LZMA2:flush-return")
    # lz_encode: mf.action reset on every non-OK return of the LZ coder
    g = prog.fn("lz_encode", "lz_encoder.c")
    ck.saw_function(g)
    cgr = common.callgraph(prog)
    rs = common.retsets(prog)
    pg = PlainGraph(prog, g, cgr, rs)
    gs, sites = guard.find_res(g, "slot:code", ("LZMA_OK",), prog)
    ok2 = False
    if gs:
        gd = gs[0]
        # on the failing edge, the store mf.action = LZMA_RUN precedes the return
        blk = g.blocks[g.blocks[gd.bid].succs[0 if gd.fail_label == "T" else 1]]
        stores = [ex.show(n) for e in blk.elems if e is not None for (l, r, op, n) in ex.writes(e)]
        ok2 = any(s == "coder->mf.action = LZMA_RUN" for s in stores)
    ck.ob("C12-LZMA2", "lz_encode:action-reset", ok2, common.where(g),
          "lz_encode resets mf.action to LZMA_RUN before returning a non-OK code", key="LZMA2:action-reset")
    # fill_window: pending replay guarded by read_pos < read_limit
    h = prog.fn("fill_window", "lz_encoder.c")
    ck.saw_function(h)
    domh = cfg.dominators(h)
    def is_skip(c, depth=0):
        if not c.get("fn"):
            fk = ex.field_key(ex.strip(c["callee"]))
            return bool(fk) and fk[1] == "skip"
        # a static helper of the same file that makes the call (code extracted from fill_window)
        for cand in prog.functions.get(c.get("fn"), []):
            if cand.blocks and cand.static and cand.tu == h.tu and depth < 2:
                if any(is_skip(c2, depth + 1) for b2, i2, e2 in cand.iter_elems() for c2 in ex.calls(e2, into_refs=False)):
                    return True
        return False
    skipb = [b.id for b, i, e in h.iter_elems() if any(is_skip(c) for c in ex.calls(e, into_refs=False))]
    conds = [b.id for b in h.blocks.values() if b.term and "cond" in b.term and
             ex.show(b.term["cond"]) == "coder->mf.read_pos < coder->mf.read_limit"]
    ok3 = bool(skipb) and bool(conds) and all(any(c in domh.get(s, ()) for c in conds) for s in skipb)
    ck.ob("C12-LZMA2", "pending-replay", ok3, common.where(h),
          "pending bytes are re-hashed (mf.skip) only when read_pos < read_limit", key="LZMA2:pending")
    # fill_window publishes the action only when the input ended
    ok4 = False
    for b, i, e in h.iter_elems():
        for (l, r, op, node) in ex.writes(e):
            if ex.show(node) == "coder->mf.action = action":
                for p in b.preds:
                    t = h.blocks[p].term
                    if t and "cond" in t and ex.show(t["cond"]) == "ret == LZMA_STREAM_END" and h.blocks[p].succs[0] == b.id:
                        ok4 = True
    ck.ob("C12-LZMA2", "action-published", ok4, common.where(h),
          "mf.action = action only when the input filter chain reported LZMA_STREAM_END", key="LZMA2:publish")


def check_upd(ck, prog):
    f = prog.fn("stream_encoder_update", SE)
    ck.saw_function(f)
    # full chain change only when sequence <= SEQ_BLOCK_INIT; options-only when <= SEQ_BLOCK_ENCODE
    conds = {}
    for b in f.blocks.values():
        t = b.term
        if t and "cond" in t:
            s = ex.show(t["cond"])
            if s.startswith("coder->sequence <="):
                conds[s] = b
    want1 = "coder->sequence <= SEQ_BLOCK_INIT"
    want2 = "coder->sequence <= SEQ_BLOCK_ENCODE"
    ok = want1 in conds and want2 in conds
    if ok:
        b1, b2 = conds[want1], conds[want2]
        r1 = cfg.reachable(f, [b1.succs[0]], stop=[])
        init_in_true = any(c.get("fn") == "block_encoder_init" for e in f.blocks[b1.succs[0]].elems if e
                           for c in ex.calls(e, into_refs=False))
        upd_in_true = any(not c.get("fn") for bb in [b2.succs[0]] for e in f.blocks[bb].elems if e
                          for c in ex.calls(e, into_refs=False))
        ok = init_in_true and upd_in_true
    ck.ob("C12-UPD", "stream-update-states", ok, common.where(f),
          "whole chain replaced only when sequence <= SEQ_BLOCK_INIT; options-only update when <= SEQ_BLOCK_ENCODE",
          key="UPD:stream-states")
    # a refused chain leaves the encoder usable: the "Block encoder is initialised" flag is cleared before the attempt
    # (block_encoder_init() ends the old filter chain first, so after a failure there is no usable Block encoder)
    callb = [(b, i) for b, i, e in f.iter_elems() for c in ex.calls(e, into_refs=False)
             if c.get("fn") == "block_encoder_init"]
    okf = False
    if callb:
        cb, ci = callb[0]

        def via(bb, ii, ee):
            if bb.id == cb.id and ii >= ci:
                return False
            return any(ex.show(l) == "coder->block_encoder_is_initialized" and r is not None and ex.is_const(r, 0)
                       for (l, r, op, n) in ex.writes(ee))
        okf = any(via(cb, j, cb.elems[j]) for j in range(0, ci) if cb.elems[j] is not None)
        if not okf:
            okf, _p = cfg.must_pass(f, [f.entry], [cb.id], via)
    ck.ob("C12-UPD", "stream-update-flag", okf, common.where(f),
          "block_encoder_is_initialized is cleared before block_encoder_init() is tried with the new chain" if okf else
          "stream_encoder_update(): block_encoder_init() is tried with the new chain while block_encoder_is_initialized "
          "may still be true: if the new chain is refused, the next lzma_code() uses a Block encoder whose filter chain "
          "was already destroyed (NULL function pointer)", key="UPD:stream-flag")
    # threaded encoder: the chain accepted by lzma_filters_update() reaches the next Block because get_thread() hands the
    # worker the cached copy on EVERY hand-out (a recycled worker would otherwise encode with its previous chain and
    # write that chain into the Block Header)
    g = prog.fn("get_thread", "stream_encoder_mt.c")
    ck.saw_function(g)
    sig = [(b, i) for b, i, e in g.iter_elems() for c in ex.calls(e, into_refs=False)
           if c.get("fn") == "mythread_cond_signal" and c["args"] and "thr->cond" in ex.show(c["args"][0])]
    if not sig:
        raise AnalysisBroken("get_thread: the wake-up of the worker (mythread_cond_signal(&coder->thr->cond)) not found")
    sb, si = sig[0]

    def via_copy(bb, ii, ee):
        if bb.id == sb.id and ii >= si:
            return False
        return any(c.get("fn") in ("memcpy", "__builtin_memcpy", "__builtin___memcpy_chk") and len(c["args"]) >= 2 and
                   ex.show(c["args"][0]).endswith("thr->filters") and "filters_cache" in ex.show(c["args"][1])
                   for c in ex.calls(ee, into_refs=False))
    okc = any(via_copy(sb, j, sb.elems[j]) for j in range(0, si) if sb.elems[j] is not None)
    if not okc:
        okc, _p = cfg.must_pass(g, [g.entry], [sb.id], via_copy)
    ck.ob("C12-UPD", "mt-thread-gets-chain", okc, common.where(g, sb.elems[si]),
          "get_thread: every worker that is woken up has been given coder->filters_cache" if okc else
          "get_thread(): a worker can be woken up without `memcpy(coder->thr->filters, coder->filters_cache, ...)`: a "
          "recycled worker encodes the next Block (and writes its Block Header) with the filter chain of its previous "
          "Block, so a chain accepted by lzma_filters_update() is silently not used", key="UPD:mt-thread-gets-chain")
    # the else branch: PROG_ERROR
    pe = any(ex.show(n) == "ret = LZMA_PROG_ERROR" for b, i, e in f.iter_elems()
             for (l, r, op, n) in ex.writes(e))
    ck.ob("C12-UPD", "stream-update-late", pe, common.where(f),
          "update during Index/Footer is LZMA_PROG_ERROR", key="UPD:stream-late")
    # lzma2 options update: validation precedes the stores and both need_* flags are set
    g = prog.fn("lzma2_encoder_options_update", "lzma2_encoder.c")
    ck.saw_function(g)
    dom = cfg.dominators(g)
    val_blocks = [b.id for b in g.blocks.values() if b.term and "cond" in b.term and
                  ("LZMA_LCLP_MAX" in ex.show(b.term["cond"]) or "> 4" in ex.show(b.term["cond"])
                   or ex.show(b.term["cond"]).endswith("> 4"))]
    stores = {}
    for b, i, e in g.iter_elems():
        for (l, r, op, node) in ex.writes(e):
            fk = ex.field_key(l)
            if fk and fk[1] in ("lc", "lp", "pb", "need_properties", "need_state_reset"):
                stores[fk[1]] = b.id
    ok = {"lc", "lp", "pb", "need_properties", "need_state_reset"} <= set(stores)
    if ok:
        vals = [b.id for b in g.blocks.values() if b.term and "cond" in b.term and any(
            x.get("k") == "mem" and x["f"] in ("lc", "lp", "pb") for x in ex.walk(b.term["cond"])) and any(
            x.get("k") == "const" and x["v"] == 4 for x in ex.walk(b.term["cond"]))]
        ok = len(vals) >= 3 and all(any(v in dom.get(sb, ()) for v in vals) for sb in stores.values())
    ck.ob("C12-UPD", "lzma2-validate-first", ok, common.where(g),
          "lc/lp/pb are validated before being stored; need_properties and need_state_reset are set",
          key="UPD:lzma2-validate")


_unchecked_cache = {}


def unchecked_deref_summary(prog):
    """(function name, parameter index) pairs whose pointer parameter is dereferenced -- directly, through a local alias, or
    by passing it on to a callee with the same property -- on a path from the entry on which it has not been compared with
    NULL (fixed point over the call graph of liblzma; depth is unbounded but the relation is finite)."""
    k = id(prog)
    if k in _unchecked_cache:
        return _unchecked_cache[k]
    fns = [f for fs in prog.functions.values() for f in fs if f.blocks]
    D = {}          # (name, idx) -> (function, node) witness
    TESTS = set()   # (name, idx): the function compares that parameter with NULL somewhere

    def params(f):
        return [v for v in f.vars if v.get("param")]

    def analyse(f):
        changed = False
        ps = params(f)
        for idx, pv in enumerate(ps):
            if "*" not in (pv.get("ty") or "") or (f.name, idx) in D:
                continue
            names = {pv["n"]}
            # local aliases: `T *x = p;` (single definition)
            for b, i, e in f.iter_elems():
                d = ex.deref(e)
                if d.get("k") == "decl" and d.get("init") is not None:
                    s = ex.strip(d["init"])
                    if s is not None and s.get("k") == "var" and s.get("n") in names and s.get("id") == pv.get("id"):
                        names.add(d["n"])

            def isp(n):
                n = ex.strip(n)
                while n is not None and n.get("k") == "paren":
                    n = ex.strip(n["e"])
                return n is not None and n.get("k") == "var" and n.get("n") in names

            def null_edge(b):
                """index of the successor taken when the pointer IS NULL, or None if the branch is no NULL test"""
                c = ex.strip(b.term["cond"]) if b.term and "cond" in b.term and len(b.succs) == 2 else None
                if c is None:
                    return None
                neg = False
                while c is not None and c.get("k") in ("un", "paren"):
                    if c.get("k") == "un" and c["op"] == "!":
                        neg = not neg
                    elif c.get("k") == "un":
                        return None
                    c = ex.strip(c["e"])
                if c is None:
                    return None
                if isp(c):
                    return 0 if neg else 1
                if c.get("k") == "bin" and c["op"] in ("==", "!="):
                    if (isp(c["l"]) and ex.is_const(c["r"], 0)) or (isp(c["r"]) and ex.is_const(c["l"], 0)):
                        eq_true = (c["op"] == "==") != neg
                        return 0 if eq_true else 1
                return None

            def derefs(e):
                for x in ex.walk(e, into_refs=False):
                    kx = x.get("k")
                    if kx == "mem" and x.get("arrow") and isp(x.get("b")):
                        return x
                    if kx == "un" and x.get("op") == "*" and isp(x.get("e")):
                        return x
                    if kx == "idx" and isp(x.get("b")):
                        return x
                    if kx == "call":
                        for ai, a in enumerate(x.get("args") or ()):
                            if isp(a):
                                if (x.get("fn"), ai) in D:
                                    return x
                                if x.get("fn") in ("memcpy", "__builtin_memcpy", "__builtin___memcpy_chk", "memcmp") and ai in (0, 1):
                                    return x
                return None
            def validates(cond):
                """the condition contains a call that receives the pointer and tests it against NULL before using it"""
                from sa import guard as _guard
                for x in ex.walk(cond):
                    for c in ([x] if x.get("k") == "call" else []):
                        for ai, a in enumerate(c.get("args") or ()):
                            if isp(a) and (c.get("fn"), ai) in TESTS and (c.get("fn"), ai) not in D:
                                return True
                    if x.get("k") == "var" and x.get("s") == "l" and not isp(x):
                        d_ = _guard.single_def(f, x.get("id"))
                        if d_ is not None and any(cc.get("k") == "call" and any(
                                isp(a) and (cc.get("fn"), ai) in TESTS and (cc.get("fn"), ai) not in D
                                for ai, a in enumerate(cc.get("args") or ())) for cc in ex.walk(d_)):
                            return True
                return False
            seen, st = set(), [f.entry]
            hit = None
            while st and hit is None:
                x = st.pop()
                if x is None or x in seen:
                    continue
                seen.add(x)
                b = f.blocks[x]
                ne = null_edge(b)
                for j, e in enumerate(b.elems):
                    if e is None:
                        continue
                    if ne is not None and j == len(b.elems) - 1:
                        continue        # the NULL test itself
                    # a store to the parameter / alias ends the analysis of this path conservatively (treated as checked)
                    h = derefs(e)
                    if h is not None:
                        hit = h
                        break
                if hit is not None:
                    break
                if ne is not None:
                    st.append(b.succs[ne])
                elif b.term and "cond" in b.term and len(b.succs) == 2 and validates(b.term["cond"]):
                    pass        # the branch decides on the result of a callee that tests the pointer itself: checked from here on
                else:
                    st.extend(b.succs)
            if hit is not None:
                D[(f.name, idx)] = (f, hit)
                changed = True
        return changed
    for f in fns:
        for idx, pv in enumerate(params(f)):
            if "*" not in (pv.get("ty") or ""):
                continue
            nm = {pv["n"]}
            for b, i, e in f.iter_elems():
                d = ex.deref(e)
                if d.get("k") == "decl" and d.get("init") is not None:
                    s = ex.strip(d["init"])
                    if s is not None and s.get("k") == "var" and s.get("n") in nm:
                        nm.add(d["n"])
            for b in f.blocks.values():
                c = ex.strip(b.term["cond"]) if b.term and "cond" in b.term else None
                while c is not None and c.get("k") in ("un", "paren"):
                    c = ex.strip(c["e"])
                if c is None:
                    continue
                if (c.get("k") == "var" and c.get("n") in nm) or (
                        c.get("k") == "bin" and c["op"] in ("==", "!=") and (
                            (ex.strip(c["l"]).get("k") == "var" and ex.strip(c["l"]).get("n") in nm and ex.is_const(c["r"], 0)) or
                            (ex.strip(c["r"]).get("k") == "var" and ex.strip(c["r"]).get("n") in nm and ex.is_const(c["l"], 0)))):
                    TESTS.add((f.name, idx))
    for _ in range(12):
        ch = False
        for f in fns:
            ch = analyse(f) or ch
        if not ch:
            break
    _unchecked_cache[k] = D
    return D


def check_null_options(ck, prog, rule="C12-NULLOPT", only=None):
    """The filter-specific entry points take their options as `const void *options`.  For a filter that needs options a NULL
    pointer is an invalid chain, and the encoder init functions answer it with LZMA_PROG_ERROR.  Every sibling that gets the
    same pointer -- memory usage, Block size, decoder init -- has to test it before the first dereference as well, because
    lzma_filters_update(), lzma_stream_encoder_mt() and the *_memusage() functions validate a chain through them: a change
    that must be refused would otherwise crash the process."""
    ck.rule(rule, "filter entry points: `const void *options` is compared with NULL before it is dereferenced (directly or in a callee)")
    D = unchecked_deref_summary(prog)
    from .C01 import table_rows, fn_name
    entries = set()
    for tab, file in (("encoders", "filter_encoder.c"), ("decoders", "filter_decoder.c")):
        for row in table_rows(prog, tab, file):
            for col, v in row.items():
                nm = fn_name(v)
                if nm:
                    entries.add(nm)
    # the LZ layer calls the filter's own init function through a pointer that the table's init function passes on
    for fs in prog.functions.values():
        for g in fs:
            if not g.blocks:
                continue
            for b, i, e in g.iter_elems():
                for c in ex.calls(e, into_refs=False):
                    if c.get("fn") in ("lzma_lz_encoder_init", "lzma_lz_decoder_init"):
                        for a in c.get("args") or ():
                            nm = fn_name(a)
                            if nm and nm in prog.functions:
                                entries.add(nm)
    n = 0
    for f in sorted([f for fs in prog.functions.values() for f in fs if f.blocks], key=lambda f: (f.file, f.line)):
        if f.name not in entries:
            continue
        if only is not None and not any(s in f.name for s in only):
            continue
        ps = [v for v in f.vars if v.get("param")]
        for idx, pv in enumerate(ps):
            if (pv.get("ty") or "").replace(" ", "") != "constvoid*" or pv["n"] not in ("options", "opt"):
                continue
            n += 1
            ck.saw_function(f)
            w = D.get((f.name, idx))
            ck.ob(rule, f.name, w is None, common.where(f, w[1] if w else None),
                  "%s: `%s` is tested against NULL before any dereference" % (f.name, pv["n"]) if w is None else
                  "%s(): `%s` is dereferenced by `%s` on a path where it has not been compared with NULL: a filter chain whose LZMA "
                  "options pointer is NULL (answered with LZMA_PROG_ERROR by the encoder init functions) crashes here -- reached from "
                  "lzma_filters_update(), lzma_raw_decoder(), lzma_stream_encoder_mt() and the *_memusage()/lzma_mt_block_size() queries" % (
                      f.name, pv["n"], ex.show(w[1])[:70]), key="NULLOPT:%s" % f.name)
    if n < (3 if only else 10):
        raise AnalysisBroken("%s: only %d filter entry points with a `const void *options` parameter found" % (rule, n))


def run(ck):
    ck.explanation = (
        "Must-pass and dominance rules on the encoder state machines: Index bookkeeping after a Block end, no "
        "empty Block after a flush, SYNC_FLUSH never ends a Block, filters without sync-flush support refuse before "
        "any effect, LZMA2 flush end conditions and end marker, match-finder action reset, state restrictions and "
        "validation order of the update functions, action conversion table.")
    ck.not_decided = ("that the flushed prefix is decodable (byte-level), match-finder `pending` arithmetic, "
                      "strong guarantee of failed updates is under C10-STRONG.")
    prog = common.program(ck, ("liblzma",))
    check_conv(ck, prog)
    ck.rule("C12-FLOW", "must-pass rules of the encoder machines and update functions")
    evaluate(ck, prog, "C12-FLOW", TABLE, floor=10)
    check_refuse_simple(ck, prog)
    check_lzma2(ck, prog)
    check_bt_flush(ck, prog)
    check_props_change(ck, prog)
    ck.rule("C12-UPD", "update functions: allowed states and validation order")
    check_upd(ck, prog)
    # "encoding then continues normally": lzma_code() returns to ISEQ_RUN after a completed flush/barrier (C11's
    # transition relation of lzma_code, evaluated exhaustively)
    from . import C11
    C11.check_fsm(ck, prog)
    # "a refused change leaves the encoder usable": the update functions replace coder->filters only after the new
    # chain was copied successfully (strong guarantee, rule shared with C10)
    from . import C10
    C10.check_strong(ck, prog)
    # "a full flush ends the Block and encoding continues normally": every Block Header is written from size fields that
    # were reset for that Block (rule shared with C02)
    from . import C02
    C02.check_blkopt(ck, prog)
    # "changing the filter chain between Blocks takes effect": when the new chain is shorter, the coder that used to follow
    # is ended -- lzma_next_filter_init() runs the lzma_next_coder_init() step (which ends a coder of another kind and
    # records the new init function) for the chain terminator as well
    nf = prog.fn("lzma_next_filter_init", "common.c")
    ck.saw_function(nf)
    ck.rule("C12-CHAINEND", "lzma_next_filter_init(): every return passes the lzma_next_coder_init() step")

    def via(bb, ii, ee):
        return any(ex.strip(l) is not None and ex.strip(l).get("k") == "mem" and ex.strip(l)["f"] == "init" and
                   (ex.strip(l).get("rec") or "").startswith("lzma_next_coder") for (l, r, op, nd) in ex.writes(ee))
    okc, pathc = cfg.must_pass(nf, [nf.entry], [nf.exit], via)
    ck.ob("C12-CHAINEND", "lzma_next_filter_init", okc, common.where(nf),
          "lzma_next_filter_init: next->init is (re)recorded, and a coder of another kind ended, on every path" if okc else
          "lzma_next_filter_init() can return (lines %s) without the lzma_next_coder_init() step: with a chain that became "
          "shorter the coder that used to follow stays attached and keeps filtering, while the Block Header lists only the "
          "new chain" % cfg.path_lines(nf, pathc), key="CHAINEND:lzma_next_filter_init")
    # the threaded encoder reports a full flush complete only when the output queue is empty (rule shared with C08)
    from . import C08
    ck.rule("C12-MTFLUSH", "threaded encoder: LZMA_FULL_FLUSH / LZMA_FINISH complete only with an empty output queue")
    evaluate(ck, prog, "C12-MTFLUSH", [t for t in C08.TABLE if getattr(t, "oid", "") in ("flush-needs-empty-queue", "finish-needs-index")], floor=1)
    # "a flush completes": a filter that is the last coder of its chain decides itself when a flush/finish is complete --
    # delta_encode() reaches its return only through the `action != LZMA_RUN && *in_pos == in_size` decision, also when
    # the call brought no input (a flush right after a flush)
    de = prog.fn("delta_encode", "delta_encoder.c")
    ck.saw_function(de)
    ck.rule("C12-LASTEND", "delta_encode as the last coder: every return passes the test of `action` that yields LZMA_STREAM_END")
    last = [b for b in de.blocks.values() if b.term and "cond" in b.term and len(b.succs) == 2 and
            ex.show(ex.strip(b.term["cond"])).replace("(", "").replace(")", "") in ("coder->next.code == 0", "coder->next.code == NULL")]
    if not last:
        raise AnalysisBroken("delta_encode: the test coder->next.code == NULL was not found")

    def via_act(bb, ii, ee):
        return any(x.get("k") == "bin" and x["op"] in ("==", "!=") and "action" in ex.show(x) and "LZMA_RUN" in ex.show(x)
                   for x in ex.walk(ee, into_refs=False))
    okl, pathl = cfg.must_pass(de, [last[0].succs[0]], [de.exit], via_act)
    ck.ob("C12-LASTEND", "delta_encode", okl, common.where(de),
          "delta_encode: without a next coder, every return passes `action != LZMA_RUN && *in_pos == in_size`" if okl else
          "delta_encode() can return (lines %s) as the last coder of the chain without evaluating `action != LZMA_RUN && *in_pos == "
          "in_size`: a LZMA_SYNC_FLUSH/LZMA_FULL_FLUSH/LZMA_FINISH call that brings no new input gets LZMA_OK for ever and the flush "
          "never completes" % cfg.path_lines(de, pathl), key="LASTEND:delta_encode")
    # "changing the filter chain between Blocks": the LZ encoder of the previous Block is re-used; its hash/son arrays are kept
    # only if their final size keys are unchanged (rule shared with C10)
    C10.check_sizekey(ck, prog, rule="C12-SIZEKEY", files={"lz_encoder.c"}, floor=1)
    # "a refused change leaves the encoder usable": an invalid chain must be refused, not dereferenced
    check_null_options(ck, prog)
    ck.floor("C12-CONV", 3)
    ck.floor("C12-LZMA2", 5)
    ck.floor("C12-UPD", 3)
