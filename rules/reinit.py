"""Coverage rules for (re)initialisation and reset functions, shared by several properties.

INIT-CONSIST  (belief rule, Engler et al.): a member of a coder record that (a) is session state -- some function
              other than the init function stores to it -- and (b) the init function initialises on at least one
              path, must be initialised on EVERY path of the init function that can return LZMA_OK.  Otherwise a
              re-used coder (lzma_next_coder_init keeps the old record when the same init function is used again)
              starts a new session with a value left over from the previous one.  Members that own allocations are
              excluded: they are cached across sessions on purpose.
RESET-COVER   a reset function writes every member of the record it resets that any function other than the
              init/reset functions stores to (exceptions listed with a reason).
"""
from sa import ex, cfg, own, guard
from sa.compdb import AnalysisBroken
from . import common
from .oblig import PlainGraph, make_dst


def _coder_var_fields(f, recnames):
    """{field: [(block id, elem idx, node)]} stores in f to direct members of the given records."""
    out = {}
    for b, i, e in f.iter_elems():
        for (l, r, op, node) in ex.writes(e):
            for x in ex.walk(l):
                if x.get("k") == "mem" and x.get("rec") in recnames:
                    out.setdefault((x["rec"], x["f"]), []).append((b.id, i, node))
        for c in ex.calls(e, into_refs=False):
            for a in c["args"]:
                a0 = ex.strip(a)
                if a0 is not None and a0.get("k") == "un" and a0["op"] == "&":
                    a0 = ex.strip(a0["e"])
                    # &coder->member handed to a callee counts as a store to the member
                    x = a0
                    while x is not None and x.get("k") in ("idx",):
                        x = ex.strip(x["b"])
                    if x is not None and x.get("k") == "mem" and x.get("rec") in recnames:
                        out.setdefault((x["rec"], x["f"]), []).append((b.id, i, c))
    return out


def _writes_on_all_ok_paths(prog, g, field, recnames, depth=0, _memo={}):
    """Helper g (called with the coder) stores to `field` on every path to a normal return."""
    key = (id(prog), g.key, field)
    if key in _memo:
        return _memo[key]
    _memo[key] = False
    cutb = _cut_blocks(prog, g, field, recnames, depth + 1)
    ok = _reach_ok_return(prog, g, cutb) is None
    _memo[key] = ok
    return ok


def _cut_blocks(prog, f, field, recnames, depth=0):
    cutb = set()
    for b, i, e in f.iter_elems():
        for (l, r, op, node) in ex.writes(e):
            for x in ex.walk(l):
                if x.get("k") == "mem" and (x.get("rec"), x["f"]) == field:
                    cutb.add(b.id)
            # whole-record assignment through the pointer:  *coder = (...)
        for c in ex.calls(e, into_refs=False):
            hit = False
            for a in c["args"]:
                a0 = ex.strip(a)
                if a0 is not None and a0.get("k") == "un" and a0["op"] == "&":
                    x = ex.strip(a0["e"])
                    while x is not None and x.get("k") == "idx":
                        x = ex.strip(x["b"])
                    if x is not None and x.get("k") == "mem" and (x.get("rec"), x["f"]) == field:
                        hit = True
                # an array member handed to a callee (memset(coder->history, ...)) is filled by it
                if a0 is not None and a0.get("k") == "mem" and (a0.get("rec"), a0["f"]) == field and \
                        _is_array_member(prog, field):
                    hit = True
            if hit:
                cutb.add(b.id)
                continue
            if depth < 2 and c.get("fn"):
                # a helper of the same file that receives the record and always stores to the member
                for g in prog.functions.get(c["fn"], []):
                    if g.file != f.file or not g.blocks or g is f:
                        continue
                    passes = any(_is_record_ptr(f, a, field[0], prog) for a in c["args"])
                    if passes and _writes_on_all_ok_paths(prog, g, field, recnames, depth):
                        cutb.add(b.id)
    return cutb


def _is_array_member(prog, field):
    r = prog.records.get(field[0])
    if not r:
        return False
    return any(fd_["n"] == field[1] and "[" in (fd_.get("ty") or "") for fd_ in r["fields"])


def _is_record_ptr(f, arg, recname, prog):
    a = ex.strip(arg)
    if a is None:
        return False
    if a.get("k") == "var":
        for v in f.vars:
            if v["n"] == a["n"] and (v.get("prec") == recname or "void" in (v.get("ty") or "")):
                return True
    if a.get("k") == "mem" and a.get("f") == "coder":
        return True
    if a.get("k") == "un" and a["op"] == "&":
        x = ex.strip(a["e"])
        if x is not None and x.get("k") == "mem":
            fr = prog.records.get(x.get("rec"))
            if fr:
                for fd_ in fr["fields"]:
                    if fd_["n"] == x["f"] and fd_.get("rec") == recname:
                        return True
    return False


_pg = {}


def _reach_ok_return(prog, f, cut_blocks):
    """Witness path entry -> a return that may be LZMA_OK / a plain return, avoiding cut blocks (None if none)."""
    k = (id(prog), f.key)
    if k not in _pg:
        _pg[k] = PlainGraph(prog, f, common.callgraph(prog), common.retsets(prog))
    m = _pg[k]
    g = m.g
    is_ret = f.ret.startswith("lzma_ret") or f.ret == "lzma_ret"
    ok_val = m.rets.get("LZMA_OK", 0)

    def dst(node):
        if node[0] != f.exit:
            return None
        if not is_ret:
            return "return"
        rv = g.get(node[1], "$ret")
        if rv is None or ok_val in rv:
            return "return LZMA_OK"
        return None
    path, hit = guard.cut_reach(g, m.entry_nodes(), set(), dst, cut_blocks=cut_blocks)
    if path is None:
        return None
    return m.describe_path(path)


INIT_EXCEPT = {
    # (init function, member): reason it may keep its value across a re-initialisation on some paths
}


def check_init_consistency(ck, prog, rule, files=None, skip_files=()):
    from .C10 import coder_records
    n = 0
    for f, rec, endname in sorted(coder_records(prog), key=lambda x: (x[0].file, x[0].line)):
        base = f.file.rsplit("/", 1)[-1]
        if files is not None and base not in files:
            continue
        if base in skip_files:
            continue
        recnames = {rec}
        owned = set(own.owned_fields(prog, rec, base))
        if endname:
            try:
                owned |= set(own.released_fields(prog, prog.fn(endname, base), rec, base))
            except AnalysisBroken:
                pass
        mine = _coder_var_fields(f, recnames)
        # session state: stored to by some other function of the same file
        session = set()
        for g in prog.fns_in(base):
            if g is f or g.name == endname:
                continue
            for fld in _coder_var_fields(g, recnames):
                session.add(fld)
        ck.saw_function(f)
        ftypes = {fd_["n"]: fd_.get("ty", "") for fd_ in (prog.records.get(rec) or {"fields": []})["fields"]}
        for fld in sorted(mine):
            if fld in owned or fld not in session:
                continue
            if ftypes.get(fld[1], "").startswith("mythread_"):
                continue        # mutexes / condition variables live as long as the record
            n += 1
            exc = INIT_EXCEPT.get((f.name, fld[1]))
            cutb = _cut_blocks(prog, f, fld, recnames)
            w = _reach_ok_return(prog, f, cutb) if exc is None else None
            ck.ob(rule, "%s:%s" % (f.name, fld[1]), w is None, common.where(f, mine[fld][0][2]),
                  ("%s(): member %s is (re)initialised on every path that returns LZMA_OK" % (f.name, fld[1])
                   if exc is None else "exception: " + exc) if w is None else
                  "%s() initialises member '%s' (line %d) only on some paths: it can return LZMA_OK via %s without "
                  "storing to it, so a re-used coder starts the new session with the value left by the previous one "
                  "(the member is also stored to by other functions of %s)" % (
                      f.name, fld[1], ex.line(mine[fld][0][2]) or 0, w, base),
                  key="%s:%s:%s" % (rule.split("-", 1)[1], f.name, fld[1]))
    return n


def check_reset_cover(ck, prog, rule, table, only=None):
    """table: [(reset fn, file, record, [init/reset-like functions to ignore as writers], {member: reason})]
    only: restrict to these member names"""
    n = 0
    for (fn, file, rec, ignore, exceptions) in table:
        f = prog.fn(fn, file)
        ck.saw_function(f)
        recnames = {rec}
        if rec not in prog.records:
            raise AnalysisBroken("record %s vanished" % rec)
        writers = {}
        for g in prog.all_functions("liblzma"):
            if g.name == fn or g.name in ignore or not g.blocks:
                continue
            for fld, sites in _coder_var_fields(g, recnames).items():
                writers.setdefault(fld, set()).add(g.name)
        for fld in sorted(writers):
            if only is not None and fld[1] not in only:
                continue
            n += 1
            if fld[1] in exceptions:
                ck.ob(rule, "%s:%s" % (fn, fld[1]), True, common.where(f),
                      "%s: member %s not reset -- %s" % (fn, fld[1], exceptions[fld[1]]),
                      key="%s:%s:%s" % (rule.split("-", 1)[1], fn, fld[1]))
                continue
            cutb = _cut_blocks(prog, f, fld, recnames)
            w = _reach_ok_return(prog, f, cutb)
            ck.ob(rule, "%s:%s" % (fn, fld[1]), w is None, common.where(f),
                  "%s() stores to member %s (modified by %s) on every path" % (fn, fld[1], ", ".join(sorted(writers[fld]))[:80])
                  if w is None else
                  "%s() does not reset member '%s' of %s on the path %s, although %s modif%s it during coding: the "
                  "state after a reset depends on what was coded before" % (
                      fn, fld[1], rec, w, ", ".join(sorted(writers[fld]))[:80], "ies" if len(writers[fld]) == 1 else "y"),
                  key="%s:%s:%s" % (rule.split("-", 1)[1], fn, fld[1]))
    return n


NONFATAL = ("LZMA_OK", "LZMA_STREAM_END", "LZMA_NO_CHECK", "LZMA_UNSUPPORTED_CHECK", "LZMA_GET_CHECK",
            "LZMA_SEEK_NEEDED", "LZMA_TIMED_OUT")


def check_init_once(ck, prog, rule, files=None, one_shot=()):
    """In a resumable coder function a nested coder is initialised in some state S.  After a non-fatal return
    (LZMA_OK, LZMA_*_CHECK, LZMA_SEEK_NEEDED ...) the function is entered again in whatever state coder->sequence names:
    if the sequence was not advanced after the successful initialisation, the nested coder is initialised again (its
    state is lost, the notification repeats forever)."""
    from sa import resume
    from .oblig import graph_for
    n = 0
    for f in sorted(prog.all_functions("liblzma"), key=lambda f: (f.file, f.line)):
        if not f.blocks:
            continue
        base = f.file.rsplit("/", 1)[-1]
        if files is not None and base not in files:
            continue
        try:
            sw = resume.Resume(prog, f).find_switch()
        except Exception:
            sw = None
        if not sw:
            continue
        sites = []
        for b, i, e in f.iter_elems():
            for c in ex.calls(e, into_refs=False):
                nm = c.get("fn") or ""
                if nm.endswith("_init") and nm.startswith("lzma_") and c["args"] and \
                        "coder->" in ex.show(c["args"][0]) and \
                        any(g.ret.startswith("lzma_ret") for g in prog.functions.get(nm, [])):
                    sites.append((b, i, c, nm))
                elif nm in one_shot and c["args"] and "coder->" in ex.show(c["args"][0]):
                    # not idempotent (lzma_check_finish overwrites the state it reads): same obligation
                    sites.append((b, i, c, nm))
        if not sites:
            continue
        m = graph_for(prog, f, (), {}, None, False, resume=False)
        g = m.g
        nonfatal = {m.rets[x] for x in NONFATAL if x in m.rets}
        seq_blocks = {b.id for b, i, e in f.iter_elems() for (l, r, op, nd) in ex.writes(e)
                      if ex.show(l).endswith("->sequence")}
        for (b, i, c, nm) in sites:
            gs, _sites = guard.find_res(f, nm, ("LZMA_OK",), prog)
            gs = [x for x in gs]
            n += 1
            ck.saw_function(f)
            # sequence stored later in the same block as the call?
            later = any(ex.show(l).endswith("->sequence") for j in range(i + 1, len(b.elems)) if b.elems[j] is not None
                        for (l, r, op, nd) in ex.writes(b.elems[j]))
            if later:
                ck.ob(rule, "%s:%s" % (f.name, nm), True, common.where(f, c),
                      "%s: coder->sequence is advanced right after %s()" % (f.name, nm), key="%s:%s:%s" % (
                          rule.split("-", 1)[1], f.name, nm))
                continue
            # product nodes that can be reached from the entry without a store to coder->sequence
            unadv = set()
            st = [nd for nd in m.entry_nodes() if nd in g.nodes]
            while st:
                nd = st.pop()
                if nd in unadv:
                    continue
                unadv.add(nd)
                if nd[0] in seq_blocks:
                    continue
                for (dst, label) in g.succ.get(nd, ()):
                    if label != "resume" and dst not in unadv:
                        st.append(dst)
            unadv = {nd for nd in unadv if nd[0] not in seq_blocks}
            src = []
            if gs:
                for x in gs:
                    for node in [nd for nd in unadv if nd[0] == x.bid]:
                        for (dst, label) in g.succ.get(node, ()):
                            if label == x.pass_label:
                                src.append(dst)
            else:
                # result returned directly / not tested: every successor of the call block
                for node in [nd for nd in unadv if nd[0] == b.id]:
                    for (dst, label) in g.succ.get(node, ()):
                        src.append(dst)
            if gs and not any(nd[0] == b.id for nd in unadv):
                src = []

            def dstp(node):
                if node[0] != f.exit:
                    return None
                rv = g.get(node[1], "$ret")
                if rv is None:
                    return "return <unknown>"
                hit = set(rv) & nonfatal
                return ("return " + ",".join(m.retnames[v] for v in sorted(hit))) if hit else None
            path, hit = guard.cut_reach(g, src, set(), dstp, cut_blocks=seq_blocks)
            ck.ob(rule, "%s:%s" % (f.name, nm), path is None, common.where(f, c),
                  "%s: after a successful %s() every non-fatal return has passed a store to coder->sequence" % (f.name, nm)
                  if path is None else
                  "%s(): after %s() succeeded, `%s` is reachable (path %s) with coder->sequence unchanged: the next "
                  "lzma_code() call runs the same state again and initialises the nested coder a second time" % (
                      f.name, nm, hit, m.describe_path(path)),
                  key="%s:%s:%s" % (rule.split("-", 1)[1], f.name, nm))
    return n


ACCUM_EXCEPT = {
    ("stream_decode", "header_size"): "stored once per Block Header, under `coder->pos == 0` (first byte of the header)",
    ("file_info_decode", "temp_size"): "buffer fill level recomputed from temp_pos, which is itself persistent",
    ("stream_decode_mt", "in_filled"): "cur_in_filled starts as thr->in_filled and is advanced by lzma_bufcpy(&cur_in_filled)",
}


def check_accumulators(ck, prog, rule, files=None):
    """A member that a resumable state tests to decide its outcome, and that the same state stores to while it can
    suspend and be re-entered, must be updated as a function of its old value (or reset to a constant): a value computed
    only from what this call saw forgets the earlier calls, and the outcome then depends on how the input was sliced."""
    from sa import resume
    from .oblig import graph_for
    n = 0
    for f in sorted(prog.all_functions("liblzma"), key=lambda f: (f.file, f.line)):
        if not f.blocks:
            continue
        base = f.file.rsplit("/", 1)[-1]
        if files is not None and base not in files:
            continue
        try:
            sw = resume.Resume(prog, f).find_switch()
        except Exception:
            sw = None
        if not sw:
            continue
        try:
            m = graph_for(prog, f, (), {}, None, False, resume=False)
        except AnalysisBroken:
            continue
        g = m.g
        seqs = {}
        for nd in g.nodes:
            sv = g.get(nd[1], "seq")
            seqs.setdefault(nd[0], set()).update(sv or ())
        reads = {}
        for b in f.blocks.values():
            if b.term and "cond" in b.term:
                for x in ex.walk(b.term["cond"]):
                    if x.get("k") == "mem" and ex.show(x).startswith("coder->"):
                        for sq in seqs.get(b.id, ()):
                            reads.setdefault(sq, set()).add(x["f"])
        ok_val = m.rets.get("LZMA_OK", 0)
        ck.saw_function(f)
        for b, i, e in f.iter_elems():
            for (l, r, op, node) in ex.writes(e):
                ls = ex.strip(l)
                if ls is None or ls.get("k") != "mem" or not ex.show(l).startswith("coder->") or op != "=" or r is None:
                    continue
                F = ls["f"]
                if F == "sequence" or ex.const_val(r) is not None or ex.strip(r).get("k") == "enum":
                    continue
                seen_ids = set()

                def mentions(x, depth=0):
                    for y in ex.walk(x):
                        if y.get("k") == "mem" and y["f"] == F:
                            return True
                        if y.get("k") == "var" and y.get("s") == "l" and depth < 2:
                            d = guard.single_def(f, y.get("id"))
                            if d is not None and id(d) not in seen_ids:
                                seen_ids.add(id(d))
                                if mentions(d, depth + 1):
                                    return True
                    return False
                if mentions(r):
                    continue
                flagged = None
                for nd in [x for x in g.nodes if x[0] == b.id]:
                    sv = g.get(nd[1], "seq")
                    if not sv or len(sv) != 1:
                        continue
                    S = list(sv)[0]
                    if F not in reads.get(S, ()):
                        continue
                    st, seen, hit = [nd], set(), False
                    while st and not hit:
                        x = st.pop()
                        if x in seen:
                            continue
                        seen.add(x)
                        sx = g.get(x[1], "seq")
                        if not sx or set(sx) != {S}:
                            continue
                        if x[0] == f.exit:
                            rv = g.get(x[1], "$ret")
                            if rv is None or ok_val in rv:
                                hit = True
                            continue
                        for (d, lab) in g.succ.get(x, ()):
                            if lab != "resume":
                                st.append(d)
                    if hit:
                        flagged = S
                        break
                if flagged is None:
                    continue
                n += 1
                exc = ACCUM_EXCEPT.get((f.name, F))
                names = {v: k for k, v in m.enum.items()} if getattr(m, "enum", None) else {}
                ck.ob(rule, "%s:%s@%s" % (f.name, F, ex.line(node)), exc is not None, common.where(f, node),
                      ("exception: " + exc) if exc else
                      "%s(): in state %s the member coder->%s is tested to decide the outcome, the state can return LZMA_OK "
                      "and be re-entered, but `%s` computes the member only from what this call saw: what earlier calls "
                      "contributed is forgotten, so the result depends on how the caller slices the input" % (
                          f.name, names.get(flagged, flagged), F, ex.show(node)),
                      key="%s:%s:%s" % (rule.split("-", 1)[1], f.name, F))
    return n


# ---------------------------------------------------------------------------------------------------------------
# INIT-READFIRST: what the coding function reads before it has stored to it must come from the init function.
READFIRST_EXCEPT = {
    # (init function, member): reason
    ("stream_encoder_init", "block_encoder_is_initialized"):
        "stored by stream_encoder_update(), which the init function tail-calls with coder->sequence == SEQ_STREAM_HEADER "
        "(its first branch; the path through the other branches is infeasible)",
    ("stream_encoder_mt_init", "threads_max"):
        "stored under `coder->threads_max != options->threads`: on the other path it already has the new value",
    ("stream_encoder_mt_init", "threads_initialized"):
        "worker cache kept across sessions on purpose; consistent with coder->threads (see C08-INITCONS)",
    ("lzma_simple_coder_init", "filter"):
        "set when the record is allocated; lzma_next_coder_init() re-uses a record only for the same init function, "
        "which always passes the same filter function",
    ("lzma_simple_coder_init", "allocated"):
        "set when the record is allocated, from the per-architecture constant unfiltered_max",
    ("lzma_simple_coder_init", "buffer"):
        "only buffer[pos, size) is read and the init function sets pos = filtered = size = 0",
    ("lzma_lzma_encoder_create", "reps"):
        "stored by lzma_lzma_encoder_reset() in `for (i = 0; i < REPS; ++i) coder->reps[i] = 0`: REPS is the constant 4, "
        "the loop body cannot be skipped",
    ("lzma_lzma_encoder_create", "dist_slot"):
        "stored by lzma_lzma_encoder_reset() in `for (i = 0; i < DIST_STATES; ++i) bittree_reset(coder->dist_slot[i], ...)`: "
        "constant trip count 4; the probability arrays are also covered element by element by C01-RESET",
}


def _access_events(f, e, field, prog, depth=0):
    """Ordered list of 'R' / 'W' events of one CFG element for a record member.  Conservative towards silence: an
    element store to an array member is no event; a store to a sub-member of a record-typed member, and the member's
    address appearing anywhere (handed to a callee, kept in a pointer), are 'W'."""
    ev = []
    rec, fld = field
    is_arr = _is_array_member(prog, field)

    def is_f(x):
        return x is not None and x.get("k") == "mem" and (x.get("rec"), x.get("f")) == field

    quiet = set()       # occurrences that are not reads
    for (l, r, op, node) in ex.writes(e):
        ls = ex.strip(l)
        if is_f(ls):
            quiet.add(id(ls))
            if op != "=" or (r is not None and any(is_f(x) for x in ex.walk(r))):
                ev.append(("R", node))
            ev.append(("W", node))
            continue
        # coder->member.sub = v  /  coder->member[i] = v  /  coder->member[i].sub = v
        x, through_idx = ls, False
        while x is not None and x.get("k") in ("mem", "idx") and not is_f(x):
            if x.get("k") == "idx":
                through_idx = True
            x = ex.strip(x.get("b"))
        if is_f(x):
            quiet.add(id(x))
            if op != "=" or (r is not None and any(is_f(y) for y in ex.walk(r))):
                ev.append(("R", node))
            elif not through_idx and not is_arr:
                ev.append(("W", node))
    for x in ex.walk(e):
        if x.get("k") == "un" and x.get("op") == "&":
            for y in ex.walk(x):
                if is_f(y):
                    quiet.add(id(y))
                    if not ev:
                        ev.append(("W", x))
    for c in ex.calls(e, into_refs=False):
        for a in c["args"]:
            # an array member decays to a pointer (possibly offset): the callee may fill it
            if is_arr:
                for y in ex.walk(a):
                    if is_f(y) and not _under_index(a, y):
                        quiet.add(id(y))
                        if not ev:
                            ev.append(("W", c))
    if not ev:
        for x in ex.walk(e):
            if is_f(x) and id(x) not in quiet:
                ev.append(("R", x))
                break
    if not ev and depth < 2:
        for c in ex.calls(e, into_refs=False):
            if not c.get("fn"):
                continue
            for g in prog.functions.get(c["fn"], []):
                if not g.blocks or g is f or g.file != f.file:
                    continue
                if not any(_is_record_ptr(f, a, rec, prog) for a in c["args"]):
                    continue
                s = _first_access_summary(prog, g, field, depth + 1)
                if s:
                    ev.append((s, c))
    return ev


def _under_index(root, target):
    """target is the base of a subscript somewhere below root (an element value, not the array itself)."""
    for x in ex.walk(root):
        if x.get("k") == "idx":
            b = ex.strip(x.get("b"))
            if b is target:
                return True
    return False


_fa_memo = {}


def _block_first(prog, f, field, depth):
    first = {}
    for b in f.blocks.values():
        for i, e in enumerate(b.elems):
            if e is None:
                continue
            ev = _access_events(f, e, field, prog, depth)
            if ev:
                first[b.id] = ev[0]
                break
        else:
            if b.term and "cond" in b.term:
                if any(x.get("k") == "mem" and (x.get("rec"), x.get("f")) == field for x in ex.walk(b.term["cond"])):
                    first[b.id] = ("R", b.term["cond"])
    return first


def _first_access_summary(prog, g, field, depth):
    """'R' if g can read the member before storing to it, 'W' if it stores to it on every path, else None."""
    k = (id(prog), g.key, field)
    if k in _fa_memo:
        return _fa_memo[k]
    _fa_memo[k] = None
    first = _block_first(prog, g, field, depth)
    cut = {b for b, (kind, n) in first.items() if kind == "W"}
    rd = {b for b, (kind, n) in first.items() if kind == "R"}
    seen, st = set(), [g.entry]
    res = None
    reach_exit = False
    while st:
        b = st.pop()
        if b in seen:
            continue
        seen.add(b)
        if b in rd:
            res = "R"
            break
        if b in cut:
            continue
        if b == g.exit:
            reach_exit = True
        for s in g.blocks[b].succs:
            if s is not None:
                st.append(s)
    if res is None and not reach_exit and cut:
        res = "W"
    _fa_memo[k] = res
    return res


def check_read_first(ck, prog, rule, files=None):
    """Members of a coder record that a function stored in a `code` slot can read before it has stored to them (on
    some path from its entry in the initial state) must be stored to by the init function on every path that returns
    LZMA_OK: nothing else defines their value at the start of a session on a re-used coder."""
    from .C10 import coder_records
    from sa import machine, fd as fdm
    cg = common.callgraph(prog)
    rs = common.retsets(prog)
    slot_fns = common.code_slot_functions(prog, cg)
    n = 0
    for f, rec, endname in sorted(coder_records(prog), key=lambda x: (x[0].file, x[0].line)):
        base = f.file.rsplit("/", 1)[-1]
        if files is not None and base not in files:
            continue
        rdef = prog.records.get(rec)
        if not rdef:
            continue
        owned = set(own.owned_fields(prog, rec, base))
        coders = [g for g in slot_fns if g.blocks and any(v.get("prec") == rec for v in g.vars)]
        # a slot function that only forwards its void * coder (lzma_encode -> lzma_lzma_encode)
        for g in slot_fns:
            if not g.blocks or any(v.get("prec") for v in g.vars if v["n"] == "coder"):
                continue
            for callee in sorted(cg.direct.get(g.key, ())):
                for h in prog.functions.get(callee, []):
                    if h.file == g.file and h.blocks and h not in coders and h.params and \
                            any(v["n"] == h.params[0]["n"] and v.get("prec") == rec for v in h.vars):
                        coders.append(h)
        if not coders:
            continue
        # initial value of the state member
        seq0 = set()
        helpers = [f] + [h for c in sorted(cg.callees(f)) for h in prog.functions.get(c, [])
                         if h.file == f.file and h.blocks and h is not f]
        for b, i, e in (x for h in helpers for x in h.iter_elems()):
            for (l, r, op, node) in ex.writes(e):
                ls = ex.strip(l)
                if ls is not None and ls.get("k") == "mem" and ls.get("rec") == rec and ls.get("f") == "sequence" \
                        and op == "=" and r is not None:
                    rr = ex.strip(r)
                    if rr is not None and rr.get("k") == "enum" and rr.get("n"):
                        seq0.add(rr["n"])
        ck.saw_function(f)
        for g in coders:
            ck.saw_function(g)
            m = None
            try:
                # members of the same enumeration type as the state member (lzma2's next_sequence) are tracked too
                sty = [fd2.get("ty") for fd2 in rdef["fields"] if fd2["n"] == "sequence"]
                xk = []
                if sty and sty[0]:
                    for fd2 in rdef["fields"]:
                        if fd2["n"] != "sequence" and fd2.get("ty") == sty[0]:
                            en = None
                            for nm in sorted(seq0):
                                en = prog.enum_with(nm, g.file)
                            if en:
                                xk.append(fdm.Key("field", fd2["n"], rec=rec, domain=en.values(), label=fd2["n"]))
                m = machine.Machine(prog, g, cg, rs, extra_keys=xk, seq_init=sorted(seq0) or None, resume_edges=True)
            except (AnalysisBroken, KeyError):
                m = None
            for fd_ in rdef["fields"]:
                fld = (rec, fd_["n"])
                if fld in owned or fd_["n"] in ("next", "sequence") or (fd_.get("ty") or "").startswith("mythread_"):
                    continue
                first = _block_first(prog, g, fld, 0)
                rd = {b for b, (kind, nd) in first.items() if kind == "R"}
                if not rd:
                    continue
                cut = {b for b, (kind, nd) in first.items() if kind == "W"}
                if m is not None:
                    gg = m.g
                    path, hit = guard.cut_reach(gg, m.entry_nodes(), set(),
                                                lambda node: ("read" if node[0] in rd else None), cut_blocks=cut)
                    reached = path is not None
                    desc = m.describe_path(path) if reached else None
                    rb = path[-1][0] if reached else None
                else:
                    seen, st, reached, rb = set(), [g.entry], False, None
                    while st:
                        b = st.pop()
                        if b in seen:
                            continue
                        seen.add(b)
                        if b in rd:
                            reached, rb = True, b
                            break
                        if b in cut:
                            continue
                        st.extend(s for s in g.blocks[b].succs if s is not None)
                    desc = "entry -> B%s" % rb if reached else None
                if not reached:
                    continue
                n += 1
                exc = READFIRST_EXCEPT.get((f.name, fd_["n"]))
                cutb = _cut_blocks(prog, f, fld, {rec})
                w = _reach_ok_return(prog, f, cutb) if exc is None else None
                rnode = first[rb][1]
                ck.ob(rule, "%s:%s:%s" % (f.name, g.name, fd_["n"]), w is None, common.where(g, rnode),
                      ("%s() reads member %s before storing to it; %s() stores to it on every path that returns LZMA_OK"
                       % (g.name, fd_["n"], f.name) if exc is None else "exception: " + exc) if w is None else
                      "%s() reads member '%s' (line %s, path %s) before anything in the session has stored to it, and "
                      "%s() can return LZMA_OK via %s without storing to it: a re-used coder starts the new session "
                      "with what the previous one left there" % (
                          g.name, fd_["n"], ex.line(rnode) or "?", desc, f.name, w),
                      key="%s:%s:%s" % (rule.split("-", 1)[1], g.name, fd_["n"]))
    return n


# ---------------------------------------------------------------------------------------------------------------
APPLY_EXCEPT = {
    # (function, member, local): reason the update may be skipped on some path
    ("file_info_decode", "temp_size", "new_padding"):
        "when the whole buffer was padding the state goes back to SEQ_PADDING_SEEK, where reverse_seek() stores a new "
        "temp_size before it is read again",
}


def check_local_applied(ck, prog, rule, files=None):
    """In a resumable function a local variable dies at every return and at every `break` back to the state switch.
    When a persistent member is updated by such a local (`coder->m += n`, `coder->m -= n`) the amount belongs to the
    member: the update must lie on EVERY path from the local's definition to the function exit (post-dominate it),
    otherwise there is a way to leave the state with the amount dropped, and what the member holds then depends on
    which way the state was left (e.g. on how much input the call had)."""
    from sa import resume
    from .oblig import graph_for
    n = 0
    for f in sorted(prog.all_functions("liblzma"), key=lambda f: (f.file, f.line)):
        if not f.blocks:
            continue
        base = f.file.rsplit("/", 1)[-1]
        if files is not None and base not in files:
            continue
        try:
            sw = resume.Resume(prog, f).find_switch()
        except Exception:
            sw = None
        if not sw:
            continue
        pdom = cfg.dominators(f, forward=False)
        mach = None
        decls = {}
        for b, i, e in f.iter_elems():
            e_ = ex.deref(e) if hasattr(ex, "deref") else e
            if e_.get("k") == "decl" and e_.get("init") is not None and e_.get("id") is not None:
                decls[e_["id"]] = (b.id, i, e_)
        # locals assigned anywhere else are not single-definition amounts
        reassigned = set()
        for b, i, e in f.iter_elems():
            for (l, r, op, nd) in ex.writes(e):
                ls = ex.strip(l)
                if ls is not None and ls.get("k") == "var" and ls.get("id") in decls and \
                        ex.deref(nd).get("k") != "decl":
                    reassigned.add(ls["id"])
            for x in ex.walk(e):
                if x.get("k") == "un" and x.get("op") in ("pre++", "post++", "pre--", "post--", "&"):
                    t = ex.strip(x["e"])
                    if t is not None and t.get("k") == "var" and t.get("id") in decls:
                        reassigned.add(t["id"])
        for b, i, e in f.iter_elems():
            for (l, r, op, nd) in ex.writes(e):
                ls = ex.strip(l)
                if op not in ("+=", "-=") or r is None or ls is None or ls.get("k") != "mem":
                    continue
                if not ex.show(ls).startswith("coder->"):
                    continue
                rr = ex.strip(r)
                if rr is None or rr.get("k") != "var" or rr.get("id") not in decls or rr["id"] in reassigned:
                    continue
                db, di, de = decls[rr["id"]]
                # an amount that is a pure function of persistent members is recomputed identically on re-entry
                if not any(x.get("k") == "call" or (x.get("k") == "un" and x.get("op") == "*")
                           for x in ex.walk(de["init"])):
                    continue
                n += 1
                ck.saw_function(f)
                exc = APPLY_EXCEPT.get((f.name, ls["f"], rr["n"]))
                ok = exc is not None or b.id == db or b.id in pdom.get(db, ())
                wpath = None
                if not ok:
                    # path-sensitive: only ways out that the caller continues from (non-fatal return values)
                    if mach is None:
                        mach = graph_for(prog, f, (), {}, None, False, resume=False)
                    g = mach.g
                    nonfatal = {mach.rets[x] for x in NONFATAL if x in mach.rets}

                    def dstp(node, g=g, nonfatal=nonfatal, mach=mach):
                        if node[0] != f.exit:
                            return None
                        rv = g.get(node[1], "$ret")
                        if rv is None:
                            return "return <unknown>"
                        hit = set(rv) & nonfatal
                        return ("return " + ",".join(mach.retnames[v] for v in sorted(hit))) if hit else None
                    src = [d for node in g.nodes if node[0] == db for (d, lab) in g.succ.get(node, ())]
                    path, hit = guard.cut_reach(g, src, set(), dstp, cut_blocks={b.id})
                    ok = path is None
                    if not ok:
                        wpath = "%s, then `%s`" % (mach.describe_path(path), hit)
                ck.ob(rule, "%s:%s:%s" % (f.name, ls["f"], rr["n"]), ok, common.where(f, nd),
                      ("%s: `%s %s %s` lies on every path from the definition of %s (line %s) to the exit" % (
                          f.name, ex.show(ls), op, rr["n"], rr["n"], ex.line(de)) if exc is None else "exception: " + exc)
                      if ok else
                      "%s(): `%s %s %s` (line %s) does not lie on every path from `%s = %s` (line %s) to the end of "
                      "the call: via %s the function leaves with the amount in %s dropped, so %s depends on which way "
                      "the state was left" % (
                          f.name, ex.show(ls), op, rr["n"], ex.line(nd), rr["n"], ex.show(de["init"])[:50], ex.line(de),
                          wpath, rr["n"], ex.show(ls)),
                      key="%s:%s:%s:%s" % (rule.split("-", 1)[1], f.name, ls["f"], rr["n"]))
    return n



# ---------------------------------------------------------------------------------------------------------------
STALENEXT_EXCEPT = {
    ("auto_decoder_get_check", "next"):
        "lzma_get_check() is meaningful only after lzma_code() returned LZMA_NO_CHECK / LZMA_UNSUPPORTED_CHECK / "
        "LZMA_GET_CHECK, and those come from the sub-decoder of the current session",
}


def check_stale_nested(ck, prog, rule, files=None):
    """A nested coder that the coding function initialises lazily (in its first state) and that the init function neither
    ends nor re-initialises still belongs to the PREVIOUS session between a re-initialisation and the first lzma_code()
    call.  Every other entry point (memconfig, get_check, update, ...) that calls through a slot of that nested coder has
    to look at coder->sequence first; testing the slot pointer for NULL is not enough, it is non-NULL from the previous
    session (stale limit/usage reported, a new limit applied to the old decoder)."""
    from .C10 import coder_records
    n = 0
    for f, rec, endname in sorted(coder_records(prog), key=lambda x: (x[0].file, x[0].line)):
        base = f.file.rsplit("/", 1)[-1]
        if files is not None and base not in files:
            continue
        rdef = prog.records.get(rec)
        if not rdef:
            continue
        for fd_ in rdef["fields"]:
            if not (fd_.get("ty") or "").startswith("lzma_next_coder"):
                continue
            N = fd_["n"]

            def inits_in(g):
                return [c for b, i, e in g.iter_elems() for c in ex.calls(e, into_refs=False)
                        if c["args"] and ex.show(c["args"][0]) == "&coder->" + N and
                        ((c.get("fn") or "").endswith("_init") or c.get("fn") == "lzma_next_end")]
            if inits_in(f):
                continue            # (re)initialised or ended by the init function itself
            others = [g for g in prog.fns_in(base) if g is not f and g.blocks and g.name != endname]
            lazy = [g for g in others if inits_in(g)]
            if not lazy:
                continue
            cg = common.callgraph(prog)
            entry_names = set()
            for (rec_, field_), fns_ in cg.slots.items():
                entry_names |= set(fns_)
            for h in others:
                if h in lazy or h.name not in entry_names:
                    continue        # helpers of the coding function run after the lazy initialisation
                uses = [(b, i, x) for b, i, e in h.iter_elems() for x in ex.walk(e)
                        if x.get("k") == "mem" and ex.show(x.get("b")) == "coder->" + N and
                        x["f"] in ("memconfig", "get_check", "get_progress", "update", "set_out_limit", "code")]
                if not uses:
                    continue
                n += 1
                ck.saw_function(h)
                doms = cfg.dominators(h)
                exc = STALENEXT_EXCEPT.get((h.name, N))
                bad = None
                for (b, i, x) in uses:
                    guarded = any(h.blocks[d].term and "cond" in h.blocks[d].term and
                                  "->sequence" in ex.show(h.blocks[d].term["cond"]) for d in doms.get(b.id, ()))
                    # the use inside the guarding condition itself (`seq != INIT && next.slot != NULL`) is evaluated after it
                    if not guarded and h.blocks[b.id].term and "cond" in h.blocks[b.id].term:
                        pass
                    if not guarded:
                        bad = bad or x
                ok = bad is None or exc is not None
                ck.ob(rule, "%s:%s" % (h.name, N), ok, common.where(h, bad or uses[0][2]),
                      ("%s: calls through coder->%s only behind a test of coder->sequence" % (h.name, N)
                       if exc is None or bad is None else "exception: " + exc) if ok else
                      "%s() calls through coder->%s.%s without looking at coder->sequence: %s() keeps the nested coder of the "
                      "previous session and it is re-initialised only by the first lzma_code() call (in %s()), so right after a "
                      "re-initialisation this entry point reports / changes the state of the OLD sub-decoder (stale memory "
                      "limit and usage, spurious LZMA_MEMLIMIT_ERROR)" % (
                          h.name, N, bad["f"], f.name, lazy[0].name), key="%s:%s:%s" % (rule.split("-", 1)[1], h.name, N))
    return n
