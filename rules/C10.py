"""C10 — allocation failure at any point is reported cleanly and nothing leaks.

Decided (structural clauses):
  C10-END    every resource-owning member of every coder record is released by the `end`
             function stored in the same init block.
  C10-ALIAS  freed-alias rule: after lzma_free(x) where x aliases a persistent location
             (next->coder, mf->buffer, ...), that location is overwritten before return.
  C10-NULL   every lzma_alloc()/lzma_alloc_zero() result is NULL-tested before its first
             dereference.
  C10-STRM   every public init taking an lzma_stream goes through lzma_next_strm_init
             (so a failed init ends the stream); nested inits go through
             lzma_next_coder_init / lzma_next_filter_init.
  C10-ERR    no lzma_ret result is silently dropped.
  C10-STRONG strong-guarantee APIs make no caller-visible store before failing.
"""
from sa import ex, cfg, own, cover
from sa.compdb import AnalysisBroken
from sa.facts import relpath
from . import common
from .oblig import PlainGraph


def coder_records(prog):
    """[(init fn, record name, end fn name or None)] from the init blocks."""
    out = []
    for f in prog.all_functions("liblzma"):
        coder_rec = None
        endfn = None
        has_coder_store = False
        for b, i, e in f.iter_elems():
            for (l, r, op, node) in ex.writes(e):
                fk = ex.field_key(l)
                if not fk or op != "=" or r is None:
                    continue
                if fk[1] == "coder" and fk[0] in ("lzma_next_coder_s", "lzma_lz_decoder", "lzma_lz_encoder"):
                    rs = ex.strip(r)
                    if rs is not None and rs.get("k") == "var":
                        for v in f.vars:
                            if v["n"] == rs["n"] and v.get("prec"):
                                coder_rec = v["prec"]
                                has_coder_store = True
                if fk[1] == "end" and fk[0] in ("lzma_next_coder_s", "lzma_lz_decoder", "lzma_lz_encoder"):
                    rs = ex.strip(r)
                    if rs is not None and rs.get("k") == "un" and rs["op"] == "&":
                        rs = ex.strip(rs["e"])
                    if rs is not None and rs.get("k") == "var" and rs.get("s") == "f":
                        endfn = rs["n"]
        if has_coder_store and coder_rec:
            out.append((f, coder_rec, endfn))
            continue
        # second form: the record is reached through a `void **coder_ptr` parameter (lzma_lzma_encoder_create):
        # `T *coder = *coder_ptr;`
        pp = {p["n"] for p in f.params if (p.get("ty") or "").replace(" ", "").startswith("void**")}
        if pp and f.blocks:
            for b, i, e in f.iter_elems():
                d = ex.deref(e)
                if d.get("k") == "decl" and d.get("init") is not None:
                    i0 = ex.strip(d["init"])
                    if i0 is not None and i0.get("k") == "un" and i0["op"] == "*" and \
                            ex.strip(i0["e"]).get("k") == "var" and ex.strip(i0["e"])["n"] in pp:
                        for v in f.vars:
                            if v["n"] == d["n"] and v.get("prec"):
                                out.append((f, v["prec"], None))
    return out


END_EXCEPT = {
    # (record, field): reason
    ("lzma_stream_coder_s@stream_encoder_mt.c", "index_encoder"): None,
}


def check_end(ck, prog):
    ck.rule("C10-END", "every resource-owning member of a coder record is released by its end function")
    n = 0
    for f, rec, endname in sorted(coder_records(prog), key=lambda x: (x[0].file, x[0].line)):
        ck.saw_function(f)
        file = f.file.rsplit("/", 1)[-1]
        owned = own.owned_fields(prog, rec, file)
        if endname is None:
            ok = not owned
            ck.ob("C10-END", "%s:(no end)" % rec, ok, common.where(f),
                  "coder %s has no end function (lzma_free fallback) and owns %s" % (
                      rec, "nothing" if ok else ", ".join(sorted("%s.%s" % k for k in owned))),
                  key="END:%s:noend" % rec)
            n += 1
            continue
        endf = prog.fn(endname, file)
        rel = own.released_fields(prog, endf, rec, file)
        # the record itself
        selffree = False
        for b, i, e in endf.iter_elems():
            for c in ex.calls(e, into_refs=False):
                if c.get("fn") == "lzma_free":
                    selffree = True
        ck.ob("C10-END", "%s:self" % rec, selffree, common.where(endf),
              "%s() %s the coder record" % (endname, "frees" if selffree else "does NOT free"),
              key="END:%s:self" % rec)
        for (orec, fld), why in sorted(owned.items()):
            n += 1
            ok = (orec, fld) in rel
            nm = fld if orec == rec else "%s.%s" % (orec, fld)
            ck.ob("C10-END", "%s:%s" % (rec, nm), ok, common.where(endf),
                  ("member %s (%s) released by %s" % (nm, why, rel[(orec, fld)])) if ok else
                  "member '%s' of %s (%s) is never released by %s(): leaked when the coder is ended" % (
                      nm, rec, why, endname),
                  key="END:%s:%s" % (rec, nm))
    ck.floor("C10-END", 30, "obligations")


ALIAS_EXCEPT = {
    # (function, path text): reason
    ("worker_decoder", "(*thr).in"):
        "THR_EXIT branch: the worker thread terminates; the slot is dead after mythread_join and "
        "threads_end() frees the array without reading thr->in",
    ("worker_start", "(*thr).in"):
        "THR_EXIT: the worker thread terminates; threads_end() joins and frees the array without reading thr->in",
    ("initialize_new_thread", "(*thr).in"):
        "error path: the slot is not counted in threads_initialized, so it is never used or freed again",
    ("str_free", "(*str).buf"):
        "destructor of the stack-local lzma_str helper; callers do not use the object afterwards",
    ("str_finish", "(*str).buf"):
        "error path of the finishing function of the stack-local lzma_str; the object is dead afterwards",
}
# dangling pointers that the callers clear: (function, path) -> field that every caller must
# overwrite (or free the holder) after the call
ALIAS_CALLER_CLEARS = {
    ("threads_end", "coder->threads"): ("threads", "stream_encoder_mt.c"),
}
# members that describe the freed array (element count): they must be reset by every caller as well, before it can return
ALIAS_CALLER_CLEARS_ALSO = {
    ("threads_end", "coder->threads"): ("threads_initialized",),
}


_as_memo = {}


def _always_stored(prog, caller, c):
    """Members (names) that the same-file callee of call c stores on every path from its entry to its exit."""
    nm = c.get("fn")
    if not nm:
        return set()
    out = set()
    for g in prog.functions.get(nm, []):
        if g.file != caller.file or not g.blocks:
            continue
        k = g.key
        if k not in _as_memo:
            flds = {}
            for b, i, e in g.iter_elems():
                for (l, r, op, node) in ex.writes(e):
                    ls = ex.strip(l)
                    if ls is not None and ls.get("k") == "mem" and op == "=":
                        flds.setdefault(ls["f"], set()).add(b.id)
            always = set()
            for fld, blocks in flds.items():
                def via(bb, ii, ee, fld=fld):
                    return any(ex.strip(l) is not None and ex.strip(l).get("k") == "mem" and ex.strip(l)["f"] == fld
                               and op == "=" for (l, r, op, node) in ex.writes(ee))
                ok, _p = cfg.must_pass(g, [g.entry], [g.exit], via)
                if ok:
                    always.add(fld)
            _as_memo[k] = always
        out |= _as_memo[k]
    return out


def check_alias(ck, prog):
    ck.rule("C10-ALIAS", "after lzma_free(x) with x aliasing a persistent location P, P is overwritten "
            "(or its holder freed) before the function returns")
    nsites = 0
    for f in sorted(prog.all_functions("liblzma"), key=lambda f: (f.file, f.line)):
        has_free = any(c.get("fn") in own.FREE for b, i, e in f.iter_elems()
                       for c in ex.calls(e, into_refs=False))
        if not has_free:
            continue
        nsites += 1
        ck.saw_function(f)
        res = own.freed_alias(f, call_clears=lambda c, f=f: _always_stored(prog, f, c))
        if not res:
            ck.ob("C10-ALIAS", f.name, True, common.where(f), "no dangling persistent pointer at any return")
            continue
        seen = set()
        for (rl, p, fl) in res:
            pt = own.path_text(p)
            if pt in seen:
                continue
            seen.add(pt)
            exc = ALIAS_EXCEPT.get((f.name, pt))
            cc = ALIAS_CALLER_CLEARS.get((f.name, pt))
            if cc and f.file.endswith(cc[1]):
                okc, whyc = _callers_clear(prog, f, cc[0])
                ck.ob("C10-ALIAS", "%s:%s" % (f.name, pt), okc, common.where(f, fl),
                      "%s leaves %s dangling; %s" % (f.name, pt, whyc),
                      key="ALIAS:%s:%s" % (f.name, pt))
                for extra in ALIAS_CALLER_CLEARS_ALSO.get((f.name, pt), ()):
                    oke, whye = _callers_clear(prog, f, extra)
                    ck.ob("C10-ALIAS", "%s:%s+%s" % (f.name, pt, extra), oke, common.where(f, fl),
                          "%s frees %s whose element count is coder->%s; %s" % (f.name, pt, extra, whye),
                          key="ALIAS:%s:%s:%s" % (f.name, pt, extra))
                continue
            ck.ob("C10-ALIAS", "%s:%s" % (f.name, pt), exc is not None, common.where(f, fl),
                  ("exception: " + exc) if exc else
                  "%s() frees the object at line %d while %s still points to it and returns at line %d "
                  "without clearing it: the owner will free it again" % (f.name, fl, pt, rl),
                  key="ALIAS:%s:%s" % (f.name, pt))
    if nsites < 30:
        raise AnalysisBroken("C10-ALIAS: only %d functions calling lzma_free seen" % nsites)


def _callers_clear(prog, f, field):
    """Every call site of f (same file) is followed on all paths by a store to `field`
    or by lzma_free of the holder, before the caller returns."""
    sites = 0
    for g in prog.fns_in(f.file.rsplit("/", 1)[-1]):
        for b, i, e in g.iter_elems():
            if not any(c.get("fn") == f.name for c in ex.calls(e, into_refs=False)):
                continue
            sites += 1

            def via(bb, ii, ee):
                if bb.id == b.id and ii <= i:
                    return False
                for (l, r, op, node) in ex.writes(ee):
                    fk = ex.field_key(l)
                    if fk and fk[1] == field:
                        return True
                return any(c.get("fn") == "lzma_free" for c in ex.calls(ee, into_refs=False))
            # same block after the call?
            if any(via(b, j, b.elems[j]) for j in range(i + 1, len(b.elems)) if b.elems[j] is not None):
                continue
            ok, path = cfg.must_pass(g, cfg.succs(g, b.id), [g.exit], via)
            if not ok:
                return False, "caller %s does not clear %s after the call at line %d" % (g.name, field, ex.line(e))
    if sites == 0:
        return False, "no call sites found"
    return True, "all %d call sites overwrite '%s' or free the holder afterwards" % (sites, field)


def check_null(ck, prog):
    ck.rule("C10-NULL", "every lzma_alloc*/ result is NULL-tested before its first dereference")
    n = 0
    for f in sorted(prog.all_functions("liblzma"), key=lambda f: (f.file, f.line)):
        for (ln, tgt, ok, why) in own.alloc_null_checks(f):
            n += 1
            ck.saw_function(f)
            ck.ob("C10-NULL", "%s:%s" % (f.name, tgt), ok, common.where(f, ln),
                  "%s = lzma_alloc*(): %s" % (tgt, why), key="NULL:%s:%s" % (f.name, tgt))
    ck.floor("C10-NULL", 40, "obligations")


def check_strm(ck, prog):
    ck.rule("C10-STRM", "public functions that initialise an lzma_stream use lzma_next_strm_init; "
            "nested coder inits use lzma_next_coder_init / lzma_next_filter_init")
    n = 0
    for f in sorted(prog.all_functions("liblzma"), key=lambda f: (f.file, f.line)):
        if f.static or not any(p["ty"].startswith("lzma_stream *") for p in f.params):
            continue
        sets_actions = False
        uses_macro = False
        for b, i, e in f.iter_elems():
            for (l, r, op, node) in ex.writes(e):
                if r is not None and ex.is_const(r, 1) and any(
                        x.get("k") == "mem" and x["f"] == "supported_actions" for x in ex.walk(l)):
                    sets_actions = True
            for x in ex.walk(e, into_refs=False):
                if x.get("M") == "lzma_next_strm_init" or x.get("m") == "lzma_next_strm_init":
                    uses_macro = True
        if not sets_actions:
            continue
        n += 1
        ck.saw_function(f)
        # shape of the expansion: lzma_strm_init first, lzma_end on failure
        calls = [c.get("fn") for b, i, e in f.iter_elems() for c in ex.calls(e, into_refs=False)]
        ok = uses_macro and "lzma_strm_init" in calls and "lzma_end" in calls
        ck.ob("C10-STRM", f.name, ok, common.where(f),
              "%s initialises the stream %s lzma_next_strm_init (lzma_strm_init + lzma_end on failure)" % (
                  f.name, "through" if ok else "WITHOUT"), key="STRM:" + f.name)
    ck.floor("C10-STRM", 17)
    # init functions that store into next->coder start with lzma_next_coder_init
    for f, rec, endname in coder_records(prog):
        if not any(p["n"] == "next" for p in f.params):
            continue
        uses = False
        for b, i, e in f.iter_elems():
            for x in ex.walk(e, into_refs=False):
                if x.get("M") == "lzma_next_coder_init" or x.get("m") == "lzma_next_coder_init":
                    uses = True
        how = "uses lzma_next_coder_init"
        if not uses:
            # nested helper: every caller is a filter init function reached through
            # lzma_next_filter_init (which performs lzma_next_coder_init)
            cg = common.callgraph(prog)
            init_slot = set()
            for (rec, field), fns in cg.slots.items():
                if field == "init":
                    init_slot |= fns
            callers = set(cg.callers_of(f.name))
            lvl2 = set()
            for c in callers:
                if c not in init_slot:
                    lvl2 |= set(cg.callers_of(c))
            uses = bool(callers) and all(c in init_slot or
                                         (cg.callers_of(c) and all(d in init_slot for d in cg.callers_of(c)))
                                         for c in callers)
            how = "is reached only from filter init functions (%s) behind lzma_next_filter_init" % ",".join(sorted(callers)[:3])
        ck.ob("C10-STRM", "coder_init:" + f.name, uses, common.where(f),
              "%s %s" % (f.name, how if uses else "touches next->coder without lzma_next_coder_init on some caller path"),
              key="STRM:coder_init:" + f.name)


ERR_ALLOW = {
    # (function, callee): reason
}


def check_err(ck, prog):
    ck.rule("C10-ERR", "every call returning lzma_ret has its result consumed (tested, stored, returned "
            "or cast to void)")
    rs = common.retsets(prog)

    cur = {}

    def is_ret_call(c):
        fn = c.get("fn")
        if fn:
            cands = prog.resolve(cur["f"], fn)
            return any(rs._is_ret_fn(g) for g in cands)
        cal = ex.strip(c.get("callee"))
        if cal is not None and cal.get("k") == "un" and cal["op"] == "*":
            cal = ex.strip(cal["e"])
        fk = ex.field_key(cal)
        return bool(fk and fk[1] in ("code", "init", "update", "memconfig", "set_out_limit"))

    ncalls = 0
    for f in sorted(prog.all_functions("liblzma"), key=lambda f: (f.file, f.line)):
        cur["f"] = f
        for b, i, e in f.iter_elems():
            for c in ex.calls(e, into_refs=False):
                if is_ret_call(c):
                    ncalls += 1
        for (ln, callee, node) in own.unused_results(prog, f, is_ret_call):
            ck.saw_function(f)
            allow = ERR_ALLOW.get((f.name, callee))
            ck.ob("C10-ERR", "%s->%s" % (f.name, callee), allow is not None, common.where(f, ln),
                  ("exception: " + allow) if allow else
                  "result of %s() is dropped in %s(): a failure (e.g. LZMA_MEM_ERROR) would go unnoticed" % (
                      callee, f.name), key="ERR:%s:%s" % (f.name, callee))
    ck.ob("C10-ERR", "calls-scanned", ncalls >= 250, "liblzma",
          "%d calls returning lzma_ret scanned" % ncalls, key="ERR:scan")
    ck.extra["lzma_ret_calls_scanned"] = ncalls


STRONG = [
    ("lzma_filters_copy", "filter_common.c", ("real_dest",), {}),
    ("stream_encoder_update", "stream_encoder.c", ("coder_ptr",), None),
    ("stream_encoder_mt_update", "stream_encoder_mt.c", ("coder_ptr",), None),
]


def check_strong(ck, prog):
    ck.rule("C10-STRONG", "strong-guarantee APIs: no caller-visible store on a path ending in an error return")
    cg = common.callgraph(prog)
    rs = common.retsets(prog)
    f = prog.fn("lzma_filters_copy", "filter_common.c")
    ck.saw_function(f)
    pg = PlainGraph(prog, f, cg, rs)
    res = cover.strong_guarantee(prog, f, pg.g, ("real_dest",))
    ck.ob("C10-STRONG", "lzma_filters_copy", not res, common.where(f, res[0][0] if res else 0),
          "lzma_filters_copy writes real_dest only on the success path" if not res else
          "lzma_filters_copy can fail at line %d after writing %s at line %d" % (res[0][0], res[0][2], res[0][1]),
          key="STRONG:lzma_filters_copy")
    # update functions: coder->filters replaced only after the temporary copy succeeded
    for fname, file in (("stream_encoder_update", "stream_encoder.c"),
                        ("stream_encoder_mt_update", "stream_encoder_mt.c")):
        g = prog.fn(fname, file)
        ck.saw_function(g)
        pg = PlainGraph(prog, g, cg, rs)
        # the visible state here is coder->filters / coder->filters_cache
        res = cover.strong_guarantee(prog, g, pg.g, ("coder_ptr",),
                                     effects={"lzma_filters_free": {0}},
                                     canonical={"(*coder).block_options.filters": "coder->filters"})
        res = [r for r in res if ".filters" in r[2] or "lzma_filters_free" in r[2]]
        ck.ob("C10-STRONG", fname, not res, common.where(g, res[0][0] if res else 0),
              "%s replaces coder->filters only on the success path" % fname if not res else
              "%s can return an error at line %d after %s was modified at line %d" % (fname, res[0][0], res[0][2], res[0][1]),
              key="STRONG:" + fname)
    ck.floor("C10-STRONG", 3)


def check_initord(ck, prog):
    """Once the new coder is reachable from next->coder (so that lzma_next_end() / lzma_end() will call its end
    function), every member that the end function releases must have been given a value before the init function
    can return -- in particular before the first allocation that may fail."""
    ck.rule("C10-INITORD", "after next->coder is published, every member released by the end function is "
                           "initialised before any return of the init function")
    n = 0
    for f, rec, endname in sorted(coder_records(prog), key=lambda x: (x[0].file, x[0].line)):
        if endname is None:
            continue
        file = f.file.rsplit("/", 1)[-1]
        endf = prog.fn(endname, file)
        rel = own.released_fields(prog, endf, rec, file)
        if not rel:
            continue
        # publication site and the local that holds the new record
        pub = None
        var = None
        zeroed = False
        for b, i, e in f.iter_elems():
            for (l, r, op, node) in ex.writes(e):
                fk = ex.field_key(l)
                if fk and fk[1] == "coder" and fk[0] in ("lzma_next_coder_s", "lzma_lz_decoder", "lzma_lz_encoder") \
                        and op == "=" and r is not None and ex.strip(r).get("k") == "var":
                    pub = (b.id, i)
                    var = ex.strip(r)["n"]
        if pub is None:
            continue
        for b, i, e in f.iter_elems():
            for (l, r, op, node) in ex.writes(e):
                ls = ex.strip(l)
                if ls is not None and ls.get("k") == "var" and ls["n"] == var and r is not None and \
                        any(c.get("fn") == "lzma_alloc_zero" for c in ex.calls(r)):
                    zeroed = True
        ck.saw_function(f)
        recs = set(own.embedded_records(prog, rec))
        for (orec, fld), how in sorted(rel.items()):
            n += 1
            nm = fld if orec == rec else "%s.%s" % (orec, fld)

            def via(bb, ii, ee, orec=orec, fld=fld):
                for (l, r, op, node) in ex.writes(ee):
                    fk0 = ex.field_key(l)
                    if fk0 and fk0[1] == "coder" and fk0[0] in ("lzma_next_coder_s", "lzma_lz_decoder",
                                                                "lzma_lz_encoder") and r is not None and \
                            ex.is_const(r, 0):
                        return True        # unpublished again: next->coder = NULL
                    for x in ex.walk(l):
                        if x.get("k") == "mem" and x.get("rec") in recs:
                            # a store to the member itself, to a sub-member of it, or to a by-value record that
                            # embeds it
                            if x.get("rec") == orec and x["f"] == fld:
                                return True
                    ls = ex.strip(l)
                    if ls is not None and ls.get("k") == "mem" and orec != rec:
                        # whole embedded record assigned (coder->mf = ...)
                        fr = prog.records.get(ls.get("rec"))
                        if fr:
                            for fd_ in fr["fields"]:
                                if fd_["n"] == ls["f"] and fd_.get("rec") == orec and "*" not in fd_["ty"]:
                                    return True
                for c in ex.calls(ee, into_refs=False):
                    if c.get("fn") in ("memzero", "memset") and c["args"]:
                        a0 = ex.strip(c["args"][0])
                        if a0 is not None and a0.get("k") == "var" and a0["n"] == var:
                            return True
                    # &coder->member handed to memzero/memset or to an *_init function
                    if c.get("fn") and (c["fn"] in ("memzero", "memset") or c["fn"].endswith("_init")):
                        for a in c["args"][:1]:
                            a0 = ex.strip(a)
                            if a0 is not None and a0.get("k") == "un" and a0["op"] == "&":
                                a0 = ex.strip(a0["e"])
                            if a0 is not None and a0.get("k") == "mem" and a0.get("rec") == orec and a0["f"] == fld:
                                return True
                return False
            if zeroed:
                ck.ob("C10-INITORD", "%s:%s" % (f.name, nm), True, common.where(f),
                      "%s: record allocated zero-filled, member %s is NULL from the start" % (f.name, nm),
                      key="INITORD:%s:%s" % (f.name, nm))
                continue
            ok, path = cfg.must_pass(f, [pub[0]], [f.exit], via, start_elem={pub[0]: pub[1]})
            ck.ob("C10-INITORD", "%s:%s" % (f.name, nm), ok, common.where(f),
                  "%s: member %s (released by %s) is initialised on every path from the publication of the coder to "
                  "a return" % (f.name, nm, endname) if ok else
                  "%s() can return (lines %s) after next->coder points to the new %s but before member '%s' has a "
                  "value; %s() then releases garbage" % (f.name, cfg.path_lines(f, path), rec, nm, endname),
                  key="INITORD:%s:%s" % (f.name, nm))
    ck.floor("C10-INITORD", 25, "obligations")


def check_reown(ck, prog):
    """An init function that is handed an existing coder (the handle is re-used without lzma_end()) must release what
    a member owns before it overwrites the member: the end function only sees the new value."""
    ck.rule("C10-REOWN", "on the re-use path of an init function a member released by the end function is released "
            "before it is overwritten")
    n = 0
    for f, rec, endname in sorted(coder_records(prog), key=lambda x: (x[0].file, x[0].line)):
        if endname is None:
            continue
        file = f.file.rsplit("/", 1)[-1]
        endf = prog.fn(endname, file)
        rel = own.released_fields(prog, endf, rec, file)
        if not rel:
            continue
        allocb = None
        for b, i, e in f.iter_elems():
            for (l, r, op, node) in ex.writes(e):
                ls = ex.strip(l)
                if allocb is None and ls is not None and ls.get("k") == "var" and r is not None and \
                        any(c.get("fn") in ("lzma_alloc", "lzma_alloc_zero") for c in ex.calls(r)):
                    allocb = b.id
        if allocb is None:
            continue
        doms = cfg.dominators(f)
        region = {x for x in f.blocks if allocb in doms.get(x, ())}
        ftypes = {}
        for rn in own.embedded_records(prog, rec):
            for fd_ in (prog.records.get(rn) or {"fields": []})["fields"]:
                ftypes[(rn, fd_["n"])] = fd_.get("ty", "")

        def target(l):
            """(rec, field) of the owned member that the lvalue overwrites, or None"""
            ls = ex.strip(l)
            chain = []
            while ls is not None and ls.get("k") in ("mem", "idx"):
                chain.append(ls)
                ls = ex.strip(ls["b"])
            # chain[-1] is the access closest to the root
            order = list(reversed(chain))
            for k_, x in enumerate(order):
                if x.get("k") == "mem" and (x.get("rec"), x["f"]) in rel:
                    key = (x.get("rec"), x["f"])
                    inner = order[k_ + 1:]
                    # coder->dict.buf is what is owned, coder->dict.pos is not: descend to the deepest owned member
                    deeper = [y for y in inner if y.get("k") == "mem" and (y.get("rec"), y["f"]) in rel]
                    if deeper:
                        continue
                    if any(y.get("k") == "mem" and any(rk[0] == y.get("rec") for rk in rel) for y in inner):
                        return None          # another member of an embedded record that has its own owned members
                    ty = ftypes.get(key, "")
                    if not inner:
                        return key
                    if "*" in ty and "[" not in ty:
                        return None          # store through the pointer, the pointer itself stays
                    return key               # store into an embedded array / record that owns allocations
            return None

        def releases(e, key, depth=2):
            for c in ex.calls(e, into_refs=False):
                nm = c.get("fn")
                if nm in own.RELEASERS:
                    for a in c["args"][:2]:
                        for x in ex.walk(a):
                            if x.get("k") == "mem" and (x.get("rec"), x["f"]) == key:
                                return True
                elif nm and depth:
                    for g in prog.functions.get(nm, []):
                        if g.file == f.file and g.blocks and g is not f:
                            if any(releases(ee, key, depth - 1) for bb, ii, ee in g.iter_elems()):
                                return True
            return False
        for b, i, e in f.iter_elems():
            if b.id in region:
                continue
            for (l, r, op, node) in ex.writes(e):
                key = target(l)
                if key is None:
                    continue
                # a value computed from the old one (lzma_index_hash_init(coder->index_hash, ...)) is a hand-over
                if r is not None and any(x.get("k") == "mem" and (x.get("rec"), x["f"]) == key for x in ex.walk(r)):
                    continue
                n += 1
                ck.saw_function(f)
                # every path entry -> store that avoids the allocation region passes a release of the member
                rb = {}
                for bb, ii, ee in f.iter_elems():
                    if releases(ee, key):
                        rb[bb.id] = min(rb.get(bb.id, 1 << 30), ii)
                seen, st, bad = set(), [f.entry], False
                while st:
                    x = st.pop()
                    if x in seen or x in region or x is None:
                        continue
                    seen.add(x)
                    if x == b.id and not (x in rb and rb[x] < i):
                        bad = True
                        break
                    if x in rb:
                        continue
                    st.extend(f.blocks[x].succs)
                nm = key[1] if key[0] == rec else "%s.%s" % key
                ck.ob("C10-REOWN", "%s:%s@%s" % (f.name, nm, ex.line(node)), not bad, common.where(f, node),
                      "%s(): `%s` on the re-use path is preceded by the release of member %s" % (f.name, ex.show(node)[:60], nm)
                      if not bad else
                      "%s(): `%s` overwrites member '%s' of an existing coder (handle re-used without lzma_end()) on a path "
                      "on which what the member owned was not released (%s does it with %s): the old allocation is "
                      "unreachable afterwards and is never returned to the allocator" % (
                          f.name, ex.show(node)[:70], nm, endname, rel[key]),
                      key="REOWN:%s:%s" % (f.name, nm))
    ck.floor("C10-REOWN", 5)
    return n


def check_localalloc(ck, prog, rule="C10-LOCALALLOC"):
    """A block obtained from lzma_alloc*() into a LOCAL pointer is, on every path from the allocation to a return,
    freed, returned, stored somewhere that outlives the function (a member, *out-parameter, a global) or handed to a
    callee.  The NULL edge of a test of the pointer is not followed.  (Members are covered by C10-END / C10-INITORD.)"""
    ck.rule(rule, "a block allocated into a local pointer is freed, returned, stored or handed over on every path to a return")
    n = 0
    for f in sorted(prog.all_functions("liblzma"), key=lambda f: (f.file, f.line)):
        if not f.blocks:
            continue
        locs = {v["n"] for v in f.vars if not v.get("param")}
        allocs = {}
        for b, i, e in f.iter_elems():
            d = ex.deref(e)
            if d.get("k") == "decl" and d.get("init") is not None and d["n"] in locs:
                i0 = ex.strip(d["init"])
                if i0 is not None and i0.get("k") == "call" and i0.get("fn") in ("lzma_alloc", "lzma_alloc_zero"):
                    allocs[(d["n"], b.id, i)] = e
            for (l, r, op, nd) in ex.writes(e):
                ls, rr = ex.strip(l), (ex.strip(r) if r is not None else None)
                if ls is not None and ls.get("k") == "var" and ls["n"] in locs and rr is not None and rr.get("k") == "call" \
                        and rr.get("fn") in ("lzma_alloc", "lzma_alloc_zero") and op == "=":
                    allocs[(ls["n"], b.id, i)] = e
        for (v, bid, idx), e0 in sorted(allocs.items(), key=lambda kv: (kv[0][1], kv[0][2])):
            n += 1
            ck.saw_function(f)

            def mentions(x_):
                return x_ is not None and any(y.get("k") == "var" and y["n"] == v for y in ex.walk(x_))
            esc = {}
            for b, i, e in f.iter_elems():
                ev = False
                d = ex.deref(e)
                if d.get("k") == "ret" and mentions(d.get("e")):
                    ev = True
                for (l, r, op, nd) in ex.writes(e):
                    ls = ex.strip(l)
                    if mentions(r) and ls is not None and (ls.get("k") != "var" or ls["n"] not in locs):
                        ev = True
                for c in ex.calls(e, into_refs=False):
                    if any(mentions(a) for a in c.get("args", ())):
                        ev = True
                if ev and not (b.id == bid and i <= idx):
                    esc[b.id] = min(esc.get(b.id, 1 << 30), i)
            seen, st, leak = set(), [(bid, idx + 1)], None
            while st:
                x, start = st.pop()
                if start == 0:
                    if x in seen:
                        continue
                    seen.add(x)
                blk = f.blocks[x]
                if x in esc and esc[x] >= start:
                    continue
                rets_ = [k for k, ee in enumerate(blk.elems) if ee is not None and k >= start and ex.deref(ee).get("k") == "ret"]
                if rets_ or x == f.exit:
                    leak = (x, blk.elems[rets_[0]] if rets_ else None)
                    break
                succs = list(blk.succs)
                t = blk.term
                if t and "cond" in t and len(succs) == 2:
                    c = ex.strip(t["cond"])
                    if c is not None and c.get("k") == "bin" and c["op"] in ("==", "!=") and \
                            ex.strip(c["l"]).get("k") == "var" and ex.strip(c["l"])["n"] == v and ex.is_const(c["r"], 0):
                        succs = [succs[1]] if c["op"] == "==" else [succs[0]]
                    elif c is not None and c.get("k") == "un" and c["op"] == "!" and ex.strip(c["e"]).get("k") == "var" \
                            and ex.strip(c["e"])["n"] == v:
                        succs = [succs[1]]
                st.extend((y, 0) for y in succs if y is not None)
            ck.ob(rule, "%s:%s@%s" % (f.name, v, ex.line(e0)), leak is None, common.where(f, leak[1] if leak and leak[1] is not None else e0),
                  "%s(): the block allocated into `%s` (line %s) is freed, stored or handed over on every path" % (f.name, v, ex.line(e0))
                  if leak is None else
                  "%s(): the block allocated into the local `%s` at line %s is still owned only by that local when the function "
                  "returns (block %d): nothing can free it any more" % (f.name, v, ex.line(e0), leak[0]),
                  key="LOCALALLOC:%s:%s" % (f.name, v))
    ck.floor(rule, 30)
    return n


def check_localcoder(ck, prog, rule="C10-LOCALCODER"):
    """A function-local lzma_next_coder that was handed to an init function is ended (lzma_next_end(&X)) on every path
    from that call to a return -- also when the init failed half-way: only the local knows the partly built coder."""
    ck.rule(rule, "a function-local lzma_next_coder is ended on every path after it was given to an init function")
    n = 0
    for f in sorted(prog.all_functions("liblzma"), key=lambda f: (f.file, f.line)):
        if not f.blocks:
            continue
        for v in f.vars:
            if v.get("param") or not (v.get("ty") or "").startswith("lzma_next_coder") or "*" in (v.get("ty") or ""):
                continue
            X = v["n"]

            def addr_of(a):
                a0 = ex.strip(a)
                return a0 is not None and a0.get("k") == "un" and a0["op"] == "&" and \
                    ex.strip(a0["e"]) is not None and ex.strip(a0["e"]).get("k") == "var" and ex.strip(a0["e"])["n"] == X
            inits, ends = [], {}
            for b, i, e in f.iter_elems():
                for c in ex.calls(e, into_refs=False):
                    if not any(addr_of(a) for a in c.get("args", ())):
                        continue
                    if c.get("fn") == "lzma_next_end":
                        ends[b.id] = min(ends.get(b.id, 1 << 30), i)
                    elif c.get("fn"):
                        inits.append((b.id, i, c))
            if not inits:
                continue
            n += 1
            ck.saw_function(f)
            b0, i0, c0 = min(inits, key=lambda t: (ex.line(t[2]) or 0))

            def self_cleaning(name, depth=2):
                """the init function ends `next` itself when it fails (lzma_raw_coder_init does)"""
                for g in prog.functions.get(name, []):
                    if not g.blocks or not g.params:
                        continue
                    p0 = g.params[0]["n"]
                    for bb, ii, ee in g.iter_elems():
                        for cc in ex.calls(ee, into_refs=False):
                            a = [ex.strip(x) for x in cc.get("args", ())]
                            if cc.get("fn") == "lzma_next_end" and a and a[0] is not None and a[0].get("k") == "var" and a[0]["n"] == p0:
                                return True
                            if depth and cc.get("fn") and a and a[0] is not None and a[0].get("k") == "var" and a[0]["n"] == p0 \
                                    and self_cleaning(cc["fn"], depth - 1):
                                return True
                return False
            start = [(b0, i0 + 1)]
            blk0 = f.blocks[b0]
            if self_cleaning(c0.get("fn")) and blk0.term and "cond" in blk0.term and len(blk0.succs) == 2 and \
                    ex.show(ex.strip(blk0.term["cond"])).endswith("!= LZMA_OK") and \
                    not any(ee is not None and ex.deref(ee).get("k") == "ret" for ee in blk0.elems[i0 + 1:]):
                start = [(blk0.succs[1], 0)]
            seen, st, leak = set(), start, None
            while st:
                x, start = st.pop()
                if start == 0:
                    if x in seen:
                        continue
                    seen.add(x)
                blk = f.blocks[x]
                if x in ends and ends[x] >= start:
                    continue
                rets_ = [k for k, ee in enumerate(blk.elems) if ee is not None and k >= start and ex.deref(ee).get("k") == "ret"]
                if rets_ or x == f.exit:
                    leak = (x, blk.elems[rets_[0]] if rets_ else None)
                    break
                st.extend((y, 0) for y in blk.succs if y is not None)
            ck.ob(rule, "%s:%s" % (f.name, X), leak is None, common.where(f, leak[1] if leak and leak[1] is not None else c0),
                  "%s(): lzma_next_end(&%s) on every path after %s(&%s, ...)" % (f.name, X, c0.get("fn"), X) if leak is None else
                  "%s(): a return (block %d) is reachable after %s(&%s, ...) without lzma_next_end(&%s): when the initialisation "
                  "fails half-way (an allocation in the middle of it) the partly built coder is leaked" % (
                      f.name, leak[0], c0.get("fn"), X, X), key="LOCALCODER:%s:%s" % (f.name, X))
    ck.floor(rule, 5)
    return n


def check_init_fail_frees(ck, prog, rule="C10-STRM"):
    """"If initialization fails, all the memory allocated for *strm by liblzma is always freed."  lzma_next_strm_init()
    (through lzma_strm_init + the init function + lzma_end on failure) guarantees that once it runs.  An error return
    that comes BEFORE the handle was handed to it, or to another public initialiser, leaves a coder from an earlier
    session allocated and active: it has to be preceded by lzma_end(strm)."""
    n = 0
    for f in sorted(prog.all_functions("liblzma"), key=lambda f: (f.file, f.line)):
        if not f.blocks or f.static:
            continue
        sp = [v["n"] for v in f.vars if v.get("param") and v.get("prec") == "lzma_stream"]
        if not sp:
            continue
        P = sp[0]
        hand = set()
        ends = set()
        for b, i, e in f.iter_elems():
            for c in ex.calls(e, into_refs=False):
                a = [ex.show(ex.strip(x)) for x in c.get("args", ())]
                if c.get("fn") == "lzma_end" and a and a[0] == P:
                    ends.add(b.id)
                elif c.get("fn") == "lzma_strm_init" or (c.get("fn") and a and a[0] == P and c["fn"] not in (
                        "lzma_end", "lzma_code", "lzma_memusage", "lzma_memlimit_get", "lzma_memlimit_set")):
                    hand.add(b.id)
        if not hand:
            continue
        n += 1
        ck.saw_function(f)
        seen, st, hit = set(), [f.entry], None
        while st:
            x = st.pop()
            if x in seen or x is None or x in hand or x in ends:
                continue
            seen.add(x)
            for e in f.blocks[x].elems:
                d = ex.deref(e) if e is not None else {}
                if d.get("k") == "ret" and d.get("e") is not None and ex.const_val(d["e"]) not in (None, 0):
                    hit = e
            if hit is not None:
                break
            st.extend(f.blocks[x].succs)
        ck.ob(rule, "%s:fail-frees" % f.name, hit is None, common.where(f, hit),
              "%s(): no error return before the handle is (re)initialised" % f.name if hit is None else
              "%s(): `%s` (line %s) comes before the handle is given to lzma_strm_init()/another initialiser and without "
              "lzma_end(%s): a coder from an earlier use of the handle stays allocated and active although the documentation "
              "promises that a failed initialisation frees everything (lzma_code() then continues the OLD stream)" % (
                  f.name, ex.show(hit), ex.line(hit), P), key="STRM:%s:fail-frees" % f.name)
    if n < 15:
        raise AnalysisBroken("%s: only %d public stream initialisers found" % (rule, n))
    return n


def check_cachekey(ck, prog):
    """`if (K != wanted) { free(P); P = alloc(); if (P == NULL) return error; K = wanted; }`: the member K that
    says "P already has the right size" may only be updated once P is known to be non-NULL."""
    ck.rule("C10-CACHEKEY", "a member that records the size of a cached allocation is updated only after the "
                            "allocation succeeded")
    n = 0
    for f in sorted(prog.all_functions("liblzma"), key=lambda f: (f.file, f.line)):
        if not f.blocks:
            continue
        doms = None
        for b in f.blocks.values():
            t = b.term
            if not t or "cond" not in t or len(b.succs) != 2:
                continue
            c = ex.strip(t["cond"])
            if c.get("k") != "bin" or c["op"] not in ("!=", "=="):
                continue
            sides = [ex.strip(c["l"]), ex.strip(c["r"])]
            K = [s_ for s_ in sides if s_ is not None and s_.get("k") == "mem"]
            other = [s_ for s_ in sides if s_ is not None and s_.get("k") != "mem"]
            if len(K) != 1 or not other or ex.const_val(other[0]) is not None:
                continue
            K = K[0]
            if doms is None:
                doms = cfg.dominators(f)
            realloc_succ = b.succs[0] if c["op"] == "!=" else b.succs[1]
            if realloc_succ is None:
                continue
            region = [x for x in f.blocks if realloc_succ in doms.get(x, ())]
            # free(P) followed by P = alloc in the region, same object as K
            P = None
            for x in region:
                for e in f.blocks[x].elems:
                    if e is None:
                        continue
                    for (l, r, op, node) in ex.writes(e):
                        if r is not None and any(cc.get("fn") in ("lzma_alloc", "lzma_alloc_zero") for cc in ex.calls(r)) \
                                and ex.strip(l).get("k") == "mem":
                            P = (l, x, node)
            if P is None:
                continue
            freed = any(cc.get("fn") == "lzma_free" and cc["args"] and ex.same(cc["args"][0], P[0])
                        for x in region for e in f.blocks[x].elems if e for cc in ex.calls(e, into_refs=False))
            rootK, rootP = ex.lvalue_root(K), ex.lvalue_root(P[0])
            if not freed or rootK is None or rootP is None or rootK.get("n") != rootP.get("n"):
                continue
            # the NULL test of P and its success edge
            ok_edge = None
            for tb in f.blocks.values():
                if not (tb.term and "cond" in tb.term and len(tb.succs) == 2):
                    continue
                cc = ex.strip(tb.term["cond"])
                if cc.get("k") == "bin" and cc["op"] in ("==", "!=") and ex.same(cc["l"], P[0]) and ex.is_const(cc["r"], 0):
                    ok_edge = tb.succs[1] if cc["op"] == "==" else tb.succs[0]
            if ok_edge is None:
                continue
            n += 1
            ck.saw_function(f)
            bad = None
            for x in f.blocks:
                for e in f.blocks[x].elems:
                    if e is None:
                        continue
                    for (l, r, op, node) in ex.writes(e):
                        if ex.same(l, K) and ok_edge not in doms.get(x, ()):
                            # stores that reset the key to "nothing cached" are fine
                            if r is not None and ex.is_const(r, 0):
                                continue
                            bad = node
            # ... and after `free(P); P = alloc()` FAILED the old key no longer describes anything: it must be invalidated
            # (a constant stored to K between the free and the failing return), otherwise a later request for the OLD
            # size finds K == wanted, skips the allocation and uses P == NULL.
            null_tb = None
            for tb in f.blocks.values():
                if tb.term and "cond" in tb.term and len(tb.succs) == 2:
                    cc = ex.strip(tb.term["cond"])
                    if cc.get("k") == "bin" and cc["op"] in ("==", "!=") and ex.same(cc["l"], P[0]) and ex.is_const(cc["r"], 0):
                        null_tb = tb
                        fail_edge = tb.succs[0] if cc["op"] == "==" else tb.succs[1]
            inval = set()
            for x in region:
                for e in f.blocks[x].elems:
                    if e is None:
                        continue
                    for (l, r, op, node) in ex.writes(e):
                        if ex.same(l, K) and r is not None and ex.const_val(r) is not None:
                            inval.add(x)
            stale = None
            if null_tb is not None and fail_edge is not None and not (inval & set(doms.get(null_tb.id, ()))):
                seen, st = set(), [fail_edge]
                while st:
                    x = st.pop()
                    if x in seen or x in inval:
                        continue
                    seen.add(x)
                    if x == f.exit:
                        stale = null_tb
                        break
                    st.extend(y for y in f.blocks[x].succs if y is not None)
            ck.ob("C10-CACHEKEY", "%s:%s:fail-path" % (f.name, ex.show(K)), stale is None, common.where(f, null_tb.term["cond"] if null_tb else None),
                  "%s: when the allocation of %s fails, %s is invalidated before the function returns" % (
                      f.name, ex.show(P[0]), ex.show(K)) if stale is None else
                  "%s(): %s has been freed and its re-allocation failed, but the function returns with %s still holding "
                  "the OLD size: the next call that asks for that size finds `%s` false, skips the allocation and uses "
                  "%s == NULL" % (f.name, ex.show(P[0]), ex.show(K), ex.show(t["cond"]), ex.show(P[0])),
                  key="CACHEKEY:%s:%s:fail-path" % (f.name, ex.show(K)))
            ck.ob("C10-CACHEKEY", "%s:%s" % (f.name, ex.show(K)), bad is None, common.where(f, t["cond"]),
                  "%s: %s is compared to decide whether %s is reused; it is updated only after %s != NULL" % (
                      f.name, ex.show(K), ex.show(P[0]), ex.show(P[0])) if bad is None else
                  "%s(): %s (the key that lets a later call reuse %s) is stored at line %d, before the allocation of %s "
                  "is known to have succeeded: after a failed allocation the next init skips the allocation and uses a "
                  "NULL buffer" % (f.name, ex.show(K), ex.show(P[0]), ex.line(bad), ex.show(P[0])),
                  key="CACHEKEY:%s:%s" % (f.name, ex.show(K)))
    ck.floor("C10-CACHEKEY", 1)


def check_syncend(ck, prog):
    """Mutexes and condition variables are resources as well (heap objects on several platforms, handles on Windows): every
    member that an init function passes to mythread_mutex_init()/mythread_cond_init() is passed to the matching destroy
    function by the end function of the record (directly or in a callee of the same file)."""
    ck.rule("C10-SYNCEND", "every mutex / condition variable initialised for a coder record is destroyed by its end function")
    n = 0
    PAIRS = {"mythread_mutex_init": "mythread_mutex_destroy", "mythread_cond_init": "mythread_cond_destroy"}
    for f, rec, endname in sorted(coder_records(prog), key=lambda x: (x[0].file, x[0].line)):
        base = f.file.rsplit("/", 1)[-1]
        inits = []
        for g in prog.fns_in(base):
            if not g.blocks:
                continue
            for b, i, e in g.iter_elems():
                for c in ex.calls(e, into_refs=True):
                    if c.get("fn") in PAIRS and c["args"]:
                        a = ex.strip(c["args"][0])
                        if a is not None and a.get("k") == "un" and a["op"] == "&":
                            fk = ex.field_key(a["e"])
                            if fk:
                                inits.append((fk, c.get("fn"), g, c))
        if not inits or not endname:
            continue
        # functions reachable from the end function within the file
        endf = prog.fn(endname, base)
        # worker threads are joined by the end function: what the thread function does on exit counts
        thr_fns = []
        for g in prog.fns_in(base):
            for b, i, e in g.iter_elems():
                for c in ex.calls(e, into_refs=True):
                    if c.get("fn") == "mythread_create" and len(c["args"]) > 1:
                        a = ex.strip(c["args"][1])
                        if a is not None and a.get("k") == "un" and a["op"] == "&":
                            a = ex.strip(a["e"])
                        if a is not None and a.get("n"):
                            thr_fns += [h for h in prog.functions.get(a["n"], []) if h.file == f.file and h.blocks]
        reach, st = set(), [endf] + thr_fns
        while st:
            g = st.pop()
            if g.key in reach:
                continue
            reach.add(g.key)
            for b, i, e in g.iter_elems():
                for c in ex.calls(e, into_refs=True):
                    for h in prog.functions.get(c.get("fn") or "", []):
                        if h.file == f.file and h.blocks:
                            st.append(h)
        destroyed = set()
        for g in prog.fns_in(base):
            if g.key not in reach:
                continue
            for b, i, e in g.iter_elems():
                for c in ex.calls(e, into_refs=True):
                    if c.get("fn") in PAIRS.values() and c["args"]:
                        a = ex.strip(c["args"][0])
                        if a is not None and a.get("k") == "un" and a["op"] == "&":
                            fk = ex.field_key(a["e"])
                            if fk:
                                destroyed.add((fk, c.get("fn")))
        seen = set()
        for (fk, ifn, g, c) in inits:
            if (fk, ifn) in seen:
                continue
            seen.add((fk, ifn))
            n += 1
            ck.saw_function(endf)
            ok = (fk, PAIRS[ifn]) in destroyed
            ck.ob("C10-SYNCEND", "%s:%s.%s" % (endname, fk[0].split("@")[0], fk[1]), ok, common.where(endf),
                  "%s (or a callee) calls %s(&...->%s)" % (endname, PAIRS[ifn], fk[1]) if ok else
                  "%s() frees the record but never calls %s() for member '%s' of %s, which %s() initialised with %s(): one "
                  "synchronisation object per coder instance is never destroyed (a memory / handle leak on platforms where "
                  "these objects own resources)" % (endname, PAIRS[ifn], fk[1], fk[0].split("@")[0], g.name, ifn),
                  key="SYNCEND:%s:%s.%s" % (endname, fk[0].split("@")[0], fk[1]))
    ck.floor("C10-SYNCEND", 6)


def check_local_index(ck, prog):
    """A function-local `lzma_index *i = lzma_index_init(...)` (or lzma_index_dup) is ended, returned or stored away on
    every path from its successful creation to a return -- `return_if_error()` between creation and lzma_index_end() is
    the classic way to lose it."""
    ck.rule("C10-LOCALIDX", "a function-local lzma_index is ended, returned or handed over on every path")
    n = 0
    for f in sorted(prog.all_functions("liblzma"), key=lambda f: (f.file, f.line)):
        if not f.blocks:
            continue
        for b, i, e in f.iter_elems():
            e_ = ex.deref(e)
            var = None
            if e_.get("k") == "decl" and e_.get("init") is not None and any(
                    c.get("fn") in ("lzma_index_init", "lzma_index_dup") for c in ex.calls(e_["init"])):
                var = e_["n"]
            for (l, r, op, nd) in ex.writes(e):
                ls = ex.strip(l)
                if r is not None and ls is not None and ls.get("k") == "var" and any(
                        c.get("fn") in ("lzma_index_init", "lzma_index_dup") for c in ex.calls(r)):
                    var = ls["n"]
            if var is None or any(v["n"] == var and v.get("param") for v in f.vars):
                continue
            n += 1
            ck.saw_function(f)
            # blocks that end / hand over the index
            cut = set()
            for bb, ii, ee in f.iter_elems():
                for c in ex.calls(ee, into_refs=True):
                    if c.get("fn") in ("lzma_index_end",) and c["args"] and ex.show(c["args"][0]) == var:
                        cut.add(bb.id)
                for (l2, r2, o2, n2) in ex.writes(ee):
                    if r2 is not None and ex.show(r2) == var and ex.strip(l2).get("k") in ("mem", "un"):
                        cut.add(bb.id)
                x_ = ex.deref(ee)
                if x_.get("k") == "ret" and x_.get("e") is not None and ex.show(x_["e"]) == var:
                    cut.add(bb.id)
            # success edge of the NULL test of var
            starts = []
            for tb in f.blocks.values():
                if tb.term and "cond" in tb.term and len(tb.succs) == 2:
                    c = ex.strip(tb.term["cond"])
                    if c.get("k") == "bin" and c["op"] in ("==", "!=") and ex.show(c["l"]) == var and ex.is_const(c["r"], 0):
                        starts.append(tb.succs[1] if c["op"] == "==" else tb.succs[0])
            if not starts:
                starts = [y for y in b.succs if y is not None]
            seen, st, leak = set(), [y for y in starts if y is not None], False
            while st:
                x = st.pop()
                if x in seen or x in cut:
                    continue
                seen.add(x)
                if x == f.exit:
                    leak = True
                    break
                st.extend(y for y in f.blocks[x].succs if y is not None)
            ck.ob("C10-LOCALIDX", "%s:%s" % (f.name, var), not leak, common.where(f, e),
                  "%s: the local lzma_index `%s` is ended or handed over on every path" % (f.name, var) if not leak else
                  "%s(): a return is reachable after `%s` was created without lzma_index_end(%s) and without handing it over "
                  "(e.g. through return_if_error()): the lzma_index and its Record groups are leaked" % (f.name, var, var),
                  key="LOCALIDX:%s:%s" % (f.name, var))
    ck.floor("C10-LOCALIDX", 1)


def check_deep_free(ck, prog, rule="C10-DEEPFREE"):
    """A lzma_index (its tree of Streams and Record groups) and an index_stream (its tree of groups) own what was appended to
    them.  lzma_free() on such an object is correct only while nothing has been appended yet; once index_tree_append() /
    lzma_index_append() could have run on it, only the deep destructors (lzma_index_end, index_stream_end) release everything."""
    ck.rule(rule, "index.c: no lzma_free() of a lzma_index / index_stream on a path after something was appended to it")
    n = 0
    for f in sorted(prog.all_functions("liblzma"), key=lambda f: (f.file, f.line)):
        if not f.blocks or not f.file.endswith("/index.c") or f.name in ("lzma_index_end", "index_stream_end", "index_tree_end",
                                                                       "index_tree_node_end"):
            continue
        owners = {v["n"] for v in f.vars if v.get("ty", "").replace("const ", "").replace("restrict", "").replace(" ", "") in ("lzma_index*", "index_stream*")}
        if not owners:
            continue
        for b, i, e in f.iter_elems():
            for c in ex.calls(e, into_refs=False):
                if c.get("fn") != "lzma_free" or not c["args"]:
                    continue
                a = ex.strip(c["args"][0])
                if a is None or a.get("k") != "var" or a["n"] not in owners:
                    continue
                V = a["n"]
                n += 1
                ck.saw_function(f)
                grow = set()
                for bb, ii, ee in f.iter_elems():
                    for c2 in ex.calls(ee, into_refs=False):
                        if c2.get("fn") in ("index_tree_append", "lzma_index_append") and c2["args"]:
                            a0 = ex.show(c2["args"][0])
                            if a0 in ("&%s->streams" % V, "&%s->groups" % V, V):
                                grow.add((bb.id, ii))
                bad = None
                for gb, gi in sorted(grow):
                    if gb == b.id and gi < i:
                        bad = gb
                        break
                    seen, st = set(), [y for y in f.blocks[gb].succs if y is not None]
                    while st:
                        x = st.pop()
                        if x in seen:
                            continue
                        seen.add(x)
                        if x == b.id:
                            bad = gb
                            break
                        st.extend(y for y in f.blocks[x].succs if y is not None)
                    if bad is not None:
                        break
                ck.ob(rule, "%s:%s" % (f.name, V), bad is None, common.where(f, c),
                      "%s: lzma_free(%s) is reached only while nothing has been appended to it" % (f.name, V) if bad is None else
                      "%s(): lzma_free(%s) can be reached after index_tree_append()/lzma_index_append() attached Streams or Record "
                      "groups to `%s` (line %s): only the base structure is freed, everything appended so far is leaked" % (
                          f.name, V, V, cfg.block_lines(f, bad)[0]), key="DEEPFREE:%s:%s" % (f.name, V))
    ck.floor(rule, 2)


SIZEKEY_EXCEPT = {
    # (buffer member, size member, storing function): reason
}


def _top_mems(n):
    """Member accesses in n that are values (not the base of another member access / subscript)."""
    bases = set()
    for x in ex.walk(n):
        if x.get("k") in ("mem", "idx"):
            b = ex.strip(x.get("b"))
            if b is not None:
                bases.add(id(b))
    return [x for x in ex.walk(n) if x.get("k") == "mem" and id(x) not in bases]


def check_sizekey(ck, prog, rule="C10-SIZEKEY", files=None, floor=6):
    """A buffer member P allocated with a size taken from a member M (`thr->in = lzma_alloc(coder->block_size)`) is used
    later with M as its bound.  Whenever M is stored to while P may be kept, P has to be re-established: on every path
    to the store the buffer was released (a call that frees P), or is known to be NULL, or the store is behind the
    equality test `M == new value`; or on every path from the store to the return P is freed / re-allocated, or an
    `old == M` test (old sampled from M before the store) guards keeping it.  Otherwise a re-initialisation with a larger
    size keeps the smaller buffer and the next copy bounded by M overflows it."""
    ck.rule(rule, "a member that gives the allocated size of a kept buffer changes only together with the buffer")
    cg = common.callgraph(prog)
    fns = [f for f in prog.all_functions("liblzma") if f.blocks]
    # pairs
    pairs = {}
    for f in fns:
        for b, i, e in f.iter_elems():
            for (l, r, op, node) in ex.writes(e):
                if r is None or ex.strip(l) is None or ex.strip(l).get("k") != "mem":
                    continue
                for c in ex.calls(r):
                    if c.get("fn") in ("lzma_alloc", "lzma_alloc_zero") and c["args"]:
                        for mnode in _top_mems(c["args"][0]):
                            P = ex.field_key(l)
                            M = (mnode.get("rec"), mnode["f"])
                            pairs.setdefault((P, M), []).append((f, b.id, node))
    # functions that (transitively, through direct calls) free a member
    def freeing(P):
        base = set()
        for f in fns:
            for b, i, e in f.iter_elems():
                for c in ex.calls(e, into_refs=False):
                    if c.get("fn") == "lzma_free" and c["args"] and ex.field_key(c["args"][0]) == P:
                        base.add(f.name)
        out = set(base)
        changed = True
        while changed:
            changed = False
            for f in fns:
                if f.name not in out and (set(cg.direct.get(f.key, ())) & out):
                    out.add(f.name)
                    changed = True
        return out
    n = 0
    for (P, M), sites in sorted(pairs.items(), key=lambda kv: str(kv[0])):
        stores = []
        for f in fns:
            for b, i, e in f.iter_elems():
                for (l, r, op, node) in ex.writes(e):
                    if ex.field_key(l) == M and ex.deref(node).get("k") != "decl":
                        if op == "=" and r is not None and ex.const_val(r) is not None:
                            continue        # constant: "nothing allocated"
                        stores.append((f, b, i, l, r, op, node))
        if not stores:
            continue
        FR = freeing(P)
        holders = {(rn, fd_["n"]) for rn, rec in prog.records.items() for fd_ in rec["fields"] if fd_.get("prec") == P[0]}
        for (f, b, i, l, r, op, node) in stores:
            if files is not None and f.file.rsplit("/", 1)[-1] not in files:
                continue
            n += 1
            ck.saw_function(f)
            def p_is(x):
                return ex.field_key(x) == P
            cutb = set()       # blocks that release / re-establish / null P
            for bb, ii, ee in f.iter_elems():
                for c in ex.calls(ee, into_refs=False):
                    if (c.get("fn") == "lzma_free" and c["args"] and p_is(c["args"][0])) or c.get("fn") in FR:
                        cutb.add(bb.id)
                for (l2, r2, op2, n2) in ex.writes(ee):
                    if p_is(l2):
                        cutb.add(bb.id)
                    # the array of records that hold P is allocated anew: the new elements have no buffer yet
                    fk2 = ex.field_key(l2)
                    if fk2 and r2 is not None and (fk2 in holders) and \
                            any(c.get("fn") in ("lzma_alloc", "lzma_alloc_zero") for c in ex.calls(r2)):
                        cutb.add(bb.id)
            # locals sampled from M
            olds = set()
            for bb, ii, ee in f.iter_elems():
                e_ = ex.deref(ee)
                if e_.get("k") == "decl" and e_.get("init") is not None and ex.field_key(e_["init"]) == M:
                    olds.add(e_["n"])
            cut_edges = set()
            for tb in f.blocks.values():
                if not (tb.term and "cond" in tb.term and len(tb.succs) == 2):
                    continue
                c = ex.strip(tb.term["cond"])
                neg = False
                while c is not None and c.get("k") == "un" and c["op"] == "!":
                    neg = not neg
                    c = ex.strip(c["e"])
                if c is None:
                    continue
                T, F = 0, 1
                if c.get("k") == "bin" and c["op"] in ("==", "!="):
                    a, d = ex.strip(c["l"]), ex.strip(c["r"])
                    eq_idx = (T if c["op"] == "==" else F)
                    if neg:
                        eq_idx = 1 - eq_idx
                    sides = (a, d)
                    is_m = [ex.field_key(x) == M for x in sides]
                    if any(is_m):
                        o = sides[1] if is_m[0] else sides[0]
                        if (r is not None and ex.same(o, r)) or (o is not None and o.get("k") == "var" and o["n"] in olds):
                            cut_edges.add((tb.id, eq_idx))
                    # P == NULL
                    if (p_is(a) and ex.is_const(d, 0)) or (p_is(d) and ex.is_const(a, 0)):
                        cut_edges.add((tb.id, eq_idx))
                elif p_is(c):
                    cut_edges.add((tb.id, T if neg else F))       # if (P) ... : the false edge means P == NULL

            def search(starts, goal, forward=True):
                seen, st = set(), list(starts)
                while st:
                    x = st.pop()
                    if x in seen:
                        continue
                    seen.add(x)
                    if x == goal:
                        return True
                    if x in cutb and x != b.id:
                        continue
                    blk = f.blocks[x]
                    for idx, y in enumerate(blk.succs):
                        if y is None or (x, idx) in cut_edges:
                            continue
                        st.append(y)
                return False
            # (pre) entry -> store without release / equality
            pre_open = search([f.entry], b.id) if b.id not in cutb or True else False
            if b.id in cutb:
                # release and store in the same block: order decides
                rel_first = False
                for j, ee in enumerate(b.elems):
                    if ee is None:
                        continue
                    if j < i and (any((c.get("fn") == "lzma_free" and c["args"] and p_is(c["args"][0])) or c.get("fn") in FR
                                      for c in ex.calls(ee, into_refs=False)) or any(p_is(l2) for (l2, r2, o2, n2) in ex.writes(ee))):
                        rel_first = True
                if rel_first:
                    pre_open = False
            # (post) store -> exit without release / equality
            post_open = True
            later = False
            for j in range(i + 1, len(b.elems)):
                ee = b.elems[j]
                if ee is None:
                    continue
                if any((c.get("fn") == "lzma_free" and c["args"] and p_is(c["args"][0])) or c.get("fn") in FR
                       for c in ex.calls(ee, into_refs=False)) or any(p_is(l2) for (l2, r2, o2, n2) in ex.writes(ee)):
                    later = True
            if later:
                post_open = False
            else:
                starts = [y for idx, y in enumerate(b.succs) if y is not None and (b.id, idx) not in cut_edges]
                post_open = search(starts, f.exit)
            exc = SIZEKEY_EXCEPT.get((P[1], M[1], f.name))
            ok = exc is not None or not pre_open or not post_open
            ck.ob(rule, "%s:%s:%s" % (f.name, P[1], M[1]), ok, common.where(f, node),
                  ("%s: `%s` changes only %s" % (f.name, ex.show(node)[:60],
                                                 "after the buffer was released / behind an equality test" if not pre_open
                                                 else "followed by a release, re-allocation or old-value test of the buffer")
                   if exc is None else "exception: " + exc) if ok else
                  "%s(): `%s` (line %s) changes the size that member '%s' was allocated with (%s(): `%s`), on a path where "
                  "the buffer is neither released nor known to be NULL nor the new size tested equal: a kept buffer of the "
                  "old size is then used with the new bound (overflow when the size grows)" % (
                      f.name, ex.show(node)[:70], ex.line(node), P[1], sites[0][0].name, ex.show(sites[0][2])[:70]),
                  key="SIZEKEY:%s:%s:%s" % (f.name, P[1], M[1]))
    # the comparison `old == M` that decides to KEEP the buffer is meaningful only if M already has its final value: a
    # store to M after the comparison (sons_count doubled for the binary-tree finders after the test) invalidates it
    for f in fns:
        if files is not None and f.file.rsplit("/", 1)[-1] not in files:
            continue
        olds = {}
        for bb, ii, ee in f.iter_elems():
            e_ = ex.deref(ee)
            if e_.get("k") == "decl" and e_.get("init") is not None:
                fk = ex.field_key(e_["init"])
                if fk and any(M == fk for (P, M) in pairs):
                    olds[e_["n"]] = fk
        for tb in f.blocks.values():
            if not (tb.term and "cond" in tb.term):
                continue
            for c in ex.walk(tb.term["cond"]):
                if c.get("k") != "bin" or c["op"] not in ("==", "!="):
                    continue
                a, d = ex.strip(c["l"]), ex.strip(c["r"])
                for x, y in ((a, d), (d, a)):
                    if x is not None and x.get("k") == "var" and x["n"] in olds and ex.field_key(y) == olds[x["n"]]:
                        M = olds[x["n"]]
                        after = cfg.reachable(f, [z for z in tb.succs if z is not None])
                        late = [nd for bb, ii, ee in f.iter_elems() if bb.id in after
                                for (l2, r2, op2, nd) in ex.writes(ee) if ex.field_key(l2) == M]
                        n += 1
                        ck.ob(rule, "%s:%s:final" % (f.name, M[1]), not late, common.where(f, late[0] if late else c),
                              "%s(): %s has its final value when it is compared with %s" % (f.name, M[1], x["n"]) if not late else
                              "%s(): `%s` changes %s after it was compared with %s to decide whether the old allocation can be "
                              "kept: a re-initialisation that needs a bigger array (hash chain -> binary tree at the same "
                              "dictionary size) keeps the smaller one and writes past its end" % (
                                  f.name, ex.show(late[0])[:50], M[1], x["n"]), key="%s:%s:%s:final" % (
                                      rule.split("-", 1)[1], f.name, M[1]))
    ck.floor(rule, floor)


# (function, file, producer call, releasing/transferring calls, which exits must be covered, why)
LOCALOWN = [
    ("lzma_raw_coder_init", "filter_common.c", "lzma_next_filter_init", ("lzma_next_end",), "error-after-failure",
     "a partially initialised filter chain is ended before the error is returned: the callers of lzma_raw_coder_init() "
     "(raw/Block/stream coders, lzma_filters_update) rely on getting either a complete chain or none"),
    ("stream_decode", "stream_decoder.c", "lzma_block_header_decode", ("lzma_filters_free",), "all",
     "the filter options decoded from the Block Header live in a stack array of stream_decode(): they must be freed "
     "before any return"),
    ("lzma_block_header_decode", "block_header_decoder.c", "lzma_filter_flags_decode", ("lzma_filters_free",), "error",
     "filter options already decoded into block->filters must be freed when the header turns out to be invalid"),
    ("stream_encoder_update", "stream_encoder.c", "lzma_filters_copy", ("lzma_filters_free", "memcpy"), "all",
     "the temporary copy of the new chain is either freed or moved into coder->filters"),
    ("stream_encoder_mt_update", "stream_encoder_mt.c", "lzma_filters_copy", ("lzma_filters_free", "memcpy"), "all",
     "the temporary copy of the new chain is either freed or moved into coder->filters"),
]


def check_localown(ck, prog):
    from sa import guard
    ck.rule("C10-LOCALOWN", "allocations handed to a function-local (or caller-owned, on error) filter array are released "
                            "or transferred on every path from the producing call to a return")
    cg = common.callgraph(prog)
    rs = common.retsets(prog)
    for (fn, file, producer, releasers, which, why) in LOCALOWN:
        f = prog.fn(fn, file)
        ck.saw_function(f)
        m = PlainGraph(prog, f, cg, rs)
        g = m.g
        gs, sites = guard.find_res(f, producer, ("LZMA_OK",), prog)
        if not gs and which == "error-after-failure":
            called = any(c.get("fn") == producer for b, i, e in f.iter_elems() for c in ex.calls(e, into_refs=True))
            if not called:
                raise AnalysisBroken("%s: call of %s() not found" % (fn, producer))
            ck.ob("C10-LOCALOWN", fn, False, common.where(f),
                  "%s(): the result of %s() is not tested, so a failure returns without %s (%s)" % (
                      fn, producer, "/".join(releasers), why), key="LOCALOWN:%s" % fn)
            continue
        if not gs:
            raise AnalysisBroken("%s: result test of %s() not found" % (fn, producer))
        cut_blocks = set()
        for b, i, e in f.iter_elems():
            if any(c.get("fn") in releasers for c in ex.calls(e, into_refs=False)):
                cut_blocks.add(b.id)
        if not cut_blocks:
            ck.ob("C10-LOCALOWN", fn, False, common.where(f), "%s(): no call to %s at all (%s)" % (fn, "/".join(releasers), why),
                  key="LOCALOWN:%s" % fn)
            continue
        ok_val = m.rets.get("LZMA_OK", 0)
        src = []
        for x in gs:
            for node in [nd for nd in g.nodes if nd[0] == x.bid]:
                for (dst, label) in g.succ.get(node, ()):
                    if label == (x.fail_label if which == "error-after-failure" else x.pass_label):
                        src.append(dst)

        def dstp(node):
            if node[0] != f.exit:
                return None
            if which in ("all", "error-after-failure"):
                return "return"
            rv = g.get(node[1], "$ret")
            if rv is None or any(v != ok_val for v in rv):
                return "error return"
            return None
        path, hit = guard.cut_reach(g, src, set(), dstp, cut_blocks=cut_blocks)
        ck.ob("C10-LOCALOWN", fn, path is None, common.where(f, gs[0].line),
              "%s(): every %s after a successful %s() passes %s (%s)" % (
                  fn, "return" if which == "all" else "error return", producer, "/".join(releasers), why)
              if path is None else
              "%s(): %s is reachable after a successful %s() without %s: path %s -- the options allocated by %s() are "
              "leaked (%s)" % (fn, hit, producer, "/".join(releasers), m.describe_path(path), producer, why),
              key="LOCALOWN:%s" % fn)
    ck.floor("C10-LOCALOWN", 4)


def run(ck):
    ck.explanation = (
        "Ownership rules decided on the AST/CFG of all 79 liblzma units: owned members of each coder record "
        "vs the releases reachable from its end function; freed-alias dataflow (dangling persistent pointer at "
        "return); NULL-test-before-dereference for every allocation; stream inits through the wrapper that ends "
        "the stream on failure; no dropped lzma_ret; strong-guarantee effect ordering.")
    ck.not_decided = ("balance of allocations for every failure index k at run time; leaks or double frees "
                      "through aliasing patterns other than the freed-alias rule; xz-side allocation handling.")
    prog = common.program(ck, ("liblzma",))
    check_end(ck, prog)
    check_alias(ck, prog)
    check_null(ck, prog)
    check_strm(ck, prog)
    check_err(ck, prog)
    check_strong(ck, prog)
    check_initord(ck, prog)
    check_cachekey(ck, prog)
    check_reown(ck, prog)
    # "objects owned by the caller are left unchanged": single-call coders put the position back on every error (C02)
    from . import C02
    C02.check_rewind(ck, prog, rule="C10-REWIND")
    check_localalloc(ck, prog)
    check_localcoder(ck, prog)
    check_init_fail_frees(ck, prog)
    check_sizekey(ck, prog)
    check_syncend(ck, prog)
    check_local_index(ck, prog)
    check_deep_free(ck, prog)
    check_localown(ck, prog)
